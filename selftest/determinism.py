#!/venv/bin/python
"""Determinism self-test: every check, N seeds per scenario, executed in three fresh
interpreters (PYTHONHASHSEED 0, 0 again, and 12345) - digests, tape lengths and verdicts
must be identical.  usage: selftest/determinism.py [N] [C12 C15 ...]   exit 0 = identical"""
import json, os, subprocess, sys
VERIF = os.path.dirname(os.path.dirname(os.path.abspath(__file__)))
args = sys.argv[1:]
n = int(args[0]) if args and args[0].isdigit() else 20
props = [a for a in args if a.startswith("C")] or \
    [c["property_id"] for c in json.load(open(os.path.join(VERIF, "MANIFEST.json")))["checks"]]
bad = 0
from concurrent.futures import ThreadPoolExecutor


def digests(prop, hashseed):
    env = dict(os.environ, VERIF_HASHSEED=str(hashseed), VERIF_NO_EVIDENCE="1")
    env.pop("PYTHONHASHSEED", None)
    env.pop("VERIF_REEXEC", None)
    r = subprocess.run([os.path.join(VERIF, "check"), prop, "--digests", str(n)], env=env,
                       capture_output=True, text=True, timeout=3600)
    return [l for l in r.stdout.splitlines() if l.startswith(prop)], r.stderr[-300:]


def one(prop):
    a, ea = digests(prop, 0)
    b, eb = digests(prop, 0)
    c, ec = digests(prop, 12345)
    return prop, a, b, c, ea or eb or ec


with ThreadPoolExecutor(6) as ex:
    for prop, a, b, c, err in ex.map(one, props):
        ok = a and a == b == c
        bad += not ok
        print(f"{prop}: {len(a)} runs x 3 interpreters: {'identical' if ok else 'DIFFERENT'}")
        if not ok:
            for x, y, z in zip(a, b, c):
                if not x == y == z:
                    print("   ", x, "|", y, "|", z)
                    break
            if not a:
                print("   no output:", err)
print("NONDETERMINISM" if bad else "deterministic")
sys.exit(2 if bad else 0)
