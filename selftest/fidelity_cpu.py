#!/venv/bin/python
"""Differential test of sim/cpu.py + sim/kernel.py against the REAL kernel.

    python /verif/selftest/fidelity_cpu.py [--n N] [--seed S] [--verbose]

(a) N random raw eBPF programs (built here byte by byte, not with the ebpfcat
    generator) are loaded and test-run with the real ``bpf()`` system call and
    with SimKernel; return value, output packet and map content must agree.
    Programs the real verifier rejects are skipped and counted.
(b) programs made by the real ebpfcat generator (the KernelTests of
    ebpf_test.py and some more) run through both; everything Python reads back
    must agree.
(c) encodings the kernel refuses at load time must be refused by SimKernel.
(d) FastSyncGroup-style XDP programs with a hand written tail call, errno
    behaviour of the map commands, fd life time: both sides where possible.

Exit 0 and a one-line JSON summary if everything agrees, exit 1 and the first
mismatching program otherwise.  "SKIP: bpf() not permitted" and exit 0 if the
real system call is not available.
"""

import argparse
import ctypes
import json
import os
import random
import struct
import sys
import time
from contextlib import contextmanager

sys.dont_write_bytecode = True
sys.path.insert(0, os.path.dirname(os.path.dirname(os.path.abspath(__file__))))

import ebpfcat.arraymap                                        # noqa: E402
import ebpfcat.bpf                                             # noqa: E402
from ebpfcat.arraymap import ArrayMap, PerCPUArrayMap          # noqa: E402
from ebpfcat.bpf import ProgType                               # noqa: E402
from ebpfcat.ebpf import (                                     # noqa: E402
    EBPF, FuncId, LocalVar, Member, Structure, SubProgram)
from ebpfcat.hashmap import Dict, HashMap                      # noqa: E402
from ebpfcat.xdp import XDP, PacketVar, XDPExitCode            # noqa: E402

from sim.cpu import CpuFault, decode_program, disasm_program   # noqa: E402
from sim.kernel import SimKernel                               # noqa: E402

REAL_BPF = ebpfcat.bpf.bpf
REAL_MMAP = ebpfcat.arraymap.mmap
REAL_CPU_COUNT = ebpfcat.arraymap.cpu_count

M64 = (1 << 64) - 1


class Mismatch(Exception):
    pass


def possible_cpus():
    try:
        with open("/sys/devices/system/cpu/possible") as f:
            text = f.read().strip()
        total = 0
        for part in text.split(","):
            lo, _, hi = part.partition("-")
            total = max(total, int(hi or lo) + 1)
        return total
    except OSError:
        return os.cpu_count()


# --------------------------------------------------------------------------
# raw access to either side
# --------------------------------------------------------------------------

class Side:
    """the bpf() system call of the real kernel or of a SimKernel"""

    def __init__(self, name, bpf, kernel=None):
        self.name = name
        self.bpf = bpf
        self.kernel = kernel

    def create_map(self, map_type, key_size, value_size, entries, flags=0):
        return self.bpf(0, "IIIII", map_type, key_size, value_size, entries,
                        flags)[0]

    def update(self, fd, key, value, flags=0):
        k = ctypes.create_string_buffer(bytes(key), len(key))
        v = ctypes.create_string_buffer(bytes(value), len(value))
        return self.bpf(2, "IQQQ", fd, ctypes.addressof(k),
                        ctypes.addressof(v), flags)[0]

    def lookup(self, fd, key, size, cmd=1, flags=0):
        k = ctypes.create_string_buffer(bytes(key), len(key))
        v = ctypes.create_string_buffer(size)
        self.bpf(cmd, "IQQQ", fd, ctypes.addressof(k), ctypes.addressof(v),
                 flags)
        return v.raw

    def delete(self, fd, key):
        k = ctypes.create_string_buffer(bytes(key), len(key))
        return self.bpf(3, "IQ", fd, ctypes.addressof(k))[0]

    def next_key(self, fd, key, size):
        n = ctypes.create_string_buffer(size)
        if key is None:
            self.bpf(4, "IQQ", fd, 0, ctypes.addressof(n))
        else:
            k = ctypes.create_string_buffer(bytes(key), len(key))
            self.bpf(4, "IQQ", fd, ctypes.addressof(k), ctypes.addressof(n))
        return n.raw

    def prog_load(self, insns, prog_type=6, license=b"GPL"):
        code = ctypes.create_string_buffer(bytes(insns), len(insns))
        lic = ctypes.create_string_buffer(license)
        return self.bpf(5, "IIQQIIQII16sII", prog_type, len(insns) // 8,
                        ctypes.addressof(code), ctypes.addressof(lic),
                        0, 0, 0, 0, 0, b"fidelity", 0, 0)[0]

    def test_run(self, fd, packet, repeat=1, out_size=None):
        """-> (retval, complete output packet)"""
        din = ctypes.create_string_buffer(bytes(packet), len(packet))
        out_size = len(packet) if out_size is None else out_size
        dout = ctypes.create_string_buffer(max(out_size, len(packet)))
        _, fields = self.bpf(10, "IIIIQQII20x", fd, 0, len(packet), out_size,
                             ctypes.addressof(din), ctypes.addressof(dout),
                             repeat, 0)
        return fields[1], dout.raw[:fields[3]]


REAL = Side("real", REAL_BPF)


def new_sim():
    kernel = SimKernel(possible_cpus=possible_cpus())
    return Side("sim", kernel.bpf, kernel)


@contextmanager
def library_on(side):
    """let the ebpfcat library talk to `side`"""
    if side.kernel is not None:
        ebpfcat.bpf.bpf = side.kernel.bpf
        ebpfcat.arraymap.mmap = side.kernel.mmap
        ebpfcat.arraymap.cpu_count = lambda: side.kernel.possible_cpus
    try:
        yield
    finally:
        ebpfcat.bpf.bpf = REAL_BPF
        ebpfcat.arraymap.mmap = REAL_MMAP
        ebpfcat.arraymap.cpu_count = REAL_CPU_COUNT


def lib_test_run(fd, packet, repeat=1):
    """BPF_PROG_TEST_RUN through whatever ebpfcat.bpf.bpf currently is"""
    return Side("lib", ebpfcat.bpf.bpf).test_run(fd, packet, repeat)


# --------------------------------------------------------------------------
# (a) random programs
# --------------------------------------------------------------------------

def insn(op, dst=0, src=0, off=0, imm=0):
    imm &= 0xffffffff
    if imm & 0x80000000:
        imm -= 1 << 32
    return struct.pack("<BBhi", op, dst | src << 4, off, imm)


def ld64(dst, value, src=0):
    value &= M64
    return insn(0x18, dst, src, 0, value & 0xffffffff) + \
        insn(0, 0, 0, 0, value >> 32)


DATA_REGS = (0, 1, 2, 3, 4, 5, 8, 9)   # hold scalars all the time
R_MAP, R_PKT, R_FP = 6, 7, 10          # map value, packet, frame pointer
PKT_LEN = 64
MAP_VALUE = 64
STACK_AREA = 64                        # fp-64 .. fp-1 is used by the body
SPILL = -128                           # fp-128 .. fp-65 by the epilogue
MAP_FD_PLACEHOLDER = 0x7ffffff0    # array map, one 64 byte value
HASH_FD_PLACEHOLDER = 0x7ffffff1   # hash map, 4 byte keys, 8 byte values
HASH_ENTRIES = 2
HASH_KEYS = (0, 1, 2)
MIX = 0x9e3779b97f4a7c15

BOUNDARY64 = (
    0, 1, 2, M64, M64 - 1, 0x7fffffff, 0x80000000, 0xffffffff, 0x100000000,
    0x7fffffffffffffff, 0x8000000000000000, 0x8000000000000001,
    0xffffffff00000000, 0xffffffff80000000, 0x00000000ffffffff ^ M64,
    31, 32, 33, 63, 64, 65, 127, 128, 255, 256, 0xffff, 0x10000,
    0x0123456789abcdef, 0xfedcba9876543210, 0x00ff00ff00ff00ff)
BOUNDARY32 = (
    0, 1, 2, -1, -2, 0x7fffffff, -0x80000000, -0x7fffffff, 31, 32, 33, 63,
    64, 65, 255, 256, 0xffff, 0x10000, 0x12345678, -0x12345678)

ALU_OPS = (0x00, 0x10, 0x20, 0x30, 0x40, 0x50, 0x60, 0x70, 0x80, 0x90, 0xa0,
           0xb0, 0xc0)
JMP_OPS = (0x10, 0x20, 0x30, 0x40, 0x50, 0x60, 0x70, 0xa0, 0xb0, 0xc0, 0xd0)
SIZES = ((0x00, 4), (0x08, 2), (0x10, 1), (0x18, 8))


class Generator:
    """random programs the verifier accepts by construction

    r6 = pointer to a 64 byte array map value, r7 = pointer to 64 checked
    packet bytes, r10 = frame pointer; all other registers always hold
    scalars, every stack byte that is read was written first, pointers are
    never used as operands, jumps only go forward and every instruction is
    reachable.
    """

    def __init__(self, rng):
        self.rng = rng

    def const64(self):
        r = self.rng
        c = r.random()
        if c < 0.5:
            return r.choice(BOUNDARY64)
        if c < 0.7:
            return r.getrandbits(64)
        if c < 0.8:
            return r.getrandbits(32)
        if c < 0.9:
            return (1 << r.randrange(64)) - r.randrange(2)
        return r.getrandbits(r.randrange(1, 65)) ^ (M64 * r.randrange(2))

    def const32(self):
        r = self.rng
        c = r.random()
        if c < 0.5:
            return r.choice(BOUNDARY32)
        if c < 0.75:
            return r.getrandbits(32) - (1 << 31)
        return r.randrange(-130, 130)

    def reg(self):
        return self.rng.choice(DATA_REGS)

    # ---- one random body instruction -> (kind, bytes) ---------------------

    def alu(self):
        r = self.rng
        cls = r.choice((0x04, 0x07))
        code = r.choice(ALU_OPS)
        dst = self.reg()
        if code == 0x80:
            return insn(code | cls, dst)
        if r.random() < 0.5:
            return insn(code | cls | 0x08, dst, self.reg())
        imm = self.const32()
        bits = 64 if cls == 0x07 else 32
        if code in (0x30, 0x90) and imm == 0:
            imm = r.choice((1, -1, 3, 7, 10, 0x7fffffff, -0x80000000))
        if code in (0x60, 0x70, 0xc0):
            imm = r.choice((0, 1, bits - 1, bits // 2, r.randrange(bits)))
        return insn(code | cls, dst, 0, 0, imm)

    def endian(self):
        return insn(self.rng.choice((0xd4, 0xdc)), self.reg(), 0, 0,
                    self.rng.choice((16, 32, 64)))

    def memory(self):
        """LDX / STX / ST of any size on stack, map value or packet"""
        r = self.rng
        sizebits, size = r.choice(SIZES)
        where = r.choice(("stack", "stack", "map", "packet"))
        if where == "stack":    # must be aligned
            base = R_FP
            off = -size * r.randrange(1, STACK_AREA // size + 1)
        else:                   # x86: any alignment
            base = R_MAP if where == "map" else R_PKT
            off = r.randrange(0, PKT_LEN - size + 1)
            if r.random() < 0.3:
                off = r.choice((0, PKT_LEN - size))
        kind = r.random()
        if kind < 0.4:
            return insn(0x61 | sizebits, self.reg(), base, off)
        if kind < 0.8:
            return insn(0x63 | sizebits, base, self.reg(), off)
        return insn(0x62 | sizebits, base, 0, off, self.const32())

    def xadd(self):
        r = self.rng
        sizebits, size = r.choice(((0x00, 4), (0x18, 8)))
        if r.random() < 0.5:
            base = R_FP
            off = -size * r.randrange(1, STACK_AREA // size + 1)
        else:
            base = R_MAP
            off = size * r.randrange(MAP_VALUE // size)
        return insn(0xc3 | sizebits, base, self.reg(), off)

    def helper_call(self):
        """lookup / update / delete on the array or the hash map

        One item of several instructions.  r0 gets a scalar on every path
        (the looked-up value, 0, or the helper's return code), the clobbered
        r1-r5 get new values.
        """
        r = self.rng
        use_hash = r.random() < 0.6
        fd = HASH_FD_PLACEHOLDER if use_hash else MAP_FD_PLACEHOLDER
        code = [insn(0x62, R_FP, 0, -4, r.choice(HASH_KEYS)),   # key
                insn(0xbf, 2, R_FP), insn(0x07, 2, 0, 0, -4),
                ld64(1, fd, 1)]
        what = r.choice(("lookup", "update", "update", "delete"))
        if what == "lookup":
            code += [insn(0x85, 0, 0, 0, 1), insn(0x15, 0, 0, 1, 0),
                     insn(0x79, 0, 0, 0)]
        elif what == "update":      # value: 8 resp. 64 bytes of stack
            code += [insn(0xbf, 3, R_FP),
                     insn(0x07, 3, 0, 0,
                          -8 * r.randrange(1, 9) if use_hash else -64),
                     insn(0xb7, 4, 0, 0, r.choice((0, 0, 1, 2, 3))),
                     insn(0x85, 0, 0, 0, 2)]
        else:
            code += [insn(0x85, 0, 0, 0, 3)]
        for reg in (1, 2, 3, 4, 5):
            code.append(insn(0xb7, reg, 0, 0, self.const32()))
        return b"".join(code)

    def condition(self):
        """a conditional jump with offset 0, to be patched"""
        r = self.rng
        cls = r.choice((0x05, 0x06))
        code = r.choice(JMP_OPS)
        if r.random() < 0.5:
            return insn(code | cls | 0x08, self.reg(), self.reg())
        return insn(code | cls, self.reg(), 0, 0, self.const32())

    # ---- whole program ----------------------------------------------------

    def body(self):
        """list of [bytes, jump target item or None]"""
        r = self.rng
        count = r.randrange(4, 48)
        items = []
        jumps = calls = 0
        pending_else = {}   # item index where a JA has to be placed -> end
        i = 0
        while i < count:
            if i in pending_else:
                # end of a "then" block: skip the "else" block.  The else
                # block is reachable through the condition that opened it.
                items.append([insn(0x05), pending_else.pop(i)])
                i += 1
                continue
            c = r.random()
            if c < 0.50:
                code = self.alu()
            elif c < 0.55:
                code = self.endian()
            elif c < 0.60:
                code = ld64(self.reg(), self.const64())
            elif c < 0.80:
                code = self.memory()
            elif c < 0.86:
                code = self.xadd()
            elif c < 0.87:
                code = insn(0x05)              # goto +0
                items.append([code, i + 1])
                i += 1
                continue
            elif c < 0.90 and calls < 3:
                calls += 1
                code = self.helper_call()
            elif jumps < 8 and i + 1 < count:
                jumps += 1
                target = min(count, i + 1 + r.randrange(0, 9))
                if r.random() < 0.3 and target + 1 < count \
                        and target > i + 1 \
                        and not any(i < p <= target for p in pending_else):
                    # if / else: a JA at target-1 jumps over target..end-1;
                    # the slot of that JA is item `target - 1`, so the
                    # condition jumps to `target`
                    end = min(count, target + 1 + r.randrange(0, 6))
                    pending_else[target - 1] = end
                items.append([self.condition(), target])
                i += 1
                continue
            else:
                code = self.alu()
            items.append([code, None])
            i += 1
        return items

    def program(self):
        """-> byte code with MAP_FD_PLACEHOLDER as map fd"""
        r = self.rng
        pro = [
            insn(0x61, 7, 1, 0),               # r7 = ctx->data
            insn(0x61, 8, 1, 4),               # r8 = ctx->data_end
            insn(0xbf, 9, 7),                  # r9 = r7
            insn(0x07, 9, 0, 0, PKT_LEN),      # r9 += 64
            None,                              # if r9 > r8 goto FAIL
            insn(0x61, 9, 1, 12),              # r9 = ctx->ingress_ifindex
            insn(0x7b, R_FP, 9, SPILL),        # keep it for later
            insn(0x62, R_FP, 0, -4, 0),        # key = 0
            insn(0xbf, 2, R_FP),
            insn(0x07, 2, 0, 0, -4),
            ld64(1, MAP_FD_PLACEHOLDER, 1),    # r1 = map
            insn(0x85, 0, 0, 0, 1),            # map_lookup_elem
            None,                              # if r0 == 0 goto FAIL
            insn(0xbf, R_MAP, 0),              # r6 = value
        ]
        # every stack byte the body may read gets a value
        for slot in range(STACK_AREA // 8):
            off = -8 * (slot + 1)
            c = r.random()
            if c < 0.5:
                pro.append(ld64(0, self.const64()))
                pro.append(insn(0x7b, R_FP, 0, off))
            elif c < 0.75:
                pro.append(insn(0x7a, R_FP, 0, off, self.const32()))
            else:   # values the verifier does not know
                pro.append(insn(0x79, 0, R_PKT, 8 * slot))
                pro.append(insn(0x7b, R_FP, 0, off))
        for reg in DATA_REGS:
            c = r.random()
            if c < 0.55:
                pro.append(ld64(reg, self.const64()))
            elif c < 0.7:
                pro.append(insn(r.choice((0xb7, 0xb4)), reg, 0, 0,
                                self.const32()))
            elif c < 0.8:
                pro.append(insn(0x79, reg, R_PKT, r.randrange(PKT_LEN - 7)))
            elif c < 0.9:
                pro.append(insn(0x79, reg, R_MAP, r.randrange(MAP_VALUE - 7)))
            else:
                pro.append(insn(0x79, reg, R_FP, SPILL))   # ingress_ifindex

        body = self.body()

        epi = []
        for i, reg in enumerate(DATA_REGS):    # registers -> fp-128..
            epi.append(insn(0x7b, R_FP, reg, SPILL + 8 * i))
        epi.append(insn(0xb7, 0, 0, 0, 0))
        epi.append(ld64(2, MIX))
        for base, start in ((R_FP, SPILL), (R_FP, -STACK_AREA), (R_PKT, 0),
                            (R_MAP, 0)):
            for i in range(8):                 # hash all observable memory
                epi += [insn(0x79, 1, base, start + 8 * i),
                        insn(0xaf, 0, 1), insn(0x2f, 0, 2), insn(0xbf, 3, 0),
                        insn(0x77, 3, 0, 0, 29), insn(0xaf, 0, 3)]
        for i in range(8):                     # registers -> packet
            epi += [insn(0x79, 1, R_FP, SPILL + 8 * i),
                    insn(0x7b, R_PKT, 1, 8 * i)]
        epi += [insn(0xbf, 3, 0), insn(0x77, 3, 0, 0, 32), insn(0xaf, 0, 3),
                insn(0x95)]
        fail = [insn(0xb7, 0, 0, 0, 0xdead), insn(0x95)]

        # positions in instruction slots
        def slots(chunks):
            return sum(len(c) // 8 if c is not None else 1 for c in chunks)
        body_start = slots(pro)
        pos = [body_start]
        for code, _ in body:
            pos.append(pos[-1] + len(code) // 8)
        fail_pos = pos[-1] + slots(epi)
        out = []
        at = 0
        for chunk in pro:
            if chunk is None:
                if at == 4:
                    chunk = insn(0x2d, 9, 8, fail_pos - at - 1)
                else:
                    chunk = insn(0x15, 0, 0, fail_pos - at - 1, 0)
            out.append(chunk)
            at += len(chunk) // 8
        for i, (code, target) in enumerate(body):
            if target is not None:
                op, regs, _, imm = struct.unpack("<BBhi", code)
                code = struct.pack("<BBhi", op, regs,
                                   pos[target] - pos[i] - 1, imm)
            out.append(code)
        return b"".join(out + epi + fail)


def patch_map_fds(code, array_fd, hash_fd):
    needle = ld64(1, MAP_FD_PLACEHOLDER, 1)
    assert code.count(needle) >= 1
    code = code.replace(needle, ld64(1, array_fd, 1))
    return code.replace(ld64(1, HASH_FD_PLACEHOLDER, 1), ld64(1, hash_fd, 1))


def dump_program(code):
    text = [code.hex()]
    try:
        text.append(disasm_program(decode_program(code, lambda fd: fd)))
    except Exception as e:   # show what we have
        text.append(f"(cannot decode: {e})")
    return "\n".join(text)


def random_programs(n, seed, verbose):
    rng = random.Random(seed)
    gen = Generator(rng)
    sim = new_sim()
    maps = {side: side.create_map(2, 4, MAP_VALUE, 1) for side in (REAL, sim)}
    hashes = {side: side.create_map(1, 4, 8, HASH_ENTRIES)
              for side in (REAL, sim)}
    key = bytes(4)

    def hash_content(side):
        content = []
        for k in HASH_KEYS:
            try:
                content.append(side.lookup(hashes[side], struct.pack("<I", k),
                                           8))
            except OSError as e:
                content.append(e.errno)
        return content
    compared = skipped = 0
    reasons = {}
    sim_time = 0.0
    insns0 = sim.kernel.stats["insns"]
    for no in range(n):
        code = gen.program()
        packet = bytes(rng.getrandbits(8) for _ in range(PKT_LEN))
        value = bytes(rng.getrandbits(8) for _ in range(MAP_VALUE))
        preset = [(struct.pack("<I", k), struct.pack("<Q", rng.getrandbits(64)))
                  for k in HASH_KEYS if rng.random() < 0.3][:HASH_ENTRIES]
        results = {}
        for side in (REAL, sim):
            side.update(maps[side], key, value)
            for k in HASH_KEYS:
                try:
                    side.delete(hashes[side], struct.pack("<I", k))
                except OSError:
                    pass
            for k, v in preset:
                side.update(hashes[side], k, v)
            mine = patch_map_fds(code, maps[side], hashes[side])
            try:
                fd = side.prog_load(mine)
            except OSError as e:
                if side is sim:
                    raise Mismatch(
                        f"random program {no}: the real kernel loaded it, "
                        f"SimKernel says {e}\n{dump_program(code)}")
                results = None
                reasons[e.errno] = reasons.get(e.errno, 0) + 1
                if verbose:
                    try:
                        ebpfcat.bpf.prog_load(ProgType.XDP, mine, "GPL",
                                              log_level=1, log_size=1 << 20)
                    except OSError as e2:
                        print(f"program {no} rejected:",
                              "\n".join(str(e2).splitlines()[-4:]))
                break
            try:
                t0 = time.perf_counter()
                retval, out = side.test_run(fd, packet)
            except CpuFault as e:
                raise Mismatch(f"random program {no}: interpreter fault {e}\n"
                               f"{dump_program(code)}")
            finally:
                os.close(fd)
            if side is sim:
                sim_time += time.perf_counter() - t0
            results[side] = (retval, out,
                             side.lookup(maps[side], key, MAP_VALUE),
                             hash_content(side))
        if results is None:
            skipped += 1
            continue
        compared += 1
        if results[REAL] != results[sim]:
            a, b = results[REAL], results[sim]
            raise Mismatch(
                f"random program {no} (seed {seed}) differs\n"
                f"packet in  {packet.hex()}\nmap in     {value.hex()}\n"
                f"real: retval={a[0]:#x}\n  packet {a[1].hex()}\n"
                f"  map    {a[2].hex()}\n"
                f"sim:  retval={b[0]:#x}\n  packet {b[1].hex()}\n"
                f"  map    {b[2].hex()}\n"
                f"hash map: real {a[3]} sim {b[3]}\n"
                f"(packet words are r0 r1 r2 r3 r4 r5 r8 r9)\n"
                f"{dump_program(code)}")
    for side in (REAL, sim):
        os.close(maps[side])
        os.close(hashes[side])
    executed = sim.kernel.stats["insns"] - insns0
    return {"random_compared": compared, "random_skipped": skipped,
            "skip_errnos": reasons,
            "sim_insns": executed,
            "sim_insns_per_s": int(executed / sim_time) if sim_time else 0}


# --------------------------------------------------------------------------
# (b) programs made by the ebpfcat generator
# --------------------------------------------------------------------------
# A scenario uses the library as an application would and returns everything
# it observed.  It runs twice: on the real kernel and on a fresh SimKernel.

PACKET = bytes(range(1, 101))


def sc_hashmap():
    """KernelTests.test_hashmap"""
    class Global(EBPF):
        map = HashMap()
        a = map.globalVar(default=5)
        b = map.globalVar()

    e = Global(ProgType.XDP, "GPL")
    e.b = e.a
    e.a += 7
    e.exit()
    e.load(log_level=1)
    obs = [e.test_run(1000, 1000, 0, 0, 1)[:2]]
    obs.append((e.a, e.b))
    e.a *= 2
    obs.append(e.test_run(1000, 1000, 0, 0, 1)[:2])
    obs.append((e.a, e.b))
    assert obs[-1] == (31, 24), obs
    return obs


def sc_arraymap():
    """KernelTests.test_arraymap"""
    class Global(EBPF):
        map = ArrayMap()
        ar = map.globalVar()
        aw = map.globalVar("h")

    class Sub(SubProgram):
        br = Global.map.globalVar()
        bw = Global.map.globalVar("h")
        bf = Global.map.globalVar("x")

        def program(self):
            self.bw = 4
            self.br -= -33
            self.bw = self.br + 3
            self.bf = self.br / 3.5 + self.bf

    s1 = Sub()
    s2 = Sub()
    e = Global(ProgType.XDP, "GPL", subprograms=[s1, s2])
    e.ar = e.aw + 7
    e.aw += 11
    s1.program()
    s2.program()
    e.r0 = 55
    e.exit()
    e.load(log_level=1)

    def look():
        return (e.ar, e.aw, s1.br, s1.bw, s1.bf, s2.br, s2.bw, s2.bf,
                bytes(e.map))
    obs = [lib_test_run(e.file_descriptor, PACKET), look()]
    assert look()[:4] == (7, 11, 33, 36) and s2.bf == 9.42857
    s1.br = 3
    s2.br *= 5
    e.ar = 1111
    s2.bf = 1.3
    obs.append(look())
    obs.append(lib_test_run(e.file_descriptor, PACKET, repeat=3))
    obs.append(look())
    return obs


def sc_percpu():
    """KernelTests.test_percpumap"""
    class Global(EBPF):
        cpumap = PerCPUArrayMap()
        ar = cpumap.globalVar()
        big = cpumap.globalVar("Q")

    e = Global(ProgType.XDP, "GPL")
    e.ar = 7
    e.big += 0x123456789
    e.exit()
    e.load(log_level=1)
    e.test_run(1000, 1000, 100, 100, 1)
    e.cpumap.read()
    e.ar.index(7)
    # the CPU the real kernel happened to use is not part of the comparison
    return [len(e.ar), sorted(e.ar), sorted(e.big)]


def sc_hashtable():
    """KernelTests.test_hashtable without the per-CPU Dict, which does not
    exist in this version of the library"""
    class Key(Structure):
        keyI = Member("I")
        keyB = Member("B")

    class Value(Structure):
        filler = Member("q")
        valueI = Member("I")
        valueB = Member("B")

    class Program(EBPF):
        ht1 = Dict(key=Key, value=Value, size=2)
        ht2 = Dict(key=Key, value=Value)
        ht4 = Dict(key=Key, value=Value, lru=True)

        map = ArrayMap()
        ar = map.globalVar("i")

        def program(self):
            self.ht1.key.keyB = self.ar
            self.ht1.key.keyI = 7
            # the original leaves `filler` unwritten: an old verifier
            # refuses that, a new one passes stack garbage to the helper,
            # SimCPU faults
            self.ht1.value.filler = 0
            self.ht1.value.valueB = 3
            self.ht1.value.valueI = 9
            self.ht1.update()
            with self.r0 != 0:
                self.ar = self.r0
                self.exit()
            self.ht2.key.keyB = 8
            self.ht2.key.keyI = 1
            with self.ht2.lookup() as (value, Else):
                value.valueB += 3
                value.valueI += 7
            with Else:
                self.ar = 7
            self.exit()

    # the program exits with whatever is in r0, on one path a pointer: the
    # return value is not part of the comparison
    obs = []
    e = Program(ProgType.XDP, "GPL")
    e.load(log_level=1)
    obs.append(lib_test_run(e.file_descriptor, PACKET)[1])
    obs.append(e.ar)
    assert e.ar == 7
    k = Key()
    k.keyB = 8
    k.keyI = 1
    v = Value()
    v.valueB = 2
    v.valueI = 1
    e.ht2[k] = v
    v = e.ht2[k]
    obs.append(bytes(v.data))
    try:
        e.ht1[k]
        obs.append("found")
    except KeyError:
        obs.append("KeyError")
    e.ar = 5
    obs.append(lib_test_run(e.file_descriptor, PACKET)[1])
    v = e.ht2[k]
    obs.append(bytes(v.data))
    assert (v.valueB, v.valueI) == (5, 8)
    k.keyB = 5
    k.keyI = 7
    v = e.ht1[k]
    obs.append(bytes(v.data))
    k.keyI = 2
    try:
        e.ht1[k] = v
        obs.append("stored")
    except IndexError:
        obs.append("IndexError")
    e.ar = 100
    obs.append(lib_test_run(e.file_descriptor, PACKET)[1])
    obs.append(e.ar)
    assert e.ar == -7
    e.ht2[k] = v
    del e.ht2[k]
    try:
        e.ht2[k]
        obs.append("found")
    except KeyError:
        obs.append("KeyError")
    obs.append(e.ht2.pop(k, 8))
    e.ht2[k] = v
    v = e.ht2.pop(k)
    obs.append(bytes(v.data))
    # the order of keys in a hash map is not specified
    obs.append(sorted(bytes(k.data) for k in e.ht2))
    obs.append(sorted(bytes(v.data) for v in e.ht2.values()))
    # LRU: more inserts than room never fail
    for i in range(40):
        k.keyI = i
        e.ht4[k] = v
    obs.append(bytes(e.ht4[k].data))
    return obs


def sc_localvar():
    """stack variables of all sizes, signed and unsigned, and arithmetic"""
    class Local(EBPF):
        a = LocalVar("I")
        b = LocalVar("h")
        c = LocalVar("Q")
        d = LocalVar("b")
        e_ = LocalVar("q")
        f = LocalVar("x")

        map = ArrayMap()
        out = map.globalVar("16q")
        n = map.globalVar("i")
        fx = map.globalVar("x")

    obs = []
    e = Local(ProgType.XDP, "GPL")
    e.a = 7
    e.a += 3
    e.b = -5
    e.c = 0x1234567890abcdef
    e.d = e.b * 3
    e.e_ = e.d - e.a
    e.f = 2.5
    e.f = e.f * e.n + e.fx
    e.r0 = e.a + e.b
    e.r2 = e.c >> 7
    e.sr3 = e.e_ >> 1
    e.r4 = abs(e.e_) % 7
    e.r5 = e.c // 1000
    e.sr8 = -e.sr3
    with e.n > 3 as Else:
        e.r9 = e.n | 0x100
    with Else:
        e.r9 = e.n ^ 0xff
    for i, r in enumerate((0, 2, 3, 4, 5, 8, 9)):
        e.mQ[e.r7 + (e.__dict__["out"] + 8 * i)] = e.r[r]
    e.mq[e.r7 + (e.__dict__["out"] + 8 * 7)] = e.f
    e.mq[e.r7 + (e.__dict__["out"] + 8 * 8)] = e.d
    e.exit()
    e.load()
    for n, x in ((0, 0.0), (5, 1.25), (-3, -7.5), (1000000, 3.0)):
        e.n = n
        e.fx = x
        obs.append(lib_test_run(e.file_descriptor, PACKET))
        obs.append(bytes(e.map))
    return obs


class OwnsContext:
    """EBPF.save_registers forgets that it restored r1 (known defect, see
    DESIGN.md B1): tell the generator that the context is still there."""

    def __init__(self, **kwargs):
        super().__init__(**kwargs)
        self.owners.add(1)


def sc_packet():
    """XDP class with minimumPacketSize, PacketVar and an ArrayMap"""
    class Prog(OwnsContext, XDP):
        license = "GPL"
        minimumPacketSize = 30
        defaultExitCode = XDPExitCode.TX

        vars = ArrayMap()
        count = vars.globalVar("I")
        last = vars.globalVar("H")
        total = vars.globalVar("Q")

        ethertype = PacketVar(12, "!H")
        word = PacketVar(16, "I")
        little = PacketVar(20, "<H")
        byte = PacketVar(24, "B")
        bits = PacketVar(25, (2, 3))

        def program(self):
            self.count += 1
            with self.ethertype == 0x88A4 as Else:
                self.last = self.little
                self.total += self.word
                self.byte = self.byte + 1
                self.ethertype = 0x1234
                self.bits = 5
                self.pB[26] = self.pB[27] + self.pH[28]
            with Else:
                self.pB[14] = 0xee
                self.exit(XDPExitCode.DROP)

    obs = []
    e = Prog()
    e.load()
    ecat = bytearray(PACKET[:60])
    ecat[12:14] = b"\x88\xa4"
    for packet in (bytes(ecat), PACKET, PACKET[:30], PACKET[:31], bytes(ecat),
                   bytes(14)):
        obs.append(lib_test_run(e.file_descriptor, packet))
        obs.append((e.count, e.last, e.total))
    return obs


def sc_tail_call():
    """a dispatcher in the style of EtherXDP / FastSyncGroup: the tail call
    is written by hand, the group program activates the packet"""
    class Group(OwnsContext, XDP):
        license = "GPL"

        properties = ArrayMap()
        wkc_errors = properties.globalVar("I")
        hits = properties.globalVar("I")

        def program(self):
            with self.packetSize >= 40 as p:
                self.hits += 1
                with self.wkc_errors == 0:
                    self.exit(XDPExitCode.TX)
                p.pB[16] = 12
                with p.pH[30] != 3:
                    self.wkc_errors += 1
                p.pH[30] = 0
            self.exit(XDPExitCode.TX)

    class Dispatcher(OwnsContext, XDP):
        license = "GPL"
        minimumPacketSize = 30

        variables = ArrayMap()
        count = variables.globalVar("I")
        missed = variables.globalVar("I")

        def program(self):
            self.count += 1
            self.r3 = self.pB[18]
            self.r2 = self.get_fd(self.programs)
            self.call(FuncId.tail_call)
            self.missed += 1
            self.pB[17] = 0x77

    side = Side("lib", ebpfcat.bpf.bpf)
    programs = side.create_map(3, 4, 4, 8)   # PROG_ARRAY
    d = Dispatcher()
    d.programs = programs
    d.load()
    g = Group()
    g.load()
    obs = []
    key = struct.pack("<I", 5)

    def slot():
        try:
            side.lookup(programs, key, 4)
            return "filled"
        except OSError as e:
            return e.errno

    obs.append(slot())
    side.update(programs, key, struct.pack("<I", g.file_descriptor))
    g.close()   # the table keeps the program alive
    obs.append(slot())
    packet = bytearray(PACKET[:60])
    for index, wkc, errors in ((5, 3, 0), (5, 3, 1), (5, 4, 1), (4, 3, 1),
                               (200, 3, 0), (5, 3, 0)):
        packet[18] = index
        packet[30:32] = struct.pack("<H", wkc)
        g.wkc_errors = errors
        obs.append(lib_test_run(d.file_descriptor, bytes(packet)))
        obs.append((d.count, d.missed, g.wkc_errors, g.hits))
    obs.append(lib_test_run(d.file_descriptor, bytes(packet[:35])))
    obs.append((d.count, d.missed, g.wkc_errors, g.hits))
    side.delete(programs, key)
    obs.append(slot())
    try:
        side.delete(programs, key)
        obs.append("deleted")
    except OSError as e:
        obs.append(e.errno)
    obs.append(lib_test_run(d.file_descriptor, bytes(packet)))
    obs.append((d.count, d.missed, g.wkc_errors, g.hits))
    d.close()
    os.close(programs)
    return obs


def sc_errnos():
    """what the map commands answer in the corner cases"""
    side = Side("lib", ebpfcat.bpf.bpf)
    obs = []

    def attempt(name, f, *args, **kwargs):
        try:
            obs.append((name, "ok", f(*args, **kwargs)))
        except OSError as e:
            obs.append((name, "errno", e.errno))

    def k4(i):
        return struct.pack("<I", i)
    arr = side.create_map(2, 4, 12, 3)
    attempt("arr lookup", side.lookup, arr, k4(0), 12)
    attempt("arr lookup oob", side.lookup, arr, k4(3), 12)
    attempt("arr lookup flags", side.lookup, arr, k4(0), 12, flags=1)
    attempt("arr lookup lock", side.lookup, arr, k4(0), 12, flags=4)
    attempt("arr update", side.update, arr, k4(1), b"abcdefghijkl")
    attempt("arr update oob", side.update, arr, k4(3), bytes(12))
    attempt("arr update noexist", side.update, arr, k4(0), bytes(12), 1)
    attempt("arr update exist", side.update, arr, k4(0), bytes(12), 2)
    for flags in (3, 4, 8):
        attempt("arr update flags", side.update, arr, k4(0), bytes(12), flags)
    attempt("arr lookup 1", side.lookup, arr, k4(1), 12)
    attempt("arr delete", side.delete, arr, k4(0))
    for key in (None, k4(0), k4(1), k4(2), k4(7)):
        attempt("arr next", side.next_key, arr, key, 4)
    attempt("arr l&d", side.lookup, arr, k4(0), 12, cmd=21)
    attempt("bad fd", side.lookup, 999, k4(0), 12)
    attempt("stdin", side.lookup, 0, k4(0), 12)
    for args in ((2, 8, 4, 1), (2, 4, 0, 1), (2, 4, 4, 0), (77, 4, 4, 1),
                 (0, 4, 4, 1), (6, 4, 4, 1, 1 << 10), (1, 4, 4, 1, 1 << 10),
                 (1, 0, 4, 1), (3, 4, 8, 1), (3, 4, 4, 1, 1 << 10),
                 (2, 4, 4, 1, 1), (9, 4, 4, 1, 1 << 10)):
        try:
            os.close(side.create_map(*args))
            obs.append(("create", args, "ok"))
        except OSError as e:
            obs.append(("create", args, e.errno))

    def k2(i):
        return struct.pack("<H", i)
    h = side.create_map(1, 2, 3, 2)
    attempt("hash lookup missing", side.lookup, h, k2(1), 8)
    attempt("hash update exist missing", side.update, h, k2(1), b"abc", 2)
    attempt("hash update", side.update, h, k2(1), b"abc")
    attempt("hash update noexist", side.update, h, k2(1), b"abc", 1)
    attempt("hash update flags", side.update, h, k2(1), b"abc", 3)
    attempt("hash update 2", side.update, h, k2(2), b"def")
    attempt("hash full", side.update, h, k2(3), b"ghi")
    attempt("hash full exist", side.update, h, k2(3), b"ghi", 2)
    attempt("hash full replace", side.update, h, k2(2), b"xyz")
    attempt("hash next unknown", lambda: side.next_key(h, k2(9), 2)
            == side.next_key(h, None, 2))
    attempt("hash delete missing", side.delete, h, k2(9))
    attempt("hash l&d missing", side.lookup, h, k2(9), 8, cmd=21)
    attempt("hash l&d", side.lookup, h, k2(1), 8, cmd=21)
    attempt("hash l&d flags", side.lookup, h, k2(2), 8, cmd=21, flags=1)
    attempt("hash lookup 2", side.lookup, h, k2(2), 8)
    attempt("hash lookup 1", side.lookup, h, k2(1), 8)
    attempt("hash next", side.next_key, h, None, 2)
    attempt("hash next end", side.next_key, h, k2(2), 2)
    attempt("hash delete", side.delete, h, k2(2))
    attempt("hash next empty", side.next_key, h, None, 2)

    pa = side.create_map(3, 4, 4, 4)
    xdp = side.prog_load(insn(0xb7, 0, 0, 0, 2) + insn(0x95))
    sock = side.prog_load(insn(0xb7, 0, 0, 0, 2) + insn(0x95), prog_type=1)
    attempt("pa lookup empty", side.lookup, pa, k4(0), 4)
    attempt("pa lookup oob", side.lookup, pa, k4(4), 4)
    attempt("pa delete empty", side.delete, pa, k4(0))
    attempt("pa delete oob", side.delete, pa, k4(4))
    attempt("pa update bad fd", side.update, pa, k4(0), k4(999))
    attempt("pa update map fd", side.update, pa, k4(0), k4(arr))
    attempt("pa update", side.update, pa, k4(0), k4(xdp))
    attempt("pa update noexist", side.update, pa, k4(1), k4(xdp), 1)
    attempt("pa update exist", side.update, pa, k4(0), k4(xdp), 2)
    attempt("pa update oob", side.update, pa, k4(4), k4(xdp))
    attempt("pa update other type", side.update, pa, k4(1), k4(sock))
    attempt("pa lookup filled", lambda: len(side.lookup(pa, k4(0), 4)))
    attempt("pa next", side.next_key, pa, None, 4)
    attempt("pa l&d", side.lookup, pa, k4(0), 4, cmd=21)
    attempt("pa delete", side.delete, pa, k4(0))
    attempt("map command on prog", side.lookup, xdp, k4(0), 4)

    n = possible_cpus()
    pc = side.create_map(6, 4, 5, 2)
    attempt("percpu lookup", side.lookup, pc, k4(1), 8 * n)
    value = b"".join(bytes([cpu + 1]) * 8 for cpu in range(n))
    attempt("percpu update", side.update, pc, k4(1), value)
    attempt("percpu lookup", side.lookup, pc, k4(1), 8 * n)
    attempt("percpu lookup 0", side.lookup, pc, k4(0), 8 * n)
    attempt("percpu update noexist", side.update, pc, k4(1), value, 1)
    attempt("percpu update oob", side.update, pc, k4(2), value)

    attempt("load empty", side.prog_load, b"")
    attempt("load no exit", side.prog_load, insn(0xb7, 0, 0, 0, 2))
    attempt("load bad map fd", side.prog_load, ld64(1, 999, 1)
            + insn(0xb7, 0, 0, 0, 2) + insn(0x95))
    attempt("load prog as map", side.prog_load, ld64(1, xdp, 1)
            + insn(0xb7, 0, 0, 0, 2) + insn(0x95))
    attempt("load type 0", side.prog_load,
            insn(0xb7, 0, 0, 0, 2) + insn(0x95), prog_type=0)
    attempt("obj_get missing", ebpfcat.bpf.obj_get,
            "/sys/fs/bpf/verif-does-not-exist")

    inc = (insn(0x61, 2, 1, 0) + insn(0x61, 3, 1, 4) + insn(0xbf, 4, 2)
           + insn(0x07, 4, 0, 0, 14) + insn(0xb7, 0, 0, 0, 0)
           + insn(0x2d, 4, 3, 5) + insn(0x71, 5, 2, 0) + insn(0x07, 5, 0, 0, 1)
           + insn(0x73, 2, 5, 0) + insn(0xbf, 0, 3) + insn(0x1f, 0, 2)
           + insn(0x95))
    fd = side.prog_load(inc)
    attempt("run", side.test_run, fd, bytes(64))
    attempt("run repeat 5", side.test_run, fd, bytes(64), repeat=5)
    attempt("run repeat 0", side.test_run, fd, bytes(64), repeat=0)
    attempt("run 13 bytes", side.test_run, fd, bytes(13))
    attempt("run 14 bytes", side.test_run, fd, bytes(14))
    attempt("run 3520 bytes", lambda: side.test_run(fd, bytes(3520))[0])
    attempt("run small out", side.test_run, fd, bytes(64), out_size=10)
    ifindex = side.prog_load(insn(0x61, 0, 1, 12) + insn(0x95))
    queue = side.prog_load(insn(0x61, 0, 1, 16) + insn(0x95))
    meta = side.prog_load(insn(0x61, 2, 1, 0) + insn(0x61, 0, 1, 8)
                          + insn(0x1f, 0, 2) + insn(0x95))
    for p in (ifindex, queue, meta):
        attempt("ctx", side.test_run, p, bytes(64))
    for f in (arr, h, pa, xdp, sock, pc, fd, ifindex, queue, meta):
        os.close(f)
    attempt("closed fd", side.lookup, arr, k4(0), 12)
    return obs


SCENARIOS = (sc_hashmap, sc_arraymap, sc_percpu, sc_hashtable, sc_localvar,
             sc_packet, sc_tail_call, sc_errnos)


def generator_programs():
    for scenario in SCENARIOS:
        results = []
        for side in (REAL, new_sim()):
            with library_on(side):
                try:
                    results.append(scenario())
                except CpuFault as e:
                    raise Mismatch(f"{scenario.__name__}: interpreter fault "
                                   f"on {side.name}: {e}")
        real, sim = results
        if real != sim:
            lines = [f"scenario {scenario.__name__} differs"]
            for i, (a, b) in enumerate(zip(real, sim)):
                if a != b:
                    lines.append(f" observation {i}:\n  real {a!r}\n"
                                 f"  sim  {b!r}")
            if len(real) != len(sim):
                lines.append(f" {len(real)} vs {len(sim)} observations")
            raise Mismatch("\n".join(lines))
    return {"scenarios": len(SCENARIOS)}


# --------------------------------------------------------------------------
# (c) encodings that must be refused at load time
# --------------------------------------------------------------------------

EXIT0 = insn(0xb7, 0, 0, 0, 0) + insn(0x95)
INVALID = (
    ("alu K with src", insn(0x07, 0, 1, 0, 1)),
    ("alu X with imm", insn(0x0f, 0, 0, 0, 1)),
    ("alu with off", insn(0x07, 0, 0, 2, 1)),
    ("neg with imm", insn(0x87, 0, 0, 0, 1)),
    ("neg X", insn(0x8f, 0, 0)),
    ("div by 0", insn(0x37, 0, 0, 0, 0)),
    ("mod32 by 0", insn(0x94, 0, 0, 0, 0)),
    ("shift 64", insn(0x67, 0, 0, 0, 64)),
    ("shift32 32", insn(0x74, 0, 0, 0, 32)),
    ("shift -1", insn(0xc7, 0, 0, 0, -1)),
    ("end imm 8", insn(0xd4, 0, 0, 0, 8)),
    ("end with src", insn(0xdc, 0, 1, 0, 16)),
    ("alu op 0xe0", insn(0xe7, 0, 0, 0, 1)),
    ("alu op 0xf0", insn(0xf7, 0, 0, 0, 1)),
    ("write r10", insn(0xb7, 10, 0, 0, 1)),
    ("r11", insn(0xb7, 11, 0, 0, 1)),
    ("src r12", insn(0xbf, 0, 12)),
    ("jmp K with src", insn(0x15, 0, 1, 0, 0)),
    ("jmp X with imm", insn(0x1d, 0, 0, 0, 1)),
    ("ja with imm", insn(0x05, 0, 0, 0, 1)),
    ("jmp32 exit", insn(0x96)),
    ("jmp32 call", insn(0x86, 0, 0, 0, 7)),
    ("call with dst", insn(0x85, 1, 0, 0, 7)),
    ("exit with imm", insn(0x95, 0, 0, 0, 1) + insn(0x95)),
    ("ldx with imm", insn(0x61, 0, 10, -8, 1)),
    ("ldx mode 0x20", insn(0x21, 0, 10, -8)),
    ("ldx r10", insn(0x79, 10, 1, 0)),
    ("st with src", insn(0x62, 10, 1, -8, 1)),
    ("st mode 0xc0", insn(0xc2, 10, 0, -8, 1)),
    ("stx with imm", insn(0x63, 10, 0, -8, 1)),
    ("atomic on byte", insn(0xd3, 10, 0, -8, 0)),
    ("atomic on half", insn(0xcb, 10, 0, -8, 0)),
    ("atomic bad op", insn(0xc3, 10, 0, -8, 0x20)),
    ("ld_imm64 with off", insn(0x18, 0, 0, 1, 0) + insn(0)),
    ("ld_imm64 bad 2nd", insn(0x18, 0, 0, 0, 0) + insn(0, 1)),
    ("ld_imm64 at end", insn(0xb7, 0, 0, 0, 0) + insn(0x95) + insn(0x18)),
    ("ld_abs", insn(0x20, 0, 0, 0, 0)),
    ("ld W imm", insn(0x00, 0, 0, 0, 0)),
)


def invalid_encodings():
    sim = new_sim()
    for name, code in INVALID:
        code = code if name.endswith("at end") else \
            insn(0xb7, 0, 0, 0, 0) + code + EXIT0
        outcome = {}
        for side in (REAL, sim):
            try:
                os.close(side.prog_load(code))
                outcome[side] = "loaded"
            except OSError as e:
                outcome[side] = "refused"
        if outcome[REAL] != outcome[sim]:
            raise Mismatch(f"encoding '{name}': real kernel {outcome[REAL]}, "
                           f"SimKernel {outcome[sim]}\n{code.hex()}")
    return {"invalid_encodings": len(INVALID)}


# --------------------------------------------------------------------------
# (d) simulator only: faults and bookkeeping
# --------------------------------------------------------------------------

def sim_only():
    sim = new_sim()
    k = sim.kernel
    checks = 0

    def faults(name, code, reason, packet=bytes(64)):
        nonlocal checks
        fd = sim.prog_load(code)
        try:
            sim.test_run(fd, packet)
        except CpuFault as e:
            if reason not in str(e):
                raise Mismatch(f"{name}: fault message {e!s} lacks {reason!r}")
        else:
            raise Mismatch(f"{name}: SimCPU did not fault")
        finally:
            os.close(fd)
        checks += 1

    faults("uninit reg", insn(0xbf, 0, 3) + insn(0x95), "uninitialised r3")
    faults("uninit r0 at exit", insn(0x95), "uninitialised r0")
    faults("uninit stack", insn(0x79, 0, 10, -8) + insn(0x95),
           "uninitialised stack")
    faults("partly init stack", insn(0x62, 10, 0, -8, 1)
           + insn(0x79, 0, 10, -8) + insn(0x95), "uninitialised stack")
    faults("stack overflow", insn(0x7a, 10, 0, -520, 1) + EXIT0, "not inside")
    faults("above stack", insn(0x7a, 10, 0, 0, 1) + EXIT0, "not inside")
    faults("misaligned stack", insn(0x62, 10, 0, -6, 1) + EXIT0, "misaligned")
    faults("store to ctx", insn(0x62, 1, 0, 0, 1) + EXIT0, "context")
    faults("byte load from ctx", insn(0x71, 0, 1, 0) + insn(0x95), "context")
    faults("ctx beyond", insn(0x61, 0, 1, 24) + insn(0x95), "not inside")
    faults("egress_ifindex", insn(0x61, 0, 1, 20) + insn(0x95), "context")
    faults("packet overrun", insn(0x61, 2, 1, 0) + insn(0x71, 0, 2, 64)
           + insn(0x95), "not inside")
    faults("packet end", insn(0x61, 2, 1, 4) + insn(0x71, 0, 2, 0)
           + insn(0x95), "not inside")
    faults("truncated pointer", insn(0x61, 2, 1, 0) + insn(0xbc, 2, 2)
           + insn(0x71, 0, 2, 0) + insn(0x95), "not inside")
    faults("null pointer", insn(0xb7, 2, 0, 0, 0) + insn(0x71, 0, 2, 0)
           + insn(0x95), "not inside")
    faults("jump out", insn(0x05, 0, 0, 5) + EXIT0, "jump out")
    faults("jump back out", insn(0x05, 0, 0, -3) + EXIT0, "jump out")
    faults("into ld_imm64", insn(0x05, 0, 0, 1) + ld64(0, 1) + insn(0x95),
           "middle of LD_IMM64")
    faults("endless", insn(0xb7, 0, 0, 0, 0) + insn(0x05, 0, 0, -1)
           + insn(0x95), "steps")
    faults("unknown helper", insn(0x85, 0, 0, 0, 6) + EXIT0, "not modelled")
    faults("args die in call", insn(0xb7, 1, 0, 0, 0) + insn(0x85, 0, 0, 0, 7)
           + insn(0xbf, 0, 1) + insn(0x95), "uninitialised r1")
    faults("lookup without map", insn(0xb7, 1, 0, 0, 0) + insn(0xbf, 2, 10)
           + insn(0x85, 0, 0, 0, 1) + EXIT0, "not a map")
    arr = sim.create_map(2, 4, 8, 1)
    pa = sim.create_map(3, 4, 4, 2)
    faults("uninit key", ld64(1, arr, 1) + insn(0xbf, 2, 10)
           + insn(0x07, 2, 0, 0, -4) + insn(0x85, 0, 0, 0, 1) + EXIT0,
           "not fully initialised")
    faults("key outside", ld64(1, arr, 1) + insn(0xbf, 2, 10)
           + insn(0x85, 0, 0, 0, 1) + EXIT0, "readable bytes")
    faults("deref map handle", ld64(1, arr, 1) + insn(0x71, 0, 1, 0)
           + insn(0x95), "not inside")
    faults("value overrun", insn(0x62, 10, 0, -4, 0) + ld64(1, arr, 1)
           + insn(0xbf, 2, 10) + insn(0x07, 2, 0, 0, -4)
           + insn(0x85, 0, 0, 0, 1) + insn(0x15, 0, 0, 1, 0)
           + insn(0x61, 0, 0, 6) + insn(0x95), "not inside")
    lookup = (insn(0x62, 10, 0, -4, 0) + ld64(1, arr, 1) + insn(0xbf, 2, 10)
              + insn(0x07, 2, 0, 0, -4) + insn(0x85, 0, 0, 0, 1)
              + insn(0x15, 0, 0, 2, 0) + insn(0xb7, 1, 0, 0, 1))
    faults("misaligned atomic", lookup + insn(0xc3, 0, 1, 2, 0) + EXIT0,
           "misaligned atomic")
    faults("atomic on packet", insn(0x61, 2, 1, 0) + insn(0xb7, 1, 0, 0, 1)
           + insn(0xc3, 2, 1, 0, 0) + EXIT0, "atomic operation on packet")
    faults("lookup in prog array", insn(0x62, 10, 0, -4, 0) + ld64(1, pa, 1)
           + insn(0xbf, 2, 10) + insn(0x07, 2, 0, 0, -4)
           + insn(0x85, 0, 0, 0, 1) + EXIT0, "not allowed")
    faults("tail call on array", ld64(2, arr, 1) + insn(0xb7, 3, 0, 0, 0)
           + insn(0x85, 0, 0, 0, 12) + EXIT0, "not allowed")
    faults("tail call without ctx", insn(0xbf, 1, 10) + ld64(2, pa, 1)
           + insn(0xb7, 3, 0, 0, 0) + insn(0x85, 0, 0, 0, 12) + EXIT0,
           "not the context")
    faults("r0 after missed tail call", ld64(2, pa, 1) + insn(0xb7, 3, 0, 0, 0)
           + insn(0x85, 0, 0, 0, 12) + insn(0x95), "uninitialised r0")

    # a tail call chain stops after 33 jumps; stack content survives but is
    # not readable by the next program
    loop = sim.prog_load(
        insn(0x61, 6, 1, 0) + insn(0x71, 7, 6, 0) + insn(0x07, 7, 0, 0, 1)
        + insn(0x73, 6, 7, 0) + ld64(2, pa, 1) + insn(0xb7, 3, 0, 0, 1)
        + insn(0x85, 0, 0, 0, 12) + insn(0xb7, 0, 0, 0, 3) + insn(0x95))
    sim.update(pa, struct.pack("<I", 1), struct.pack("<I", loop))
    retval, out = sim.test_run(loop, bytes(64))
    inst = k.run_xdp(k.obj(loop), bytearray(64))[1]
    if (retval, out[0], len(inst.tail_calls)) != (3, 34, 33) or \
            k.stats["tail_calls_taken"] != 66 or \
            k.stats["tail_calls_missed"] < 2:
        raise Mismatch(f"tail call limit: {retval} {out[0]} "
                       f"{len(inst.tail_calls)} {k.stats}")
    checks += 1
    reader = sim.prog_load(insn(0x79, 0, 10, -8) + insn(0x95))
    sim.update(pa, struct.pack("<I", 0), struct.pack("<I", reader))
    faults("stack after tail call", insn(0x7a, 10, 0, -8, 1) + ld64(2, pa, 1)
           + insn(0xb7, 3, 0, 0, 0) + insn(0x85, 0, 0, 0, 12) + EXIT0,
           "uninitialised stack")

    # helpers that cannot be compared with the real kernel
    clock = [1000]
    k.ktime = lambda: clock[0]
    k.prandom = lambda: 0x1_2345_6789
    ktime = sim.prog_load(insn(0x85, 0, 0, 0, 5) + insn(0x77, 0, 0, 0, 1)
                          + insn(0x95))
    rnd = sim.prog_load(insn(0x85, 0, 0, 0, 7) + insn(0x95))
    cpu = sim.prog_load(insn(0x85, 0, 0, 0, 8) + insn(0x95))
    got = (sim.test_run(ktime, bytes(64))[0], sim.test_run(rnd, bytes(64))[0],
           k.run_xdp(k.obj(cpu), bytearray(64), cpu=3)[0])
    if got != (500, 0x23456789, 3):
        raise Mismatch(f"helpers: {got}")
    checks += 1

    # raw interpreter speed: a count down loop
    count = 100000
    loop = sim.prog_load(
        ld64(1, count) + insn(0xb7, 0, 0, 0, 0) + insn(0x07, 1, 0, 0, -1)
        + insn(0x0f, 0, 1) + insn(0x55, 1, 0, -3, 0) + insn(0x95))
    inst = k.new_instance(k.obj(loop), bytearray(64))
    t0 = time.perf_counter()
    retval = inst.run(max_steps=4 * count)
    speed = int(inst.steps / (time.perf_counter() - t0))
    if retval != (count * (count - 1) // 2) & 0xffffffff or \
            inst.steps != 3 * count + 3:
        raise Mismatch(f"count down loop: {retval} after {inst.steps} steps")
    checks += 1

    # per-CPU values: each CPU sees its own copy
    pc = sim.create_map(6, 4, 4, 1)
    bump = sim.prog_load(
        insn(0x62, 10, 0, -4, 0) + ld64(1, pc, 1) + insn(0xbf, 2, 10)
        + insn(0x07, 2, 0, 0, -4) + insn(0x85, 0, 0, 0, 1)
        + insn(0x15, 0, 0, 2, 0) + insn(0xb7, 1, 0, 0, 1)
        + insn(0xc3, 0, 1, 0, 0) + insn(0xb7, 0, 0, 0, 2) + insn(0x95))
    for cpu_no in (0, 2, 2, 3):
        k.run_xdp(k.obj(bump), bytearray(64), cpu=cpu_no)
    raw = sim.lookup(pc, bytes(4), 8 * k.possible_cpus)
    counts = [raw[8 * i] for i in range(4)]
    if counts != [1, 0, 2, 1]:
        raise Mismatch(f"per-CPU array: {counts}")
    checks += 1

    # a deleted hash element stays readable for the program that holds it
    h = sim.create_map(1, 4, 8, 4)
    sim.update(h, bytes(4), struct.pack("<Q", 77))
    holder = sim.prog_load(
        insn(0x62, 10, 0, -4, 0) + ld64(1, h, 1) + insn(0xbf, 2, 10)
        + insn(0x07, 2, 0, 0, -4) + insn(0x85, 0, 0, 0, 1)
        + insn(0x15, 0, 0, 7, 0) + insn(0xbf, 6, 0) + ld64(1, h, 1)
        + insn(0xbf, 2, 10) + insn(0x07, 2, 0, 0, -4) + insn(0x85, 0, 0, 0, 3)
        + insn(0x79, 0, 6, 0) + insn(0x95))
    if sim.test_run(holder, bytes(64))[0] != 77:
        raise Mismatch("read through a pointer to a deleted hash element")
    try:
        sim.lookup(h, bytes(4), 8)
        raise Mismatch("hash element was not deleted")
    except OSError:
        pass
    checks += 1

    # mmap and program see the same memory
    m = sim.create_map(2, 4, 16, 1, 1 << 10)
    view = k.mmap(m, 16)
    view[0:4] = struct.pack("<I", 41)
    inc = sim.prog_load(
        insn(0x62, 10, 0, -4, 0) + ld64(1, m, 1) + insn(0xbf, 2, 10)
        + insn(0x07, 2, 0, 0, -4) + insn(0x85, 0, 0, 0, 1)
        + insn(0x15, 0, 0, 2, 0) + insn(0xb7, 1, 0, 0, 1)
        + insn(0xc3, 0, 1, 0, 0) + insn(0xb7, 0, 0, 0, 2) + insn(0x95))
    sim.test_run(inc, bytes(64))
    if struct.unpack_from("<I", view)[0] != 42 or \
            sim.lookup(m, bytes(4), 16)[:4] != struct.pack("<I", 42):
        raise Mismatch("mmap does not see the program's atomic add")
    checks += 1

    # fd life time: pins, process death, prog array emptied without owner
    k.current_pid = 7
    table = sim.create_map(3, 4, 4, 2)
    target = sim.prog_load(EXIT0)
    sim.update(table, bytes(4), struct.pack("<I", target))
    with library_on(sim):
        ebpfcat.bpf.obj_pin("/sys/fs/bpf/x/programs", table)
        try:
            ebpfcat.bpf.obj_pin("/sys/fs/bpf/x/programs", table)
            raise Mismatch("double pin")
        except OSError as e:
            assert e.errno == 17
    k.current_pid = 0
    k.close_all(7)
    if any(entry.owner == 7 for entry in k.fds.values()):
        raise Mismatch("close_all left descriptors behind")
    with library_on(sim):
        again = ebpfcat.bpf.obj_get("/sys/fs/bpf/x/programs")
    if k.obj(again).slots[0] is None:
        raise Mismatch("a pinned prog array lost its programs")
    table_obj = k.obj(again)
    k.unpin("/sys/fs/bpf/x/programs")
    os.close(again)             # behind the simulator's back
    os.close(k.bpf(0, "IIIII", 2, 4, 4, 1, 0)[0])   # any call notices it
    if table_obj.slots[0] is not None or table_obj.urefs != 0:
        raise Mismatch("prog array without user reference was not emptied")
    checks += 1
    return {"sim_only_checks": checks, "sim_loop_insns_per_s": speed}


# --------------------------------------------------------------------------

def main():
    parser = argparse.ArgumentParser()
    parser.add_argument("--n", type=int, default=3000)
    parser.add_argument("--seed", type=int, default=1)
    parser.add_argument("--verbose", action="store_true")
    args = parser.parse_args()

    try:
        os.close(REAL.prog_load(EXIT0))
    except OSError as e:
        if e.errno in (1, 38):   # EPERM, ENOSYS
            print("SKIP: bpf() not permitted")
            return 0
        raise

    start = time.perf_counter()
    summary = {"seed": args.seed}
    try:
        summary.update(random_programs(args.n, args.seed, args.verbose))
        summary.update(generator_programs())
        summary.update(invalid_encodings())
        summary.update(sim_only())
    except Mismatch as e:
        print(f"MISMATCH: {e}")
        return 1
    summary["programs_compared"] = \
        summary["random_compared"] + summary["scenarios"]
    summary["skipped"] = summary["random_skipped"]
    summary["mismatches"] = 0
    summary["seconds"] = round(time.perf_counter() - start, 1)
    print(json.dumps(summary))
    return 0


if __name__ == "__main__":
    sys.exit(main())
