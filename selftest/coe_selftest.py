"""Selftest of sim/coe.py: hand-written golden SDO transfers (ETG.1000.6)

Requests are built by hand with struct, expectations are written down from
the protocol description, not taken from the server.  Exit 0 with a one-line
JSON summary, exit 1 on the first failure.

    python coe_selftest.py                  the selftest
    python coe_selftest.py --client-report  drive ebpfcat's SDO client
                                            against the server (information)
"""
import json
import os
import sys
from struct import pack, unpack_from

sys.path.insert(0, os.path.dirname(os.path.dirname(os.path.abspath(__file__))))
from sim.coe import CoEServer, ObjectDictionary, Deviation  # noqa: E402

SIZES = (24, 32, 48, 128)
CHECKS = 0


def check(cond, what, *info):
    global CHECKS
    CHECKS += 1
    if not cond:
        print("FAIL:", what, *[i.hex() if isinstance(i, bytes) else repr(i)
                               for i in info])
        sys.exit(1)


def eq(got, want, what):
    check(got == want, what, "got", got, "want", want)


def mbx(counter, payload, mtype=3, size=None, station=0, chprio=0):
    """a mailbox message; padded with stale garbage to `size` if given"""
    msg = pack("<HHBB", len(payload), station, chprio,
               mtype | counter << 4) + payload
    return msg if size is None else msg.ljust(size, b"\xee")


def sdo(cmd, index=0, sub=0, rest=b"\0\0\0\0", service=2):
    return pack("<HBHB", service << 12, cmd, index, sub) + rest


def seg(cmd, data=b"", service=2):
    return pack("<HB", service << 12, cmd) + data.ljust(7, b"\0")


def pattern(n, seed=1):
    """deterministic non-trivial bytes"""
    return bytes((seed * 37 + i * 11 + (i >> 8) * 3) & 0xff for i in range(n))


class LCG:
    def __init__(self, seed):
        self.state = seed

    def below(self, n):
        self.state = (self.state * 6364136223846793005 + 1442695040888963407) \
            % (1 << 64)
        return (self.state >> 33) % n

    def bytes(self, n):
        return bytes(self.below(256) for _ in range(n))


class Harness:
    """feeds hand-built requests with a correct counter, checks answers"""
    def __init__(self, n_out, n_in=None, station=0x3e9, **kw):
        self.od = ObjectDictionary()
        self.n_out, self.n_in = n_out, n_in or n_out
        self.station = station
        self.server = CoEServer(self.od, self.n_out, self.n_in,
                                station=station, **kw)
        self.tx = 0   # our counter
        self.rx = 0   # the server's counter

    def send(self, payload, **kw):
        self.tx = self.tx % 7 + 1
        return self.server.receive(mbx(self.tx, payload, size=self.n_out, **kw))

    def expect(self, payload, *answers, what="", **kw):
        """send `payload`, expect exactly the given answers: bytes are CoE
        payloads, an int is a mailbox error reply with this detail"""
        got = self.send(payload, **kw)
        want = []
        for a in answers:
            self.rx = self.rx % 7 + 1
            t = 0 if isinstance(a, int) else 3
            if isinstance(a, int):   # mailbox error reply with this detail
                a = pack("<HH", 1, a)
            want.append(mbx(self.rx, a, mtype=t, station=self.station))
        eq(len(got), len(want), what + ": number of answers")
        for g, w in zip(got, want):
            eq(g, w, what)
            check(len(g) <= self.n_in, what + ": fits the mailbox")
        return got

    def rules(self):
        return [d.rule for d in self.server.deviations]

    def clean(self, what):
        eq(self.server.deviations, [], what + ": no deviations")


def abort(index, sub, code):
    return sdo(0x80, index, sub, pack("<I", code))


# ---------------------------------------------------------------------------
def test_expedited():
    h = Harness(32)
    for n in (1, 2, 3, 4):
        value = pattern(n, n)
        h.od.set(0x6000, n, value)
        # upload request: 0x40, answer: ccs 2 | e | s | n = 4 - len
        head = {1: 0x4f, 2: 0x4b, 3: 0x47, 4: 0x43}[n]
        h.expect(sdo(0x40, 0x6000, n),
                 sdo(head, 0x6000, n, value.ljust(4, b"\0"), service=3),
                 what=f"expedited upload {n}")
        eq(h.server.uploads[-1], (0x6000, n, False, value), "uploads record")
        # download: ccs 1 | e | s | n
        new = pattern(n, n + 10)
        head = {1: 0x2f, 2: 0x2b, 3: 0x27, 4: 0x23}[n]
        h.expect(sdo(head, 0x6000, n, new.ljust(4, b"\xaa")),
                 sdo(0x60, 0x6000, n, service=3),
                 what=f"expedited download {n}")
        eq(h.server.downloads[-1], (0x6000, n, False, new), "downloads record")
        eq(h.od.get(0x6000, n), new, "OD updated")
    h.clean("expedited")
    # one fully literal golden, every byte written down
    h = Harness(24, station=0x1234)
    h.od.set(0x1018, 1, bytes.fromhex("02000000"), readonly=True)
    got = h.server.receive(bytes.fromhex(
        "0a00 0000 00 13  0020  40 1810 01 00000000".replace(" ", ""))
        + b"\xee" * 8)
    eq(got, [bytes.fromhex(
        "0a00 3412 00 13  0030  43 1810 01 02000000".replace(" ", ""))],
        "literal expedited upload")
    # no size indicator: 4 bytes accepted, deviation recorded
    h.od.set(0x7000, 1, b"")
    h.tx = h.rx = 1   # the literal exchange above used counter 1 both ways
    h.expect(sdo(0x22, 0x7000, 1, b"wxyz"), sdo(0x60, 0x7000, 1, service=3),
             what="expedited without size indicator")
    eq(h.od.get(0x7000, 1), b"wxyz", "4 bytes taken")
    eq(h.rules(), ["sdo-expedited-no-size-indicator"], "deviation")
    h.send(sdo(0x2a, 0x7000, 1, b"wxyz"))
    eq(h.rules()[1:], ["sdo-expedited-no-size-indicator",
                       "sdo-expedited-size-bits"], "n without s")
    # read-only / missing
    h = Harness(24)
    h.od.set(0x1018, 1, b"\1\0\0\0", readonly=True)
    h.expect(sdo(0x23, 0x1018, 1, b"abcd"), abort(0x1018, 1, 0x06010002),
             what="write read-only")
    h.expect(sdo(0x40, 0x1019, 1), abort(0x1019, 1, 0x06020000),
             what="no object")
    h.expect(sdo(0x40, 0x1018, 2), abort(0x1018, 2, 0x06090011),
             what="no subindex")
    h.expect(sdo(0x23, 0x1018, 2, b"abcd"), abort(0x1018, 2, 0x06090011),
             what="download no subindex")
    eq(h.server.downloads, [], "nothing downloaded")
    eq(h.od.get(0x1018, 1), b"\1\0\0\0", "read-only untouched")
    h.clean("OD errors are not protocol deviations")


def expected_upload(value, n, index, sub, ca=0):
    """[(request, answer)] of an upload, straight from the protocol text"""
    if 1 <= len(value) <= 4:
        return [(sdo(0x40 | ca, index, sub),
                 sdo(0x43 | (4 - len(value)) << 2 | ca, index, sub,
                     value.ljust(4, b"\0"), service=3))]
    first = n - 16
    out = [(sdo(0x40 | ca, index, sub),
            sdo(0x41 | ca, index, sub,
                pack("<I", len(value)) + value[:first], service=3))]
    pos, toggle = first, 0
    while pos < len(value):
        chunk = value[pos:pos + n - 9]
        pos += len(chunk)
        cmd = toggle | (pos == len(value))
        if len(chunk) < 7:
            cmd |= (7 - len(chunk)) << 1
        out.append((seg(0x60 | toggle), seg(cmd, chunk, service=3)))
        toggle ^= 0x10
    return out


def upload_lengths(n):
    first, segm = n - 16, n - 9
    out = {0, 5, first - 1, first, first + 1}
    for k in (0, 1, 2, 3):
        base = first + k * segm
        out |= {base + d for d in (-1, 0, 1, 6, 7, 8) if base + d >= 0}
    return sorted(out)


def test_upload():
    for n in SIZES:
        for length in upload_lengths(n):
            h = Harness(n)
            value = pattern(length, n)
            h.od.set(0x8000, 3, value)
            steps = expected_upload(value, n, 0x8000, 3)
            if length in (0, 5, n - 16):
                eq(len(steps), 1, "single message")
            if length == n - 15:
                eq(len(steps), 2, "one byte too many: one segment")
                eq(steps[1][1][2], 0x0d, "last, 6 unused, toggle 0")
            for i, (req, ans) in enumerate(steps):
                check(not h.server.uploads, "not complete yet")
                h.expect(req, ans, what=f"upload {length}@{n} step {i}")
            eq(h.server.uploads, [(0x8000, 3, False, value)], "uploads")
            h.clean(f"upload {length}@{n}")
            # the log lets an oracle check toggles and sizes
            tx = [r for r in h.server.log if r["direction"] == "tx"]
            eq([r["toggle"] for r in tx[1:]],
               [i & 1 for i in range(len(tx) - 1)], "log toggles")
            eq(sum(r["data_len"] for r in tx), length, "log data lengths")
            check(all(r["fits"] for r in h.server.log), "log fits")
            eq([r["counter"] for r in tx],
               [i % 7 + 1 for i in range(len(tx))], "log tx counters")
    # literal golden: 10 bytes through a 24 byte mailbox: 8 + 2
    h = Harness(24, station=0)
    h.od.set(0x8000, 3, b"0123456789")
    h.expect(sdo(0x40, 0x8000, 3),
             bytes.fromhex("0030 41 0080 03 0a000000".replace(" ", ""))
             + b"01234567", what="literal normal upload")
    h.expect(seg(0x60),
             bytes.fromhex("0030 0b".replace(" ", "")) + b"89\0\0\0\0\0",
             what="literal upload segment")
    # a zero-length value: normal response with complete size 0
    h.od.set(0x8000, 4, b"")
    h.expect(sdo(0x40, 0x8000, 4),
             bytes.fromhex("0030 41 0080 04 00000000".replace(" ", "")),
             what="literal empty upload")


def test_upload_errors():
    h = Harness(24)
    h.od.set(0x8000, 1, pattern(40))
    h.expect(sdo(0x40, 0x8000, 1),
             sdo(0x41, 0x8000, 1, pack("<I", 40) + pattern(40)[:8], service=3))
    h.expect(seg(0x60), seg(0x00, pattern(40)[8:23], service=3))
    # toggle must now be 1
    h.expect(seg(0x60), abort(0x8000, 1, 0x05030000), what="wrong toggle up")
    eq(h.rules(), ["sdo-segment-toggle"], "toggle deviation")
    # the transfer is gone
    h.expect(seg(0x70), abort(0, 0, 0x05040001), what="segment after abort")
    eq(h.rules()[1:], ["sdo-upload-segment-without-transfer"], "no transfer")
    eq(h.server.uploads, [], "never completed")
    # first segment request with toggle 1
    h = Harness(24)
    h.od.set(0x8000, 1, pattern(40))
    h.send(sdo(0x40, 0x8000, 1))
    h.rx = 1
    h.expect(seg(0x70), abort(0x8000, 1, 0x05030000), what="first toggle 1")
    # a new initiate during a transfer is legal and starts afresh
    h = Harness(24)
    h.od.set(0x8000, 1, pattern(40))
    h.od.set(0x8000, 2, b"ab")
    h.send(sdo(0x40, 0x8000, 1))
    h.rx = 1
    h.expect(sdo(0x40, 0x8000, 2), sdo(0x4b, 0x8000, 2, b"ab\0\0", service=3))
    h.clean("initiate during transfer")
    h.expect(seg(0x60), abort(0, 0, 0x05040001), what="old transfer is gone")
    # reserved bits / length of the requests
    h = Harness(24)
    h.od.set(0x8000, 2, b"ab")
    h.expect(sdo(0x43, 0x8000, 2), sdo(0x4b, 0x8000, 2, b"ab\0\0", service=3))
    h.expect(sdo(0x40, 0x8000, 2, b"\0" * 6),
             sdo(0x4b, 0x8000, 2, b"ab\0\0", service=3))
    eq(h.rules(), ["sdo-upload-request-reserved-bits", "sdo-request-length"],
       "upload request form")
    # a client abort ends the transfer without an answer
    h = Harness(24)
    h.od.set(0x8000, 1, pattern(40))
    h.send(sdo(0x40, 0x8000, 1))
    h.rx = 1
    h.expect(abort(0x8000, 1, 0x08000000), what="client abort")
    h.clean("client abort")
    h.expect(seg(0x60), abort(0, 0, 0x05040001), what="after client abort")


def expected_download(value, n, index, sub, ca=0):
    """[(request, answer)] of a normal download from the protocol text"""
    first = n - 16
    out = [(sdo(0x21 | ca, index, sub, pack("<I", len(value)) + value[:first]),
            sdo(0x60, index, sub, service=3))]
    pos, toggle = first, 0
    while pos < len(value):
        chunk = value[pos:pos + n - 9]
        pos += len(chunk)
        cmd = toggle | (pos == len(value))
        if len(chunk) < 7:
            cmd |= (7 - len(chunk)) << 1
        out.append((seg(cmd, chunk), seg(0x20 | toggle, service=3)))
        toggle ^= 0x10
    return out


def test_download():
    for n in SIZES:
        for length in upload_lengths(n):
            h = Harness(n)
            value = pattern(length, n + 1)
            h.od.set(0x8010, 2, b"old")
            for i, (req, ans) in enumerate(
                    expected_download(value, n, 0x8010, 2)):
                eq(h.server.downloads, [], "not complete yet")
                eq(h.od.get(0x8010, 2), b"old", "not applied yet")
                h.expect(req, ans, what=f"download {length}@{n} step {i}")
            eq(h.server.downloads, [(0x8010, 2, False, value)], "downloads")
            eq(h.od.get(0x8010, 2), value, "applied")
            h.clean(f"download {length}@{n}")
            rx = [r for r in h.server.log if r["direction"] == "rx"]
            eq([r["toggle"] for r in rx[1:]],
               [i & 1 for i in range(len(rx) - 1)], "log toggles")
            eq(sum(r["data_len"] for r in rx), length, "log data lengths")
            eq(rx[0]["size"], length, "log complete size")
    # literal goldens at mailbox 24: 8 + 15 + 3 (short last segment) ...
    h = Harness(24, station=0)
    h.od.set(0x8010, 2, b"")
    v = pattern(26)
    h.expect(bytes.fromhex("0020 21 1080 02 1a000000".replace(" ", "")) + v[:8],
             bytes.fromhex("0030 60 1080 02 00000000".replace(" ", "")))
    h.expect(bytes.fromhex("002000") + v[8:23],
             bytes.fromhex("0030 20 00000000000000".replace(" ", "")))
    # last: bit 0, 4 unused: 4 << 1, toggle: 0x10
    h.expect(bytes.fromhex("002019") + v[23:] + b"\xaa" * 4,
             bytes.fromhex("0030 30 00000000000000".replace(" ", "")))
    eq(h.server.downloads, [(0x8010, 2, False, v)], "literal short last")
    # ... and 8 + 15 + 10 (long last segment: length from the header)
    v = pattern(33)
    h.expect(bytes.fromhex("0020 21 1080 02 21000000".replace(" ", "")) + v[:8],
             bytes.fromhex("0030 60 1080 02 00000000".replace(" ", "")))
    h.expect(bytes.fromhex("002000") + v[8:23], seg(0x20, service=3))
    h.expect(bytes.fromhex("002011") + v[23:], seg(0x30, service=3))
    eq(h.server.downloads[-1], (0x8010, 2, False, v), "literal long last")
    eq(h.server.log[-2]["data_len"], 10, "log: long segment length")
    h.clean("literal downloads")
    # segments need not be full, an empty last segment is legal
    h.expect(sdo(0x21, 0x8010, 2, pack("<I", 9) + b"ab"),
             sdo(0x60, 0x8010, 2, service=3))
    h.expect(seg(0x08, b"cde"), seg(0x20, service=3))
    h.expect(seg(0x16, b"fghi"), seg(0x30, service=3))
    h.expect(seg(0x0f), seg(0x20, service=3))
    eq(h.server.downloads[-1][3], b"abcdefghi", "odd segments")
    h.clean("odd but legal segments")


def test_download_errors():
    def fresh():
        h = Harness(24)
        h.od.set(0x8010, 2, b"old")
        return h
    # complete size 0 although data follows (what a sloppy client sends)
    h = fresh()
    h.expect(sdo(0x21, 0x8010, 2, pack("<I", 0) + b"hello"),
             abort(0x8010, 2, 0x06070010), what="size field 0")
    eq(h.rules(), ["sdo-download-normal-size-field"], "size field 0")
    # more data than announced
    h.expect(sdo(0x21, 0x8010, 2, pack("<I", 3) + b"hello"),
             abort(0x8010, 2, 0x06070010), what="data exceeds size")
    eq(h.rules()[1:], ["sdo-download-data-exceeds-size"], "exceeds")
    eq(h.server.downloads, [], "nothing completed")
    eq(h.od.get(0x8010, 2), b"old", "nothing applied")
    # segments beyond the complete size
    h = fresh()
    h.expect(sdo(0x21, 0x8010, 2, pack("<I", 12) + b"01234567"),
             sdo(0x60, 0x8010, 2, service=3))
    h.expect(seg(0x01, b"89abcde"), abort(0x8010, 2, 0x06070012),
             what="segment too long")
    eq(h.rules(), ["sdo-download-data-exceeds-size"], "too long")
    # last segment too early
    h = fresh()
    h.send(sdo(0x21, 0x8010, 2, pack("<I", 20) + b"01234567"))
    h.rx = 1
    h.expect(seg(0x01, b"89abcde"), abort(0x8010, 2, 0x06070013),
             what="too short")
    eq(h.rules(), ["sdo-download-data-short"], "too short")
    # wrong toggle: first must be 0, second 1
    h = fresh()
    h.send(sdo(0x21, 0x8010, 2, pack("<I", 30) + b"01234567"))
    h.rx = 1
    h.expect(seg(0x10, b"89abcde"), abort(0x8010, 2, 0x05030000),
             what="first toggle 1")
    h = fresh()
    h.send(sdo(0x21, 0x8010, 2, pack("<I", 30) + b"01234567"))
    h.rx = 1
    h.expect(seg(0x00, b"89abcde"), seg(0x20, service=3))
    h.expect(seg(0x00, b"fghijkl"), abort(0x8010, 2, 0x05030000),
             what="toggle not alternated")
    eq(h.rules(), ["sdo-segment-toggle"], "toggle")
    h.expect(seg(0x10, b"fghijkl"), abort(0, 0, 0x05040001),
             what="transfer is over")
    eq(h.rules()[1:], ["sdo-segment-without-transfer"], "no transfer")
    eq(h.server.downloads, [], "nothing completed")
    # size bits in a long segment, size bits / indicator in a normal initiate
    h = fresh()
    h.send(sdo(0x21, 0x8010, 2, pack("<I", 16) + b"01234567"))
    h.rx = 1
    h.expect(seg(0x03, b"89abcdef"), seg(0x20, service=3))
    eq(h.rules(), ["sdo-segment-size-bits"], "size bits in long segment")
    eq(h.server.downloads[-1][3], b"0123456789abcdef", "taken by length")
    h = fresh()
    h.expect(sdo(0x2c, 0x8010, 2, pack("<I", 5) + b"hello"),
             sdo(0x60, 0x8010, 2, service=3))
    eq(h.rules(), ["sdo-normal-size-bits",
                   "sdo-download-normal-no-size-indicator"], "normal form")
    # unknown command, truncated SDO
    h = fresh()
    h.expect(sdo(0xa0, 0x8010, 2), abort(0x8010, 2, 0x05040001))
    h.expect(pack("<HBH", 0x2000, 0x40, 0x8010), 6, what="truncated")
    eq(h.rules(), ["sdo-unknown-command", "sdo-header-truncated"], "rules")
    # fixed-size entries
    h = fresh()
    h.od.set(0x8010, 3, b"\0\0", fixed=True)
    h.expect(sdo(0x27, 0x8010, 3, b"abc\0"), abort(0x8010, 3, 0x06070012))
    h.expect(sdo(0x2f, 0x8010, 3, b"a\0\0\0"), abort(0x8010, 3, 0x06070013))
    h.expect(sdo(0x2b, 0x8010, 3, b"ab\0\0"), sdo(0x60, 0x8010, 3, service=3))
    h.clean("length errors of the value are not protocol deviations")


def test_complete_access():
    h = Harness(32)
    h.od.set(0x1c12, 0, b"\x03", readonly=True)
    h.od.set(0x1c12, 1, b"\x00\x16")
    h.od.set(0x1c12, 2, b"\x01\x16")
    h.od.set(0x1c12, 3, b"\x02\x16\x03\x16")
    eq(h.od.complete(0x1c12, 0), bytes.fromhex("0300001601160216 0316"),
       "sub 0 occupies 16 bits")
    eq(h.od.complete(0x1c12, 1), bytes.fromhex("001601160216 0316"), "from 1")
    # upload CA from 0: 10 bytes, normal; from 1: 8 bytes
    h.expect(sdo(0x50, 0x1c12, 0),
             sdo(0x51, 0x1c12, 0, pack("<I", 10)
                 + bytes.fromhex("03000016011602160316"), service=3))
    h.expect(sdo(0x50, 0x1c12, 1),
             sdo(0x51, 0x1c12, 1, pack("<I", 8)
                 + bytes.fromhex("0016011602160316"), service=3))
    eq(h.server.uploads[-1],
       (0x1c12, 1, True, bytes.fromhex("0016011602160316")), "CA uploads")
    # small CA value goes expedited with the CA bit kept
    h.od.set(0x1c13, 0, b"\x01")
    h.od.set(0x1c13, 1, b"\x00\x1a")
    h.expect(sdo(0x50, 0x1c13, 1), sdo(0x5b, 0x1c13, 1, b"\x00\x1a\0\0",
                                       service=3))
    h.expect(sdo(0x50, 0x1c13, 0), sdo(0x53, 0x1c13, 0, b"\x01\0\x00\x1a",
                                       service=3))
    # CA download from 1, the last entry is variable: takes the rest
    h.expect(sdo(0x31, 0x1c12, 1, pack("<I", 10) + b"AABBCCDDEE"),
             sdo(0x60, 0x1c12, 1, service=3))
    eq([h.od.get(0x1c12, i) for i in range(4)],
       [b"\x03", b"AA", b"BB", b"CCDDEE"], "CA download split")
    eq(h.server.downloads[-1], (0x1c12, 1, True, b"AABBCCDDEE"), "record")
    # CA download from 0: sub 0 is read-only, so skipped; padding dropped
    h.expect(sdo(0x31, 0x1c12, 0, pack("<I", 8) + b"\x07\xffaabbcc"),
             sdo(0x60, 0x1c12, 0, service=3))
    eq([h.od.get(0x1c12, i) for i in range(4)],
       [b"\x03", b"aa", b"bb", b"cc"], "CA download from 0")
    # segmented CA both ways
    big = pattern(70)
    h.od.set(0x9000, 0, b"\x01")
    h.od.set(0x9000, 1, b"")
    for req, ans in expected_download(big, 32, 0x9000, 1, ca=0x10):
        h.expect(req, ans, what="segmented CA download")
    eq(h.od.get(0x9000, 1), big, "segmented CA applied")
    for req, ans in expected_upload(b"\x01\0" + big, 32, 0x9000, 0, ca=0x10):
        h.expect(req, ans, what="segmented CA upload")
    h.clean("complete access")
    # too short for the fixed part / CA only from 0 or 1 / no sub 1
    h.expect(sdo(0x3f, 0x1c12, 1, b"A\0\0\0"), abort(0x1c12, 1, 0x06070013))
    h.clean("short CA value")
    h.expect(sdo(0x50, 0x1c12, 2), abort(0x1c12, 2, 0x06090011))
    h.expect(sdo(0x31, 0x1c12, 3, pack("<I", 2) + b"zz"),
             abort(0x1c12, 3, 0x06090011))
    eq(h.rules(), ["sdo-ca-subindex"] * 2, "CA subindex")
    h.od.set(0x9001, 0, b"\x00")
    h.expect(sdo(0x50, 0x9001, 1), abort(0x9001, 1, 0x06090011),
             what="CA from 1 without subindex 1")
    eq(len(h.rules()), 2, "that is no deviation")


def test_mailbox():
    # counter: 0 only as the very first, then successors in 1..7
    h = Harness(24)
    h.od.set(0x8000, 1, b"ab")
    req = sdo(0x40, 0x8000, 1)
    ans = sdo(0x4b, 0x8000, 1, b"ab\0\0", service=3)
    s = h.server
    for c in (0, 1, 2, 3, 4, 5, 6, 7, 1, 2):
        eq(len(s.receive(mbx(c, req, size=24))), 1, "counter sequence")
    h.clean("0,1..7,1,2")
    first = s.receive(mbx(3, req, size=24))
    # repeat: dropped, the previous answer again, byte for byte
    n = len(s.uploads)
    eq(s.receive(mbx(3, req, size=24)), first, "repeat: same answer")
    eq(len(s.uploads), n, "repeat: not processed")
    eq(h.rules(), ["counter-repeat"], "repeat")
    eq(s.log[-1]["resend"], True, "resend logged")
    # skip: processed, with a fresh server counter
    got = s.receive(mbx(5, req, size=24))
    eq(h.rules()[1:], ["counter-sequence"], "skip")
    eq(got[0][6:], ans, "skip: still processed")
    eq(got[0][5] >> 4, (first[0][5] >> 4) % 7 + 1, "server counter goes on")
    s.receive(mbx(0, req, size=24))
    eq(h.rules()[2:], ["counter-zero"], "zero later")
    s.receive(mbx(6, req, size=24))
    eq(len(h.rules()), 3, "sequence continues after the zero")
    eq([d.message_no for d in s.deviations], [11, 12, 13], "message numbers")
    check(isinstance(s.deviations[0], Deviation), "Deviation type")
    # no counter check on request
    h = Harness(24, check_counter=False)
    h.od.set(0x8000, 1, b"ab")
    for c in (3, 3, 0, 7):
        eq(len(h.server.receive(mbx(c, req, size=24))), 1, "unchecked")
    h.clean("check_counter=False")
    # length field beyond the mailbox: mailbox error "invalid size"
    h = Harness(24)
    h.od.set(0x8000, 1, b"")
    big = sdo(0x21, 0x8000, 1, pack("<I", 9) + b"123456789")   # 19 > 18
    got = h.server.receive(mbx(1, big)[:24])
    eq(got, [mbx(1, pack("<HH", 1, 8), mtype=0, station=0x3e9)], "oversize")
    eq(h.rules(), ["mailbox-length-exceeds-mailbox"], "oversize")
    eq(h.server.log[0]["fits"], False, "log: does not fit")
    h.tx = h.rx = 1
    h.expect(sdo(0x21, 0x8000, 1, pack("<I", 8) + b"12345678"),
             sdo(0x60, 0x8000, 1, service=3), what="exactly fits")
    # other mailbox protocols, channel, header, CoE services
    h.expect(b"\0" * 8, 4, what="CoE service 0")
    h.expect(b"\0" * 8, 2, what="EoE to a CoE-only slave", mtype=2)
    h.expect(sdo(0x40, 0x8000, 1), 3, what="channel", chprio=5)
    h.expect(sdo(0x40, 0x8000, 1),
             sdo(0x41, 0x8000, 1, pack("<I", 8) + b"12345678", service=3),
             what="priority is fine", chprio=0xc0)
    eq(h.server.receive(b"\1\0\0"),
       [mbx(7, pack("<HH", 1, 5), mtype=0, station=0x3e9)], "no header")
    h.rx = 7   # (a headerless message has no counter: h.tx stays)
    h.expect(b"\x00", 6, what="no CoE header")
    h.expect(pack("<H", 0x3000) + b"\0" * 8, 4, what="SDO response to slave")
    h.expect(pack("<H", 0x9000) + b"\0" * 8, 4, what="undefined service")
    h.expect(pack("<H", 0x2001) + sdo(0x40, 0x8000, 1)[2:],
             sdo(0x41, 0x8000, 1, pack("<I", 8) + b"12345678", service=3),
             what="number field")
    h.expect(pack("<HH", 1, 2), what="an error reply is not answered", mtype=0)
    eq(h.rules()[1:], [
        "coe-unknown-service", "mailbox-unsupported-protocol",
        "mailbox-channel", "mailbox-header-truncated", "coe-header-truncated",
        "coe-unsupported-service", "coe-unknown-service", "coe-number-field",
        "mailbox-unsupported-protocol"], "mailbox rules")
    # unrelated well-formed mail for interleaving
    h = Harness(24, station=7)
    eq(h.server.make_emergency(0x8130, b"\1\2\3\4\5", register=0x10),
       bytes.fromhex("0a00 0700 00 13 0010 3081 10 0102030405".replace(" ", "")),
       "emergency")
    e = h.server.make_eoe_fragment(10)
    eq(e[:10], bytes.fromhex("0e00 0700 00 22 0001 4000".replace(" ", "")),
       "EoE fragment")
    eq(len(e), 20, "EoE length")
    eq([r["counter"] for r in h.server.log], [1, 2], "they use the counter")


def info(opcode, data=b"", left=0):
    return pack("<HBxH", 0x8000, opcode, left) + data


def test_sdo_info():
    h = Harness(24)
    idx = [0x1000 + 3 * i for i in range(13)]
    for i in reversed(idx):   # insertion order must not matter
        h.od.set(i, 0, b"\0\0\0\0", datatype=0x0007, name=f"obj{i:x}")
    h.od.set(0x1c12, 0, b"\x02", readonly=True, datatype=0x0005, name="count")
    h.od.set(0x1c12, 1, b"\x00\x16", datatype=0x0006,
             name="a rather long name of an entry")
    h.od.set(0x1c12, 2, b"\x01\x16", datatype=0x0006, name="two")
    h.od.describe(0x1c12, name="RxPDO assign", datatype=0x0006, object_code=8)
    idx.append(0x1c12)
    # list type 0: the lengths of the five lists
    h.expect(info(1, pack("<H", 0)), info(2, pack("<6H", 0, 14, 0, 0, 0, 0)),
             what="OD list lengths")
    # list type 1: 2 + 28 bytes through 12 byte fragments: 12, 12, 6
    data = pack("<15H", 1, *idx)
    h.expect(info(1, pack("<H", 1)), info(0x82, data[:12], 2),
             info(0x82, data[12:24], 1), info(2, data[24:], 0),
             what="fragmented OD list")
    eq([(r["incomplete"], r["fragments_left"]) for r in h.server.log[-3:]],
       [(True, 2), (True, 1), (False, 0)], "fragments in the log")
    h.expect(info(1, pack("<H", 3)), info(2, pack("<H", 3)), what="empty list")
    # object description: index, datatype, max subindex, object code, name
    h.expect(info(3, pack("<H", 0x1c12)),
             info(0x84, pack("<HHBB", 0x1c12, 6, 2, 8) + b"RxPDO ", 1),
             info(4, b"assign"), what="object description")
    h.expect(info(3, pack("<H", 0x1003)),
             info(0x84, pack("<HHBB", 0x1003, 7, 0, 7) + b"obj100", 1),
             info(4, b"3"), what="VAR object description")
    # entry description: index, sub, valueinfo, datatype, bits, access, name
    h.expect(info(5, pack("<HBB", 0x1c12, 2, 0)),
             info(0x86, pack("<HBBHHH", 0x1c12, 2, 0, 6, 16, 0x3f) + b"tw", 1),
             info(6, b"o"), what="entry description")
    h.expect(info(5, pack("<HBB", 0x1c12, 0, 0x7f)),
             info(0x86, pack("<HBBHHH", 0x1c12, 0, 7, 5, 8, 7) + b"co", 1),
             info(6, b"unt"), what="entry description, value info")
    h.clean("SDO info")
    # errors
    h.expect(info(3, pack("<H", 0x1c13)), info(7, pack("<I", 0x06020000)))
    h.expect(info(5, pack("<HBB", 0x1c12, 3, 0)),
             info(7, pack("<I", 0x06090011)))
    h.clean("SDO info errors of the OD")
    h.expect(info(9, b"\0\0"), info(7, pack("<I", 0x05040001)))
    h.expect(info(2, b"\0\0"), info(7, pack("<I", 0x05040001)))
    h.expect(info(1, pack("<H", 6)), info(7, pack("<I", 0x08000000)))
    h.expect(info(5, pack("<H", 0x1c12)), 6, what="truncated entry request")
    h.expect(pack("<HB", 0x8000, 1), 6, what="truncated info header")
    h.expect(info(0x83, pack("<H", 0x1003), 1)[:10],
             info(0x84, pack("<HHBB", 0x1003, 7, 0, 7) + b"obj100", 1),
             info(4, b"3"), what="fragmented request")
    h.expect(info(3, pack("<HH", 0x1003, 0)),
             info(0x84, pack("<HHBB", 0x1003, 7, 0, 7) + b"obj100", 1),
             info(4, b"3"), what="too long request")
    eq(h.rules(), ["sdoinfo-unknown-opcode", "sdoinfo-unknown-opcode",
                   "sdoinfo-list-type", "sdoinfo-request-truncated",
                   "sdoinfo-header-truncated", "sdoinfo-request-fragmented",
                   "sdo-request-length"], "SDO info rules")
    # a big mailbox: no fragmentation
    h = Harness(128)
    for i in idx:
        h.od.set(i, 0, b"\0")
    h.expect(info(1, pack("<H", 1)), info(2, data), what="one fragment")
    # SDO info does not disturb a segmented transfer
    h.od.set(0x1000, 0, pattern(200))
    h.send(sdo(0x40, 0x1000, 0))
    h.rx += 1
    h.expect(info(1, pack("<H", 0)), info(2, pack("<6H", 0, 14, 0, 0, 0, 0)))
    h.expect(seg(0x60), seg(0x01, pattern(200)[112:], service=3))
    h.clean("interleaved SDO info")


class Client:
    """an independent, minimal, conformant SDO client"""
    def __init__(self, server, n_out, n_in):
        self.server, self.n_out, self.n_in = server, n_out, n_in
        self.counter = 0
        self.stale = bytearray(b"\x55" * n_out)   # the mailbox keeps old bytes

    def exchange(self, payload):
        self.counter = self.counter % 7 + 1
        msg = mbx(self.counter, payload)
        check(len(msg) <= self.n_out, "client: message fits")
        self.stale[:len(msg)] = msg
        got = self.server.receive(bytes(self.stale))
        eq(len(got), 1, "client: one answer")
        check(len(got[0]) <= self.n_in, "client: answer fits")
        length, _, _, t = unpack_from("<HHBB", got[0])
        eq((len(got[0]) - 6, t & 0xf), (length, 3), "client: CoE answer")
        return got[0][6:]

    def download(self, index, sub, value, ca=False):
        ca = 0x10 if ca else 0
        if 1 <= len(value) <= 4:
            r = self.exchange(sdo(0x23 | (4 - len(value)) << 2 | ca, index,
                                  sub, value.ljust(4, b"\0")))
            eq(r, sdo(0x60, index, sub, service=3), "client: expedited")
            return
        pos = min(len(value), self.n_out - 16)
        r = self.exchange(sdo(0x21 | ca, index, sub,
                              pack("<I", len(value)) + value[:pos]))
        eq(r, sdo(0x60, index, sub, service=3), "client: download initiated")
        toggle = 0
        while pos < len(value):
            chunk = value[pos:pos + self.n_out - 9]
            pos += len(chunk)
            cmd = toggle | (pos == len(value)) \
                | ((7 - len(chunk)) << 1 if len(chunk) < 7 else 0)
            r = self.exchange(seg(cmd, chunk))
            eq(r, seg(0x20 | toggle, service=3), "client: segment confirmed")
            toggle ^= 0x10

    def upload(self, index, sub, ca=False):
        r = self.exchange(sdo(0x50 if ca else 0x40, index, sub))
        eq(r[:2], b"\x00\x30", "client: SDO response")
        cmd, idx, s = unpack_from("<BHB", r, 2)
        eq((cmd & 0xf1, idx, s), (0x51 if ca else 0x41, index, sub),
           "client: upload response")
        if cmd & 2:
            eq(len(r), 10, "client: expedited length")
            return r[6:10 - ((cmd >> 2) & 3)]
        size, = unpack_from("<I", r, 6)
        value, toggle, last = r[10:], 0, False
        check(len(value) <= size, "client: not more than announced")
        check(len(value) == size or len(r) == self.n_in - 6,
              "client: first message filled")
        while len(value) < size:
            check(not last, "client: last segment but data missing")
            r = self.exchange(seg(0x60 | toggle))
            eq((r[:2], r[2] & 0xf0), (b"\x00\x30", toggle), "client: segment")
            last = r[2] & 1
            chunk = r[3:10 - ((r[2] >> 1) & 7)] if len(r) == 10 else r[3:]
            check(len(r) >= 10, "client: segment at least 7 bytes")
            value += chunk
            toggle ^= 0x10
        eq(len(value), size, "client: complete size")
        return value


def test_roundtrip():
    rnd = LCG(20260921)
    count = 0
    for n_out, n_in in ((24, 24), (32, 32), (48, 48), (128, 128), (24, 128),
                        (128, 32), (33, 47)):
        od = ObjectDictionary()
        od.set(0x2000, 0, b"\x01", readonly=True)
        od.set(0x2000, 1, b"")
        server = CoEServer(od, n_out, n_in)
        client = Client(server, n_out, n_in)
        lengths = list(range(0, 40)) + [rnd.below(401) for _ in range(60)] \
            + [400, n_out - 16, n_out - 15, n_in - 16, n_in - 15]
        for length in lengths:
            value = rnd.bytes(length)
            ca = bool(rnd.below(2))
            client.download(0x2000, 1, value, ca)
            eq(server.downloads[-1], (0x2000, 1, ca, value), "reassembled")
            ca = bool(rnd.below(2))
            eq(client.upload(0x2000, 1, ca), value, "round trip")
            eq(server.uploads[-1], (0x2000, 1, ca, value), "uploads")
            eq(client.upload(0x2000, 0, True), b"\x01\x00" + value, "CA 0")
            count += 1
        eq(server.deviations, [], f"round trip {n_out}/{n_in}: deviations")
        eq(server.aborts, [], "round trip: aborts")
        eq(len(server.downloads), len(lengths), "downloads counted")
        check(all(r["fits"] for r in server.log), "everything fits")
        for d in ("rx", "tx"):
            c = [r["counter"] for r in server.log if r["direction"] == d]
            eq(c, [i % 7 + 1 for i in range(len(c))], d + " counters")
    return count


def test_fuzz():
    """garbage and mutated messages: never raises, answers always fit"""
    rnd = LCG(7)
    count = 0
    for n in (24, 48):
        od = ObjectDictionary()
        od.set(0x2000, 0, b"\x02")
        od.set(0x2000, 1, pattern(100))
        od.set(0x2000, 2, b"ab", fixed=True)
        server = CoEServer(od, n, n)
        valid = [sdo(0x40, 0x2000, 1), sdo(0x50, 0x2000, 0), seg(0x60),
                 seg(0x70), sdo(0x21, 0x2000, 1, pack("<I", 30) + b"12345678"),
                 seg(0x00, b"abcdefg"), seg(0x11, b"abcdefgh"),
                 sdo(0x2b, 0x2000, 2, b"xy\0\0"), info(1, b"\1\0"),
                 info(3, b"\0\x20"), info(5, b"\0\x20\1\0")]
        for i in range(6000):
            kind = rnd.below(4)
            if kind == 0:
                raw = rnd.bytes(rnd.below(n + 4))
            else:
                raw = bytearray(mbx(rnd.below(8), valid[rnd.below(len(valid))],
                                    size=n))
                for _ in range(kind - 1):
                    raw[rnd.below(14)] = rnd.below(256)
            for m in server.receive(bytes(raw)):
                check(6 <= len(m) <= n, "fuzz: answer fits")
                eq(unpack_from("<H", m)[0], len(m) - 6, "fuzz: length field")
            count += 1
        check(all(r["fits"] for r in server.log if r["direction"] == "tx"),
              "fuzz: log fits")
        check(len(server.deviations) > 1000, "fuzz: deviations seen")
        check(all(0 <= d.message_no < 6000 and d.rule
                  for d in server.deviations), "fuzz: deviation records")
    return count


def selftest():
    tests = (test_expedited, test_upload, test_upload_errors, test_download,
             test_download_errors, test_complete_access, test_mailbox,
             test_sdo_info)
    for t in tests:
        t()
    trips = test_roundtrip()
    fuzzed = test_fuzz()
    print(json.dumps({"selftest": "coe", "ok": True, "checks": CHECKS,
                      "golden_tests": len(tests), "roundtrips": trips,
                      "fuzzed_messages": fuzzed}))


# ---------------------------------------------------------------------------
# Information only: ebpfcat's real SDO client against the server.
def client_report():
    import asyncio
    from struct import calcsize, unpack
    sys.path.insert(0, "/repo")
    from ebpfcat.ethercat import Terminal
    from ebpfcat.lock import MailboxLock

    class Stuck(Exception):
        pass

    class FakeTerminal(Terminal):
        """mailbox-level fake: `write`/`read` act on two sync managers"""
        name = "fake"

        def __init__(self, server, n):
            self.server = server
            self.mbx_out_off, self.mbx_out_sz = 0x1000, n
            self.mbx_in_off, self.mbx_in_sz = 0x1400, n
            self.mbx_lock = MailboxLock()
            self.outbuf = bytearray(n)   # keeps stale bytes, like an ESC
            self.inbuf = bytearray(n)
            self.opened = False
            self.queue = []
            self.polls = 0
            self.notes = []

        @staticmethod
        def _split(args):
            fmt = "<" + "".join(a for a in args if isinstance(a, str))
            return fmt, [a for a in args if not isinstance(a, str)]

        async def write(self, start, *args, data=None):
            fmt, values = self._split(args)   # as EtherCat.roundtrip packs
            if args and isinstance(args[-1], str):
                head = "<" + "".join(a for a in args[:-1] if isinstance(a, str))
                out = pack(head, *values) + bytes(calcsize("<" + args[-1]))
            else:
                out = pack(fmt, *values)
            out += bytes(data) if isinstance(data, int) else (data or b"")
            off = start - self.mbx_out_off
            if not 0 <= off or off + len(out) > self.mbx_out_sz:
                self.notes.append(f"write {start:#x}+{len(out)} outside mailbox")
                return
            # ESC: a buffer is opened by writing its first byte and handed
            # over (mailbox full) by writing its last byte
            if off == 0:
                self.opened = True
            if not self.opened:
                self.notes.append(f"write of {len(out)} byte(s) at the end of "
                                  "the already handed-over mailbox ignored")
                return
            self.outbuf[off:off + len(out)] = out
            if off + len(out) == self.mbx_out_sz:
                self.opened = False
                self.queue += self.server.receive(bytes(self.outbuf))

        async def read(self, start, *args, data=None):
            fmt, _ = self._split(args)
            if start == 0x805:   # SM0 status: never full, we eat at once
                return (0,)
            if start == 0x80D:   # SM1 status, bit 3: mailbox full
                self.polls = 0 if self.queue else self.polls + 1
                if self.polls > 20:
                    raise Stuck("client polls forever for an answer")
                return (8 if self.queue else 0,)
            assert start == self.mbx_in_off, hex(start)
            msg = self.queue.pop(0)
            self.inbuf[:len(msg)] = msg
            ret = bytes(self.inbuf[:calcsize(fmt) + data])
            return unpack(fmt, ret[:-data]) + (ret[-data:],)

    n = 32
    first, segm = n - 16, n - 9
    classes = [("expedited", (1, 2, 3, 4)), ("normal", (0, 5, first)),
               ("segmented", (first + 1, first + 7, first + 8, first + segm,
                              first + segm + 1, first + 2 * segm + 3))]
    rows = []
    for direction in ("upload", "download"):
        for cls, lengths in classes:
            for access in ("subindex", "complete"):
                for length in lengths:
                    od = ObjectDictionary()
                    od.set(0x2000, 0, b"\x01", readonly=True)
                    value = pattern(length, length)
                    od.set(0x2000, 1, value if direction == "upload" else b"")
                    server = CoEServer(od, n, n)
                    t = FakeTerminal(server, n)
                    sub = 1 if access == "subindex" else None
                    try:
                        if direction == "upload":
                            got = asyncio.run(t.sdo_read(0x2000, sub))
                            ok = got == value
                            res = "ok" if ok else \
                                f"WRONG VALUE ({len(got)} bytes returned)"
                        else:
                            asyncio.run(t.sdo_write(value, 0x2000, sub))
                            done = [d[3] for d in server.downloads]
                            res = "ok" if done == [value] else \
                                "WRONG: server got " + (
                                    f"{len(done[0])} bytes" if done
                                    else "no complete download")
                    except Exception as e:
                        res = f"{type(e).__name__}: {e}"[:70]
                    devs = sorted({d.rule for d in server.deviations})
                    aborts = sorted({f"{a[2]:#010x}" for a in server.aborts})
                    rows.append((direction, cls, access, length, res,
                                 ",".join(devs) or "-", ",".join(aborts) or "-",
                                 ";".join(sorted(set(t.notes))) or "-"))
    # SDO information: OD list (fragmented), descriptions, entries
    od = ObjectDictionary()
    for i in range(12):
        od.set(0x6000 + 16 * i, 0, b"\x02", readonly=True, datatype=5,
               name="count")
        od.set(0x6000 + 16 * i, 1, b"\0\0", datatype=6, name=f"value {i}")
        od.set(0x6000 + 16 * i, 2, b"\0\0\0\0", datatype=7, name="x" * 30)
        od.describe(0x6000 + 16 * i, name=f"object number {i}")
    server = CoEServer(od, n, n)
    t = FakeTerminal(server, n)
    try:
        ret = asyncio.run(t.read_ODlist())
        good = sorted(ret) == od.indexes() and all(
            o.name == f"object number {i}" and o.maxSub == 2
            and sorted(o.entries) == [1, 2]
            and o.entries[1].name == f"value {i}"
            and o.entries[2].name == "x" * 30
            and o.entries[2].bitLength == 32
            for i, (_, o) in enumerate(sorted(ret.items())))
        res = "ok" if good else "WRONG CONTENT"
    except Exception as e:
        res = f"{type(e).__name__}: {e}"[:70]
    rows.append(("sdo-info", "read_ODlist", "12 objects", "-", res,
                 ",".join(sorted({d.rule for d in server.deviations})) or "-",
                 "-", ";".join(sorted(set(t.notes))) or "-"))
    print(f"mailbox size {n}: first message carries {first}, "
          f"a segment {segm} bytes")
    print("| direction | class | access | bytes | client result "
          "| deviations recorded | aborts sent | notes |")
    print("|---|---|---|---|---|---|---|---|")
    for r in rows:
        print("| " + " | ".join(str(c) for c in r) + " |")


if __name__ == "__main__":
    if "--client-report" in sys.argv[1:]:
        client_report()
    else:
        selftest()
