"""C09 Hash-map variables and Dict entries agree between Python and program"""
import struct

from sim.bufmon import BufferMonitor
from sim.loop import SimStall
from sim.seams import Env

PROPERTY = "C09"
LEVEL = "exploration"
SCENARIOS = {"vars": 3, "dict": 3, "dict-strings": 1}
TIERS = {"quick": {"runs": 8000, "chunk": 25}, "thorough": {"runs": 50000000, "wall_s": 600, "chunk": 150, "recheck": 16}}
RULE = ("'vars': 1-6 hash-map variables with drawn formats (12% with a byte-order prefix) "
        "and defaults, a generated program that keeps live values in up to 2 of r2-r9 and "
        "has statements a = b / a = b + k / a = register (+ k) / a = temporary (+ k) / wide = "
        "narrow (the 64-bit cell of a variable only Python writes handed on to a wider one) and "
        "in 60 % of the runs copies every hash variable into an 8-byte array-map observer at "
        "its end (what the program reads of Python-written values), and a "
        "history of Python set/get and program runs; "
        "'dict': tape-generated packed Key/Value structures (members of all sizes), a "
        "generated program that fills the key from array-map variables and then updates, or "
        "looks up + modifies a member + marks the Else branch, and a history of inserts, "
        "lookups ([], get, in), updates, deletes, pops, popitem, clear and key/item iteration "
        "from both sides including absent keys and a full "
        "map; 'dict-strings': key/value structures with byte-string members used from Python "
        "with strings shorter than their field; every observation on either side is compared with a reference dict (64-bit "
        "cells; key bytes -> value bytes by independent struct packing); two-party histories, "
        "no timing dimension; distinct = distinct (declarations, history) digests; "
        "non-trivial = at least 4 operations with at least one from each side")
RULE += "; since the 4th session also a whole-cell copy inside a Dict lookup, 32-bit register views assigned to 64-bit variables, and a program run that modifies an entry before the n-th system call of Python's pop"
COMPONENTS = {
    "real": ["ebpfcat.hashmap.HashMap/HashGlobalVar(Desc)/Dict/TheDict", "ebpfcat.ebpf."
             "Structure/Member", "ebpfcat.bpf map wrappers", "code generator"],
    "stub": ["bpf() kernel side (hash maps, deterministic key order)", "eBPF interpreter"]}
ASSUMPTIONS = ["values are drawn inside the declared format's range (what happens to "
               "out-of-range values is not stated)", "fixed-point (x) hash variables are "
               "their own class: usable by the program, not readable/writable from Python",
               "iterating an empty Dict from Python is tolerated, not judged",
               "a program the DSL refuses with AssembleError 'not enough registers' is a "
               "stated limit, counted (c09/register-pressure-refused) and not judged",
               "a constant cannot be assigned to a hash variable inside a program (the "
               "library has no such path), so it is not generated"]

FMTS = ["B", "H", "I", "Q", "b", "h", "i", "q"]
PREFIXES = ["<", "=", "@", ">", "!"]


def draw_in_range(tape, fmt, label):
    bits = 8 * struct.calcsize(fmt)
    v = tape.draw(label, 1 << min(bits, 31))
    if bits > 31 and tape.chance(label + "/wide", 50):
        v |= tape.draw(label + "/hi", 1 << (bits - 31)) << 31
    v &= (1 << bits) - 1
    if fmt.islower():
        v -= (v >> (bits - 1)) << bits
    return v


def run_vars(tape, env, viol, history, want_c10=False):
    from ebpfcat.hashmap import HashMap
    from ebpfcat.xdp import XDP, XDPExitCode
    kernel = env.kernel
    hm = HashMap()
    ns = {"license": "GPL", "minimumPacketSize": 20, "hm": hm}
    decl = []
    nvars = 1 + tape.draw("c09/nvars", 6)
    if want_c10 and tape.chance("c10/many-variables", 3):
        # more variables than a one-byte key can tell apart: whatever the library does
        # about it (today: it cannot load such a map), the buffers must be large enough
        nvars = 250 + tape.draw("c10/nvars-many", 60)
        env.world.count("c10/hash-map-with-250-to-310-variables")
    for i in range(nvars):
        fmt = tape.pick("c09/fmt", FMTS)
        if tape.chance("c09/prefixed", 12 if not want_c10 else 35):
            fmt = tape.pick("c09/prefix", PREFIXES) + fmt
        default = draw_in_range(tape, fmt, "c09/default") if tape.chance("c09/has-default", 60) else 0
        ns[f"h{i}"] = hm.globalVar(fmt, default)
        decl.append((f"h{i}", fmt, default))
    # observers: what the *program* reads from each hash variable, copied at the end of the
    # program into an 8-byte array-map variable of the same signedness
    observe = tape.chance("c09/observe-program-reads", 60)
    # registers holding live values while hash variables are accessed (r7 belongs to the
    # array map when there is one)
    regs = []
    for no in sorted({tape.pick("c09/regno", [2, 3, 4, 5, 6, 8, 9] if observe
                                else [2, 3, 4, 5, 6, 7, 8, 9])
                      for _ in range(tape.draw("c09/nregs", 3))}):
        f = tape.pick("c09/regfmt", FMTS)
        regs.append((no, f, draw_in_range(tape, f, "c09/regval") & ((1 << 63) - 1)
                     if f == "Q" else draw_in_range(tape, f, "c09/regval")))
    stmts = []
    frozen = set()      # variables only Python may write (sources of cell copies)
    written = set()
    for _ in range(tape.draw("c09/nstmts", 5)):
        cands = [d for d in decl if d[0] not in frozen]
        if not cands:
            break
        dst = tape.pick("c09/dst", cands)
        kind = tape.draw("c09/stmt-kind", 4)
        k = tape.draw("c09/k", 50) if tape.chance("c09/plus", 50) else None
        written.add(dst[0])
        # wide = narrow between hash variables hands the 64-bit cell on as it is: a narrower
        # variable of the same signedness that only Python writes must arrive unchanged
        narrower = [d for d in decl if d[0] not in written and len(d[1]) == 1 and len(dst[1]) == 1
                    and d[1].islower() == dst[1].islower()
                    and struct.calcsize(d[1]) < struct.calcsize(dst[1])]
        if narrower and tape.chance("c09/cell-copy", 35):
            src = tape.pick("c09/cell-src", narrower)
            frozen.add(src[0])
            stmts.append(("var", dst, src, None))
            env.world.count("c09/cell-copied-to-wider-variable")
            continue
        narrow_regs = [r for r in regs if r[1] in ("I", "H", "B")]
        if narrow_regs and dst[1] in ("Q", "q") and tape.chance("c09/from-32-bit-register", 40):
            # a 64-bit variable is given a large value and then the 32-bit view of a
            # register (wN): the cell then holds those 32 bits and nothing else
            big = (1 << 62) - 1 - tape.draw("c09/stale-upper-half", 1 << 40)
            stmts.append(("tmp", dst, big, None))
            stmts.append(("wreg", dst, tape.pick("c09/usewreg", narrow_regs), None))
            env.world.count("c09/32-bit-register-view-assigned-to-64-bit-variable")
            continue
        if kind == 2 and regs:
            stmts.append(("reg", dst, tape.pick("c09/usereg", regs), k))
        elif kind == 3:
            v = draw_in_range(tape, dst[1], "c09/tmpval")
            if dst[1][-1] == "Q":
                v &= (1 << 63) - 1
            stmts.append(("tmp", dst, v, k))
        else:
            same = [d for d in decl if d[1] == dst[1]]     # mixed formats are C01's subject
            stmts.append(("var", dst, tape.pick("c09/src", same), k))

    if observe:
        from ebpfcat.arraymap import ArrayMap
        amap = ArrayMap()
        ns["amap"] = amap
        for n, f, d in decl:
            ns["o_" + n] = amap.globalVar("q" if f[-1].islower() else "Q")

    def program(self):
        for no, f, v in regs:
            (self.sr if f.islower() else self.r)[no] = v
        body(self)
        if observe:
            for n, f, d in decl:
                setattr(self, "o_" + n, getattr(self, n))
        self.exit(XDPExitCode.PASS)

    def body(self):
        for kind, dst, src, k in stmts:
            if kind == "var":
                v = getattr(self, src[0])
                setattr(self, dst[0], v if k is None else v + k)
            elif kind == "reg":
                r = (self.sr if src[1].islower() else self.r)[src[0]]
                setattr(self, dst[0], r if k is None else r + k)
            elif kind == "wreg":
                setattr(self, dst[0], self.w[src[0]])
            else:
                t = "stmp" if dst[1].islower() else "tmp"
                with getattr(self, t):
                    setattr(self, t, src)
                    tv = getattr(self, t)
                    setattr(self, dst[0], tv if k is None else tv + k)
    ns["program"] = program
    program_written = {dst[0] for kind, dst, src, k in stmts}
    P = type("P", (XDP,), ns)
    try:
        p = P()
        p.load()
    except Exception as e:
        if type(e).__name__ == "AssembleError" and "not enough registers" in str(e) and regs:
            # the DSL states that it ran out of registers for this program: a stated
            # limit, not a wrong value
            env.world.count("c09/register-pressure-refused")
            return decl
        viol("program-cannot-be-generated", f"{type(e).__name__}: {e}; {decl} {stmts}",
             exception=type(e).__name__, part="vars")
        return decl
    prog = kernel.obj(p.file_descriptor)
    model = {n: d for n, f, d in decl}     # 64-bit cells

    def cell(v):
        return v & ((1 << 64) - 1)

    def check(when):
        for n, f, d in decl:
            try:
                got = getattr(p, n)
            except Exception as e:
                viol("python-read-failed", f"{when}: {n} ({f}): {type(e).__name__}: {e}", fmt=f)
                return
            bits = 8 * struct.calcsize(f)
            want = model[n]
            # only judged while the cell holds a value of the declared format
            lo, hi = (-(1 << (bits - 1)), (1 << (bits - 1)) - 1) if f.islower() else (0, (1 << bits) - 1)
            if lo <= want <= hi and got != want:
                viol("hash-variable-differs", f"{when}: {n} ({f}) reads {got!r} from Python, "
                     f"model {want!r}", fmt=f, byteorder=f[0] if len(f) > 1 else "")
                return
    check("after load (defaults)")
    second = [None]
    for step in range(3 + tape.draw("c09/nops", 20)):
        op = tape.draw("c09/op", 3)
        if op == 2 and second[0] is None and tape.chance("c09/second-instance", 30):
            # a second instance of the same program class, loaded while the first is in use
            # and given other values: each instance has its own maps
            try:
                p2 = P()
                p2.load()
                for n, f, d in decl:
                    setattr(p2, n, draw_in_range(tape, f, "c09/val2"))
                kernel.run_xdp(kernel.obj(p2.file_descriptor), bytearray(64))
            except Exception as e:
                viol("program-cannot-be-generated", f"second instance: {type(e).__name__}: {e}",
                     exception=type(e).__name__, part="vars")
                return decl
            second[0] = p2
            env.world.count("c09/second-instance-of-the-class")
            history.append(("second_instance",))
            check(f"after op {step} {history[-1]}")
            continue
        if op == 0:
            n, f, d = tape.pick("c09/wvar", decl)
            v = draw_in_range(tape, f, "c09/val")
            try:
                setattr(p, n, v)
            except Exception as e:
                viol("python-write-failed", f"{n} ({f}) = {v}: {type(e).__name__}: {e}", fmt=f)
                return decl
            model[n] = v
            history.append(("py_set", n, f))
        elif op == 1:
            try:
                kernel.run_xdp(prog, bytearray(64))
            except Exception as e:
                viol("interpreter-fault", f"{type(e).__name__}: {e}", part="vars")
                return decl
            for kind, dst, src, k in stmts:
                # 64-bit cells; a sum that leaves the declared format's range is not
                # judged any more (check() skips out-of-range cells)
                v = model[src[0]] if kind == "var" else src[2] if kind in ("reg", "wreg") else src
                model[dst[0]] = v if k is None else v + k
            history.append(("run",))
            if observe:
                for n, f, d in decl:
                    bits = 8 * struct.calcsize(f)
                    lo, hi = (-(1 << (bits - 1)), (1 << (bits - 1)) - 1) if f[-1].islower() \
                        else (0, (1 << bits) - 1)
                    if not lo <= model[n] <= hi or n in program_written:
                        # out of range: not judged; the statement is about values written
                        # by the *other* side
                        continue
                    env.world.count("c09/program-read-of-python-value-checked")
                    got = getattr(p, "o_" + n)
                    if got != model[n]:
                        viol("program-read-differs",
                             f"after op {step}: the program read {got!r} from {n} ({f}), "
                             f"model {model[n]!r}", fmt=f)
                        return decl
        else:
            history.append(("py_get",))
        check(f"after op {step} {history[-1]}")
    return decl


def run_dict(tape, env, viol, history, want_c10=False):
    from ebpfcat.arraymap import ArrayMap
    from ebpfcat.bpf import UpdateFlags
    from ebpfcat.ebpf import Member, Structure
    from ebpfcat.hashmap import Dict
    from ebpfcat.xdp import XDP, XDPExitCode
    kernel = env.kernel
    if want_c10 and tape.chance("fault/kernel-without-lookup-and-delete", 25):
        # a kernel older than 5.14: BPF_MAP_LOOKUP_AND_DELETE_ELEM on a hash map is EINVAL;
        # whatever the library does about it, its buffers have to be large enough
        kernel.refused_commands = {21: tape.pick("fault/refusal-errno", [22, 524, 95])}
        env.world.count("fault/old-kernel")

    def gen_struct(name, label):
        fmts = sorted([tape.pick(f"{label}/fmt", FMTS) for _ in range(1 + tape.draw(f"{label}/n", 5))],
                      key=lambda f: -struct.calcsize(f))
        ns = {f"m{i}": Member(f) for i, f in enumerate(fmts)}
        return type(name, (Structure,), ns), fmts
    Key, kf = gen_struct("Key", "c09/key")
    if tape.chance("c09/value-is-key-class", 12):
        Value, vf = Key, kf          # one Structure class used for both
        env.world.count("c09/dict-with-one-class-for-key-and-value")
    else:
        Value, vf = gen_struct("Value", "c09/value")
    size = 1 + tape.draw("c09/size", 4)
    if want_c10 and tape.chance("fault/map-creation-refused-once", 8):
        # a table of thousands of entries on a kernel that charges map memory against the
        # locked-memory limit: creating it is refused (EPERM) the first time. Whatever the
        # library does about it, the buffers it passes later fit the map it got
        size = 3000 + tape.draw("c09/big-size", 3000)
        refused = []
        which = 1 + tape.draw("fault/which-map-creation", 4)    # (the Dict's, with luck)
        seen = [0]

        def refuse_once(cmd):
            if cmd == 0:
                seen[0] += 1
                if seen[0] == which and not refused:
                    refused.append(True)
                    env.world.count("fault/map-create-eperm")
                    return 1
            return 0
        kernel.command_fault = refuse_once
    amap = ArrayMap()
    from ebpfcat.ebpf import LocalVar
    from ebpfcat.hashmap import HashMap
    ns = {"license": "GPL", "minimumPacketSize": 20, "amap": amap,
          "table": Dict(Key, Value, size=size), "op": amap.globalVar("I"),
          "res": amap.globalVar("q"), "found": amap.globalVar("I")}
    # other users of the program stack, declared after the Dict: nothing of this may
    # disturb the key/value staging area between filling it and the helper call
    extra = tape.draw("c09/extra-stack-users", 8)
    if extra & 1:
        hm = HashMap()
        ns["hm"] = hm
        ns["hv0"] = hm.globalVar("I", 7)
        ns["hv1"] = hm.globalVar("I", 9)
        # two 8-byte cells, one copied into the other while an entry is looked at
        ns["hv2"] = hm.globalVar("Q", 3)
        ns["hv3"] = hm.globalVar("Q", 5)
    copy_in_lookup = bool(extra & 1) and tape.chance("c09/cell-copy-inside-lookup", 60)
    if extra & 2:
        ns["loc"] = LocalVar(tape.pick("c09/locfmt", ["I", "Q", "H", "B"]))
    if extra & 4:
        ns["table2"] = Dict(Key, Value, size=2)
    for i, f in enumerate(kf):
        ns[f"k{i}"] = amap.globalVar(f)
    for i, f in enumerate(vf):
        ns[f"v{i}"] = amap.globalVar(f)
        ns[f"o{i}"] = amap.globalVar(f)
    mod_member = tape.draw("c09/mod-member", len(vf))
    mod_const = tape.draw("c09/mod-const", 100)

    def program(self):
        for i in range(len(kf)):
            setattr(self.table.key, f"m{i}", getattr(self, f"k{i}"))
        with self.op == 1 as Else:
            for i in range(len(vf)):
                setattr(self.table.value, f"m{i}", getattr(self, f"v{i}"))
            if extra & 1:
                self.hv0 = self.hv1           # a whole-cell copy: uses key scratch space
            if extra & 2:
                self.loc = 0x5a
            if extra & 4:
                for i in range(len(kf)):
                    setattr(self.table2.key, f"m{i}", 0x33)
            self.table.update()
            self.res = self.sr0
        with Else:
            with self.table.lookup() as (value, Else2):
                if copy_in_lookup:
                    self.hv2 = self.hv3       # a whole-cell copy while r0 points at the entry
                for i in range(len(vf)):
                    setattr(self, f"o{i}", getattr(value, f"m{i}"))
                with self.op == 2:
                    setattr(value, f"m{mod_member}", mod_const)
                self.found = 1
            with Else2:
                self.found = 2
        self.exit(XDPExitCode.PASS)
    ns["program"] = program
    P = type("P", (XDP,), ns)
    desc = dict(key=kf, value=vf, size=size)
    try:
        p = P()
        p.load()
    except Exception as e:
        kernel.command_fault = None
        viol("program-cannot-be-generated", f"{type(e).__name__}: {e}; {desc}",
             exception=type(e).__name__, part="dict")
        return desc
    kernel.command_fault = None
    prog = kernel.obj(p.file_descriptor)
    model = {}          # key tuple -> value tuple
    keypool = [tuple(draw_in_range(tape, f, "c09/keyval") for f in kf)
               for _ in range(2 + tape.draw("c09/nkeys", 4))]

    def mk(cls, vals):
        s = cls()
        for i, v in enumerate(vals):
            setattr(s, f"m{i}", v)
        return s

    def kbytes(vals):
        return struct.pack("<" + "".join(kf), *vals)

    held = [None]
    for step in range(4 + tape.draw("c09/nops", 24)):
        key = tape.pick("c09/key", keypool)
        op = tape.draw("c09/dop", 9)
        where = f"op {step}"
        if op == 7 and not model:
            op = 0          # popitem on an empty Dict is not judged (see ASSUMPTIONS)
        if op == 0:        # Python insert/update
            val = tuple(draw_in_range(tape, f, "c09/val") for f in vf)
            try:
                p.table[mk(Key, key)] = mk(Value, val)
                ok = True
            except IndexError:
                ok = False
            full = key not in model and len(model) >= size
            if ok and full:
                viol("insert-into-full-map-succeeded", f"{where}: {len(model)} entries, size {size}")
            if not ok and not full:
                viol("python-insert-failed", f"{where}: map has {len(model)} of {size} entries")
            if ok:
                model[key] = val
            history.append(("py_set", ok))
        elif op == 1:      # Python lookup: table[key], table.get(key), key in table
            how = tape.draw("c09/lookup-how", 3)
            got = None
            try:
                if how == 2:
                    present = mk(Key, key) in p.table
                    if present != (key in model):
                        viol("python-lookup-differs", f"{where}: key {key} in table is "
                             f"{present}, model {key in model}", side="python")
                    history.append(("py_in", present))
                    continue
                got = p.table[mk(Key, key)] if how == 0 else p.table.get(mk(Key, key))
                vals = None if got is None else \
                    tuple(getattr(got, f"m{i}") for i in range(len(vf)))
            except KeyError:
                vals = None
            if vals != model.get(key):
                viol("python-lookup-differs", f"{where}: key {key}: Python sees {vals}, model "
                     f"{model.get(key)}", side="python")
            # a value fetched earlier keeps what it showed when it was fetched, whatever
            # is fetched afterwards
            if held[0] is not None:
                hobj, hvals, hwhere = held[0]
                now = tuple(getattr(hobj, f"m{i}") for i in range(len(vf)))
                if now != hvals:
                    viol("python-lookup-differs", f"{where}: the value fetched at {hwhere} "
                         f"showed {hvals}, after this fetch it shows {now}", side="python",
                         held=True)
            held[0] = (got, vals, where) if got is not None and vals is not None else None
            history.append(("py_get", vals is not None))
        elif op == 2:      # Python delete / pop
            use_pop = tape.chance("c09/pop", 50)
            racing = use_pop and key in model and not getattr(kernel, "refused_commands", None) \
                and tape.chance("c09/program-modifies-the-entry-during-pop", 30)
            if racing:
                # the program (another CPU) looks the entry up and modifies a member while
                # Python pops it: before the n-th system call of the pop. If it gets there
                # before the entry is taken out, the popped value carries the modification
                nth = 1 + tape.draw("c09/pop-syscall", 2)
                calls = [0]
                ran = []

                def during_pop(cmd):
                    calls[0] += 1
                    if calls[0] == nth and not ran:
                        ran.append(True)
                        for i, v in enumerate(key):
                            setattr(p, f"k{i}", v)
                        p.op = 2
                        p.found = 0
                        kernel.command_fault = None
                        kernel.run_xdp(prog, bytearray(64))
                        kernel.command_fault = during_pop
                    return 0
                kernel.command_fault = during_pop
            try:
                if use_pop:
                    try:
                        got = p.table.pop(mk(Key, key))
                    finally:
                        if racing:
                            kernel.command_fault = None
                    if racing and ran:
                        env.world.count("c09/entry-modified-by-the-program-during-pop")
                        if p.found == 1:
                            lst = list(model[key])
                            f = vf[mod_member]
                            lst[mod_member] = mod_const if struct.calcsize(f) > 1 \
                                or mod_const < 128 or f == "B" else mod_const - 256
                            model[key] = tuple(lst)
                        else:
                            viol("program-lookup-missed", f"{where}: the program ran before "
                                 f"system call {nth} of pop({key}) and did not find the entry "
                                 f"(marker {p.found})", side="program", during_pop=True)
                    vals = tuple(getattr(got, f"m{i}") for i in range(len(vf)))
                    if vals != model.get(key):
                        viol("python-lookup-differs", f"{where}: pop({key}) returned {vals}, "
                             f"model {model.get(key)}", side="python")
                else:
                    del p.table[mk(Key, key)]
                existed = True
            except KeyError:
                existed = False
            except OSError:
                if not getattr(kernel, "refused_commands", None):
                    raise
                history.append(("py_pop_refused",))      # old kernel: nothing was deleted
                continue
            if existed != (key in model):
                viol("python-delete-differs", f"{where}: key {key} existed={existed}, model "
                     f"{key in model}")
            model.pop(key, None)
            history.append(("py_del", existed))
        elif op == 7:      # Python popitem (MutableMapping mixin over __iter__/[]/del)
            try:
                k, got = p.table.popitem()
                kb = bytes(k.data)
                vals = tuple(getattr(got, f"m{i}") for i in range(len(vf)))
                mkey = next((m for m in model if kbytes(m) == kb), None)
                if mkey is None:
                    viol("python-iteration-differs", f"{where}: popitem returned key "
                         f"{kb.hex()} which is not in the model")
                else:
                    if vals != model[mkey]:
                        viol("python-lookup-differs", f"{where}: popitem returned {vals} for "
                             f"{mkey}, model {model[mkey]}", side="python")
                    del model[mkey]
            except (Exception, SimStall) as e:
                viol("python-iteration-failed", f"{where}: popitem: {type(e).__name__}: {e}")
            history.append(("py_popitem",))
        elif op == 8:      # Python clear (ends by finding the Dict empty: how that is
            try:           # signalled is tolerated, what is left afterwards is judged)
                p.table.clear()
            except (KeyError, RuntimeError, StopIteration):
                pass
            except (Exception, SimStall) as e:
                viol("python-iteration-failed", f"{where}: clear: {type(e).__name__}: {e}")
            model.clear()
            for kk in keypool:
                try:
                    p.table[mk(Key, kk)]
                    viol("python-delete-differs", f"{where}: key {kk} is still there after "
                         f"clear()")
                except KeyError:
                    pass
            history.append(("py_clear",))
        elif op == 3:      # Python iteration over the keys (or the items)
            if model:
                try:
                    keys = set()
                    items = tape.chance("c09/iterate-items", 40)
                    source = p.table.items() if items else p.table
                    if items and tape.chance("c09/items-as-list", 50):
                        source = list(source)[:4 * size + 10]     # all fetched, then looked at
                    for n_seen, k in enumerate(source):
                        if n_seen > 4 * size + 8:
                            raise RuntimeError("iteration over the Dict does not end")
                        if items:
                            k, got = k
                            mkey = next((m for m in model if kbytes(m) == bytes(k.data)), None)
                            vals = tuple(getattr(got, f"m{i}") for i in range(len(vf)))
                            if mkey is not None and vals != model[mkey]:
                                viol("python-lookup-differs", f"{where}: items() gives {vals} "
                                     f"for {mkey}, model {model[mkey]}", side="python")
                        keys.add(bytes(k.data))
                except (Exception, SimStall) as e:
                    viol("python-iteration-failed", f"{where}: {type(e).__name__}: {e}")
                    keys = None
                if keys is not None and keys != {kbytes(k) for k in model}:
                    viol("python-iteration-differs", f"{where}: keys {sorted(keys)} vs model "
                         f"{sorted(kbytes(k) for k in model)}")
            history.append(("py_iter",))
        else:              # program side: 4 update, 5 lookup, 6 lookup+modify
            for i, v in enumerate(key):
                setattr(p, f"k{i}", v)
            pop = {4: 1, 5: 0, 6: 2}[op]
            p.op = pop
            p.found = 0
            val = tuple(draw_in_range(tape, f, "c09/val") for f in vf)
            for i, v in enumerate(val):
                setattr(p, f"v{i}", v)
            if copy_in_lookup:
                src = tape.pick("c09/copied-cell-value", [5, 0, 1 << 63, (1 << 64) - 1,
                                                          0x1122334455667788])
                p.hv3 = src
                p.hv2 = 3
            try:
                kernel.run_xdp(prog, bytearray(64))
            except Exception as e:
                viol("interpreter-fault", f"{type(e).__name__}: {e}", part="dict")
                return desc
            if extra & 1 and pop == 1 and p.hv0 != 9:
                viol("hash-variable-differs", f"{where}: the cell copied from one that holds 9 "
                     f"holds {p.hv0}", fmt="I", byteorder="", copied=True)
            if copy_in_lookup and pop != 1:
                want = src if key in model else 3
                if p.hv2 != want or p.hv3 != src:
                    viol("hash-variable-differs", f"{where}: inside the lookup of "
                         f"{'a present' if key in model else 'an absent'} key one cell was "
                         f"copied into another: source {p.hv3:#x} (written {src:#x}), "
                         f"destination {p.hv2:#x}, expected {want:#x}", fmt="Q", byteorder="",
                         copied=True)
            if pop == 1:
                full = key not in model and len(model) >= size
                if (p.res == 0) == full:
                    viol("program-update-result", f"{where}: update returned {p.res}, map had "
                         f"{len(model)} of {size} entries, key present: {key in model}")
                if p.res == 0:
                    model[key] = val
                history.append(("prog_update", p.res == 0))
            else:
                if key in model:
                    got = tuple(getattr(p, f"o{i}") for i in range(len(vf)))
                    if p.found != 1:
                        viol("program-lookup-missed", f"{where}: key {key} is in the map, the "
                             f"program took the Else branch (marker {p.found})", side="program")
                    elif got != model[key]:
                        viol("program-lookup-differs", f"{where}: key {key}: program sees {got}, "
                             f"model {model[key]}", side="program")
                    if pop == 2 and p.found == 1:
                        lst = list(model[key])
                        f = vf[mod_member]
                        lst[mod_member] = mod_const if struct.calcsize(f) > 1 or mod_const < 128 \
                            or f == "B" else mod_const - 256
                        model[key] = tuple(lst)
                elif p.found != 2:
                    viol("absent-key-not-else", f"{where}: key {key} is absent, marker {p.found}",
                         side="program")
                history.append(("prog_lookup", key in model))
        if viol.any():
            break
    return desc


def run_dict_strings(tape, env, viol, history):
    """a Dict whose key and value structures have byte-string members ('4s', '16s', ...)
    next to integers, used from Python only (set, get, in, pop, del, iteration) with
    strings shorter than, or as long as, their field: what is read back is what was
    stored, padded with NUL bytes"""
    from ebpfcat.ebpf import Member, Structure
    from ebpfcat.hashmap import Dict
    from ebpfcat.xdp import XDP, XDPExitCode
    kernel = env.kernel

    def gen_struct(name, label):
        fmts = [tape.pick(f"{label}/fmt", ["16s", "8s", "4s", "2s", "Q", "I", "H", "B"])
                for _ in range(1 + tape.draw(f"{label}/n", 4))]
        if not any(f.endswith("s") for f in fmts):
            fmts.append("4s")
        fmts.sort(key=lambda f: -struct.calcsize(f))
        if tape.chance(f"{label}/string-last", 60):
            # (the string as the last member, or set last: whatever its setter does to
            # the structure is not repaired by the next member)
            fmts.sort(key=lambda f: (-struct.calcsize(f), f.endswith("s")))
        return type(name, (Structure,), {f"m{i}": Member(f) for i, f in enumerate(fmts)}), fmts
    Key, kf = gen_struct("SKey", "c09s/key")
    Value, vf = gen_struct("SValue", "c09s/value")
    size = 2 + tape.draw("c09s/size", 4)
    P = type("P", (XDP,), {"license": "GPL", "minimumPacketSize": 20,
                           "table": Dict(Key, Value, size=size),
                           "program": lambda self: self.exit(XDPExitCode.PASS)})
    desc = dict(key=kf, value=vf, size=size, strings=True)
    try:
        p = P()
        p.load()
    except Exception as e:
        viol("program-cannot-be-generated", f"{type(e).__name__}: {e}; {desc}",
             exception=type(e).__name__, part="dict-strings")
        return desc

    def draw_vals(fmts, label):
        out = []
        for f in fmts:
            if f.endswith("s"):
                n = int(f[:-1])
                k = tape.pick(f"{label}/strlen", [n, n, n - 1, 1, 0, n // 2])
                out.append(tape.bytes(f"{label}/str", k) if k else b"")
            else:
                out.append(draw_in_range(tape, f, label))
        return tuple(out)

    def padded(fmts, vals):
        return tuple(v + bytes(int(f[:-1]) - len(v)) if f.endswith("s") else v
                     for f, v in zip(fmts, vals))

    def mk(cls, vals, order=None):
        s = cls()
        idx = list(range(len(vals)))
        for i in (order or idx):
            setattr(s, f"m{i}", vals[i])
        return s

    def read(obj, fmts):
        return tuple(getattr(obj, f"m{i}") for i in range(len(fmts)))
    keypool = [draw_vals(kf, "c09s/keyval") for _ in range(2 + tape.draw("c09s/nkeys", 3))]
    model = {}
    for step in range(4 + tape.draw("c09s/nops", 16)):
        key = tape.pick("c09s/key", keypool)
        pk = padded(kf, key)
        op = tape.draw("c09s/op", 5)
        where = f"op {step}"
        if op == 4 and not model:
            op = 0          # iterating an empty Dict is not judged (see ASSUMPTIONS)
        try:
            if op == 0:
                val = draw_vals(vf, "c09s/val")
                try:
                    p.table[mk(Key, key)] = mk(Value, val)
                    ok = True
                except IndexError:
                    ok = False
                full = pk not in model and len(model) >= size
                if ok != (not full):
                    viol("python-insert-failed" if not ok else "insert-into-full-map-succeeded",
                         f"{where}: {len(model)} of {size} entries, key present: {pk in model}")
                if ok:
                    model[pk] = padded(vf, val)
                history.append(("py_set", ok))
            elif op == 1:
                try:
                    got = read(p.table[mk(Key, key)], vf)
                except KeyError:
                    got = None
                if got != model.get(pk):
                    viol("python-lookup-differs", f"{where}: key {pk}: Python sees {got}, "
                         f"model {model.get(pk)}", side="python", strings=True)
                history.append(("py_get", got is not None))
            elif op == 2:
                present = mk(Key, key) in p.table
                if present != (pk in model):
                    viol("python-lookup-differs", f"{where}: key {pk} in table is {present}, "
                         f"model {pk in model}", side="python", strings=True)
                history.append(("py_in", present))
            elif op == 3:
                try:
                    got = read(p.table.pop(mk(Key, key)), vf)
                except KeyError:
                    got = None
                if got != model.pop(pk, None):
                    viol("python-lookup-differs", f"{where}: pop({pk}) returned {got}",
                         side="python", strings=True)
                history.append(("py_pop", got is not None))
            else:
                keys = set()
                for n_seen, k in enumerate(p.table):
                    if n_seen > 4 * size + 8:
                        raise RuntimeError("iteration over the Dict does not end")
                    keys.add(read(k, kf))
                if keys != set(model):
                    viol("python-iteration-differs", f"{where}: keys {sorted(keys)} vs model "
                         f"{sorted(model)}", strings=True)
                history.append(("py_iter",))
        except (Exception, SimStall) as e:
            viol("python-operation-raised", f"{where}: {type(e).__name__}: {e}; history "
                 f"{history[-3:]}", exception=type(e).__name__, strings=True)
        if viol.any():
            break
    history.append(("run",))       # (two-party marker: the program is loaded and could run)
    return desc


def run(tape, scenario, want_c10=False):
    import hashlib
    possible = 2 + tape.draw("c09/cpus", 3)
    monitor = BufferMonitor()
    env = Env(tape, with_kernel=True, possible_cpus=possible, monitor=monitor)
    world = env.world
    violations = []

    def viol(rule, detail, **params):
        if not violations:
            violations.append({"rule": rule, "params": params, "detail": detail})
    viol.any = lambda: bool(violations)
    history = []
    with env:
        try:
            desc = (run_vars(tape, env, viol, history, want_c10) if scenario == "vars"
                    else run_dict_strings(tape, env, viol, history) if scenario == "dict-strings"
                    else run_dict(tape, env, viol, history, want_c10))
        except Exception as e:
            # the library raised where the workload does not expect it (the harness' own
            # slips would show on the unchanged tree): judged as a failed operation
            import traceback
            tb = traceback.extract_tb(e.__traceback__)
            where = next((f"{fr.filename.rsplit('/', 1)[-1]}:{fr.lineno}" for fr in reversed(tb)
                          if "/ebpfcat/" in fr.filename), "harness")
            viol("python-operation-raised", f"{type(e).__name__}: {e} (at {where}); history "
                 f"{history[-3:]}", exception=type(e).__name__)
            desc = None
        overruns = [{"rule": "buffer-overrun", "params": {"role": bv["role"], "cmd": bv["cmd"],
                                                          "map": bv["map"].split()[0].strip("<")},
                     "detail": f"{bv}"} for bv in monitor.violations[:1]]
        if want_c10:
            violations[:] = overruns
        elif overruns:
            world.count("other-property/C10-buffer-overrun")
        world.count("c10/judged", monitor.judged)
        world.count("c10/unjudged", monitor.unjudged)
    h = hashlib.sha256(repr((desc, history)).encode()).hexdigest()
    sides = {x[0].split("_")[0] for x in history}
    return {
        "violations": violations, "stats": dict(world.counters), "digest": h, "sim_time": 0.0,
        "schedule": h, "nontrivial": len(history) >= 4 and len(sides) >= 2,
        "sample": {"scenario": scenario, "declarations": desc, "history": history[:24]},
    }
