"""C12 Every datagram request gets exactly its own response"""
from . import wl_roundtrip

PROPERTY = "C12"
LEVEL = "exploration"
SCENARIOS = {"faults": 6, "nofault": 3, "nofault-nooversize": 1, "fast-master": 2, "long-history": 1}
TIERS = {"quick": {"runs": 6000, "chunk": 40, "chunk_wall": 1200}, "thorough": {"runs": 50000000, "wall_s": 600, "chunk": 40, "chunk_wall": 1800, "recheck": 16}}
RULE = ("one run = 1-8 concurrent client tasks issuing 1-30 EtherCat.roundtrip calls "
        "(sizes 0..1472 and beyond, bursts in one loop iteration, short wait_for "
        "timeouts, client cancellation) against plain-memory terminals on the simulated "
        "wire (loss/dup/delay/reorder, unprocessed datagrams, all drawn from one tape); "
        "in 'fast-master' the master is a FastEtherCat, i.e. every returning frame passes the "
        "real EtherXDP dispatcher byte code, and packet indices are biased towards values "
        "that look like a sync group's slot number in their low bits; "
        "distinct = distinct SHA-256 of the full event log (every tx/rx frame, submit "
        "and completion with global sequence numbers); non-trivial = at least 2 "
        "requests and 1 frame")
RULE += "; 'long-history' since the 4th session also: a burst of 4097-4796 requests in one loop turn whose frames are lost behind the held one (they may only stay pending), and an unsendable request (datagram index > 255) made first"
RULE += '; also payload buffers (bytearray) the application reuses as soon as the request is made, a second master of another program on the interface (25 %), interfaces reporting an MTU of 4000/9000'
COMPONENTS = {
    "real": ["ebpfcat.ethercat.EtherCat.connect/connection_made/sendloop/process_packet/"
             "roundtrip_packet/roundtrip/datagram_received", "ebpfcat.ethercat.Packet",
             "asyncio tasks/futures/queues/wait_for (CPython)"],
    "stub": ["event loop clock+selector (SimLoop)", "AF_PACKET socket", "wire with faults",
             "EtherCAT slave controllers (plain memory)"]}
ASSUMPTIONS = [
    "asyncio's FIFO order of call_soon callbacks is kept (ebpfcat relies on it); the "
    "explored nondeterminism is arrival time/order of frames, timer ties, client timing "
    "and cancellation instants",
    "a request cancelled before it reached the wire may legitimately be sent 0 or 1 times",
    "the ESC/wire model is the trusted base"]
MINE = {"never-fit-stalls-master", "master-stalled", "library-task-died", "never-fit-sent",
        "never-fit-completed", "never-fit-pending", "sent-more-than-once", "never-sent",
        "wire-order", "completed-without-response", "value-despite-wkc0", "wrong-bytes",
        "wrong-bytes-sent", "error-despite-processed", "foreign-exception",
        "never-completed"}


def run_long_history(tape):
    """one request whose frame is held back for long while thousands of later requests are
    served (in few runs: more than 65536 of them, i.e. more than any 16-bit frame number
    can tell apart): the late frame still completes its own request with its own bytes, and
    none of the later ones gets anything but its own"""
    import asyncio
    from ebpfcat.ethercat import ECCmd, EtherCat
    from sim.bus import SimTerminal, WireFaults
    from sim.loop import SimStall
    from sim.seams import Env

    # (the send loop legitimately packs a burst of thousands of queued requests without
    # yielding: its line budget covers the largest burst)
    env = Env(tape, faults=WireFaults(delay_buckets=(50e-6, 20e-6, 120e-6)), stall_limit=200000)
    world, bus = env.world, env.bus
    st = bus.add_terminal(SimTerminal(bus, "T0", station=1001, n_sm=0, n_fmmu=0))
    for a in range(0x1000, 0x9000):
        st.mem[a] = (a * 7 + (a >> 8) * 13 + 5) & 0xff
    long_run = tape.chance("c12/more-than-65536-frames", 2)
    n = 65536 + 300 + tape.draw("c12/extra-frames", 500) if long_run \
        else 200 + tape.draw("c12/frames", 3000)
    # in some runs a burst of more than 4096 frames is lost while the first one is still
    # held back (the table of frames under way only grows meanwhile), and in some a request
    # that cannot be encoded at all (datagram index > 255) is made first: it fails, and
    # nobody else notices
    burst = 0 if long_run or not tape.chance("c12/lost-burst", 30) \
        else 4097 + tape.draw("c12/lost-burst-extra", 700)
    unsendable = tape.chance("c12/unsendable-request-first", 30)
    hold_s = n * 400e-6 + 1.0 + (1.0 if burst else 0)
    ec = EtherCat("sim0")
    violations = []
    held = {}

    def viol(rule, detail, **params):
        if not violations:
            violations.append({"rule": rule, "params": params, "detail": detail})

    def expect(off, k):
        return bytes(st.mem[off:off + k])

    lose = [False]

    def delay_for(no, frame):
        if lose[0]:
            world.count("fault/frame-lost-in-burst")
            return 1e7
        if not held and len(frame) > 30 and frame[26:28] != b"\0\0" and started[0]:
            held["no"] = no
            return hold_s
        return None
    started = [False]
    done = {"late": None, "served": 0}

    async def late_request():
        got = await ec.roundtrip(ECCmd.FPRD, 1001, 0x8800, data=6)
        done["late"] = bytes(got)

    async def main(loop):
        await ec.connect()
        bus.delay_for = delay_for
        if unsendable:
            world.count("c12/unsendable-request")
            try:
                await asyncio.wait_for(
                    ec.roundtrip(ECCmd.FPRD, 1001, 0x1000, data=4,
                                 idx=256 + tape.draw("c12/bad-idx", 1000)), 0.5)
                viol("never-fit-completed", "a request with a datagram index beyond 255 "
                     "completed with a value", long_history=True)
            except asyncio.TimeoutError:
                viol("never-fit-pending", "a request with a datagram index beyond 255 (which "
                     "no frame can carry) neither failed nor completed within 0.5 s",
                     long_history=True)
            except Exception:
                pass
        started[0] = True
        late = asyncio.ensure_future(late_request())
        for _ in range(100):          # its frame leaves on its own, then the others follow
            if held:
                break
            await asyncio.sleep(20e-6)
        lost = []
        if burst and held:
            lose[0] = True
            lost = [asyncio.ensure_future(ec.roundtrip(ECCmd.FPRD, 1001, 0x1000 + i, data=900))
                    for i in range(burst)]
            for _ in range(2000):
                if world.counters.get("fault/frame-lost-in-burst", 0) >= burst:
                    break
                await asyncio.sleep(500e-6)
            lose[0] = False
            world.count("c12/frames-lost-behind-a-held-one",
                        world.counters.get("fault/frame-lost-in-burst", 0))
        for i in range(n):
            off = 0x1000 + (i * 3) % 0x7000
            try:
                got = await asyncio.wait_for(ec.roundtrip(ECCmd.FPRD, 1001, off, data=4), 0.5)
            except asyncio.TimeoutError:
                viol("never-completed", f"request {i} of {n} (after the held frame {held}) "
                     f"did not complete within 0.5 s", long_history=True)
                break
            if bytes(got) != expect(off, 4):
                viol("wrong-bytes", f"request {i} of {n} read {bytes(got).hex()} at {off:#x}, "
                     f"the terminal holds {expect(off, 4).hex()}", long_history=True)
                break
            done["served"] += 1
        try:
            await asyncio.wait_for(late, hold_s + 2.0)
        except asyncio.TimeoutError:
            viol("never-completed", f"the request whose frame was held back for {hold_s:.1f} s "
                 f"never completed although the frame arrived ({done['served']} requests were "
                 f"served meanwhile)", long_history=True)
        for f in lost:
            if f.done() and not f.cancelled() and f.exception() is not None:
                e = f.exception()
                viol("foreign-exception", f"a request of the burst of {burst} (their frames "
                     f"were lost) ended with {type(e).__name__}: {e}",
                     exception=type(e).__name__, long_history=True)
                break
        for f in lost:
            f.cancel()
        if done["late"] is not None and done["late"] != expect(0x8800, 6):
            viol("wrong-bytes", f"the held-back request returned {done['late'].hex()}, the "
                 f"terminal holds {expect(0x8800, 6).hex()}", long_history=True)

    with env:
        try:
            env.run(main, max_iterations=20_000_000)
        except SimStall as e:
            viol("master-stalled", str(e), long_history=True)
        for m, tn, txt in env.loop_exceptions():
            if tn == "error" and unsendable and "format requires" in txt:
                continue    # process_packet fails the unsendable request and re-raises
            if tn != "CancelledError":
                viol("library-task-died", f"{m}: {tn}: {txt}", exception=tn)
    world.count("c12/frames-behind-a-held-one", done["served"])
    return {"violations": violations, "stats": dict(world.counters),
            "digest": world.digest.hexdigest(), "sim_time": world.now,
            "schedule": (n, world.digest.hexdigest()[:12]), "nontrivial": done["served"] >= 100,
            "sample": {"scenario": "long-history", "frames": n, "held_for_s": round(hold_s, 2),
                       "served": done["served"]}}


def run(tape, scenario):
    if scenario == "long-history":
        return run_long_history(tape)
    res = wl_roundtrip.run_workload(
        tape, faults=scenario in ("faults", "fast-master"), fmt_args=False,
        oversize=scenario != "nofault-nooversize", cancels=True,
        fast_master=scenario == "fast-master")
    return wl_roundtrip.attribute(res, MINE)
