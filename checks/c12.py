"""C12 Every datagram request gets exactly its own response"""
from . import wl_roundtrip

PROPERTY = "C12"
LEVEL = "exploration"
SCENARIOS = {"faults": 6, "nofault": 3, "nofault-nooversize": 1, "fast-master": 2}
TIERS = {"quick": {"runs": 6000, "chunk": 40}, "thorough": {"runs": 50000000, "wall_s": 600, "chunk": 200, "recheck": 16}}
RULE = ("one run = 1-8 concurrent client tasks issuing 1-30 EtherCat.roundtrip calls "
        "(sizes 0..1472 and beyond, bursts in one loop iteration, short wait_for "
        "timeouts, client cancellation) against plain-memory terminals on the simulated "
        "wire (loss/dup/delay/reorder, unprocessed datagrams, all drawn from one tape); "
        "in 'fast-master' the master is a FastEtherCat, i.e. every returning frame passes the "
        "real EtherXDP dispatcher byte code, and packet indices are biased towards values "
        "that look like a sync group's slot number in their low bits; "
        "distinct = distinct SHA-256 of the full event log (every tx/rx frame, submit "
        "and completion with global sequence numbers); non-trivial = at least 2 "
        "requests and 1 frame")
COMPONENTS = {
    "real": ["ebpfcat.ethercat.EtherCat.connect/connection_made/sendloop/process_packet/"
             "roundtrip_packet/roundtrip/datagram_received", "ebpfcat.ethercat.Packet",
             "asyncio tasks/futures/queues/wait_for (CPython)"],
    "stub": ["event loop clock+selector (SimLoop)", "AF_PACKET socket", "wire with faults",
             "EtherCAT slave controllers (plain memory)"]}
ASSUMPTIONS = [
    "asyncio's FIFO order of call_soon callbacks is kept (ebpfcat relies on it); the "
    "explored nondeterminism is arrival time/order of frames, timer ties, client timing "
    "and cancellation instants",
    "a request cancelled before it reached the wire may legitimately be sent 0 or 1 times",
    "the ESC/wire model is the trusted base"]
MINE = {"never-fit-stalls-master", "master-stalled", "library-task-died", "never-fit-sent",
        "never-fit-completed", "never-fit-pending", "sent-more-than-once", "never-sent",
        "wire-order", "completed-without-response", "value-despite-wkc0", "wrong-bytes",
        "wrong-bytes-sent", "error-despite-processed", "foreign-exception",
        "never-completed"}


def run(tape, scenario):
    res = wl_roundtrip.run_workload(
        tape, faults=scenario in ("faults", "fast-master"), fmt_args=False,
        oversize=scenario != "nofault-nooversize", cancels=True,
        fast_master=scenario == "fast-master")
    return wl_roundtrip.attribute(res, MINE)
