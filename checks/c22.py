"""C22 The dispatcher keeps fast groups running under loss and injection"""
import asyncio
import struct

from sim.seams import Env

PROPERTY = "C22"
LEVEL = "exploration"
SCENARIOS = {"fifo": 3, "anyorder": 2, "foreign": 1}
TIERS = {"quick": {"runs": 8000, "chunk": 30}, "thorough": {"runs": 50000000, "wall_s": 600, "chunk": 150, "recheck": 16}}
RULE = ("one run = the real EtherXDP dispatcher byte code (generated and attached through "
        "FastEtherCat.connect) plus 0-2 marker group programs registered through "
        "FastEtherCat.register_sync_group, executed by the eBPF interpreter; a seeded "
        "adversary plays wire and user space for up to 200 passes: deliver an in-flight "
        "frame (FIFO or any order), lose one, inject a fresh frame (stamp 0) while fewer "
        "than 3 of the group are in flight, deliver foreign frames (incl. unregistered group "
        "numbers from the slow path's range and numbers that alias a registered group in "
        "their low 6/8/16/24/31 bits); invariants after every "
        "pass; distinct = distinct abstract states (registered?, counter parity, multiset "
        "of stamp-counter of the in-flight frames); this is seeded search, not the "
        "exhaustive breadth-first exploration the property text mentions")
RULE += '; since the 4th session a fifth of the frames are longer than 255 bytes and groups may be unregistered in mid-history (slot and books empty, frames under way judged as unregistered)'
COMPONENTS = {
    "real": ["ebpfcat.ebpfcat.EtherXDP.program byte code", "FastEtherCat.connect/"
             "register_sync_group", "XDP.attach/load, ArrayMap.init, prog array handling "
             "in ebpfcat.bpf", "ebpfcat code generator (ebpf.py, xdp.py, arraymap.py)"],
    "stub": ["bpf() kernel side incl. tail calls (SimKernel, no verifier)", "eBPF interpreter "
             "(fidelity-tested against the real kernel)", "netlink attach", "event loop"]}
ASSUMPTIONS = [
    "liveness verdict as calibrated against the real kernel (DESIGN.md, C22): FIFO "
    "histories: at most 2 consecutive passes of a registered group's frames without its "
    "program; any-order histories: at most 2 consecutive re-transmissions without it",
    "at most three frames of a group in flight"]

TX, PASS = 3, 2


UNPADDED = [False]       # per run: the interface does not pad frames to 60 bytes (veth, tap)


def mkframe(group, ethertype_user, size, stamp=0, cmd0=0, ether=0x88A4, body=None):
    """a frame as user space sends it: identification datagram + filler datagram"""
    payload = struct.pack("<HBBIHHHH", 0, cmd0, stamp, group, 0x8002, 0, ethertype_user, 0)
    filler = body if body is not None else bytes((i * 5 + 1) & 0xff for i in range(size))
    payload += struct.pack("<BBiHH", 4, 0, 0x10000000, len(filler), 0) + filler + b"\0\0"
    payload = struct.pack("<H", (len(payload) - 2) | 0x1000) + payload[2:]
    if len(payload) < 46 and not UNPADDED[0]:
        payload += bytes(46 - len(payload))
    return bytearray(b"\xff" * 6 + b"\x02\0\0\0\0\x01" + struct.pack("!H", ether) + payload)


def run(tape, scenario):
    from ebpfcat.arraymap import ArrayMap
    from ebpfcat.ebpfcat import FastEtherCat
    from ebpfcat.xdp import XDP, XDPExitCode

    class Marker(XDP):
        license = "GPL"
        minimumPacketSize = 40
        vars = ArrayMap()
        runs = vars.globalVar("I")

        def program(self):
            self.runs += 1
            self.pB[39] = self.pB[39] + 1
            self.exit(XDPExitCode.TX)

    env = Env(tape, with_kernel=True)
    world = env.world
    kernel = env.kernel
    UNPADDED[0] = tape.chance("c22/unpadded-frames", 30)
    violations = []
    states = set()
    history = []

    def viol(rule, detail, **params):
        if not violations:
            violations.append({"rule": rule, "params": params, "detail": detail})

    def frame_size():
        """bytes of process data in a group's frame: mostly a few, sometimes those of a
        large group (EtherCAT length of 256 and more, up to the largest frame)"""
        if tape.chance("c22/long-frame", 20):
            world.count("c22/frame-longer-than-255-bytes")
            return 230 + tape.draw("c22/long-size", 1200)
        return (8 if not UNPADDED[0] else 0) + tape.draw("c22/size", 40)

    ec = FastEtherCat("sim0")
    stage = ["connect"]
    groups = {}          # slot -> dict(marker, runs, inflight, noprog_passes, noprog_tx)
    unreg = {}           # group number -> in-flight frames of unregistered groups

    main_stack = []
    filled = set()       # program table slots taken by other masters' groups

    async def main(loop):
        try:
            await main_body(loop)
        finally:
            # unregister whatever was registered, also after a violation ended the run
            for cm in reversed(main_stack):
                try:
                    cm.__exit__(None, None, None)
                except Exception as e:
                    if not violations:
                        viol("unregister-failed", f"{type(e).__name__}: {e}",
                             exception=type(e).__name__)

    async def main_body(loop):
        await ec.connect()
        stage[0] = "register"
        with_groups = tape.draw("c22/ngroups", 3) if scenario != "foreign" else 1
        # a second master on the same program table, as another process that found the
        # pinned table has it (ParallelEtherCat: self.programs = obj_get(...)); slot numbers
        # are then drawn towards the ones already taken
        masters = [ec]
        if with_groups >= 2 and tape.chance("c22/second-master", 50):
            ec2 = FastEtherCat("sim0")
            ec2.programs = ec.programs
            masters.append(ec2)
            world.count("c22/second-master-on-the-table")
        if with_groups and tape.chance("c22/table-nearly-full", 12):
            # many groups of other masters are registered already: 60-63 of the 64 slots
            from ebpfcat.bpf import update_elem
            filler = Marker()
            filler.load()
            nfree = 1 + with_groups + tape.draw("c22/free-slots", 3)
            slots = tape.shuffle("c22/filled-slots", list(range(64)))[:64 - nfree]
            for i in slots:
                update_elem(ec.programs, struct.pack("<I", i),
                            struct.pack("<I", filler.file_descriptor))
            filled.update(slots)
            world.count("c22/program-table-nearly-full")
        env.collide["rand/ebpfcat"] = lambda a, b: (
            tape.pick("c22/slot-collide", sorted(set(groups) | filled))
            if (groups or filled) and (a, b) == (0, 63)
            and tape.chance("c22/collide-slot", 50) else None)
        if tape.chance("c22/lookup-faults", 15):
            # looking a slot up fails now and then for another reason than "empty"
            kernel.command_fault = lambda cmd: (
                tape.pick("fault/bpf-errno", [12, 1, 4])
                if cmd == 1 and stage[0] == "register" and tape.chance("fault/bpf-lookup-fails", 15)
                else 0)
        stack = main_stack
        for _ in range(with_groups):
            m = Marker()
            master = tape.pick("c22/registering-master", masters)
            cm = master.register_sync_group(m)
            try:
                idx = cm.__enter__()
            except OSError as e:
                if getattr(kernel, "command_fault", None) is None:
                    raise
                world.count("c22/registration-refused-after-failed-lookup")
                continue
            stack.append(cm)
            if idx in filled:
                viol("slot-handed-out-twice", f"program table slot {idx} belongs to another "
                     f"master's group and was given away")
                return
            if idx in groups:
                viol("slot-handed-out-twice", f"program table slot {idx} was given to a "
                     f"second group while the first is registered")
                return
            groups[idx] = dict(marker=m, runs=0, inflight=[], noprog=0, noprog_tx=0,
                               noprog_user=0, prog=None, cm=cm, master=master)
        env.collide.pop("rand/ebpfcat", None)
        kernel.command_fault = None
        # the per-group loop counters are 32 bit and only their low byte travels in the
        # frame: start them anywhere (as after a long history), biased to the wrap-arounds
        if groups and tape.chance("c22/preset-counter", 60):
            cs = list(ec.ebpf.counters)
            for g in list(groups) + [63, 0]:
                base = tape.pick("c22/counter-base", [0xf8, 0x1f8, 0xffffff00, 0xfffffff8,
                                                      0x7ffffff8, 0])
                cs[g] = (base + tape.draw("c22/counter-off", 12)) & 0xffffffff
            ec.ebpf.counters = tuple(cs)
        stage[0] = "play"
        prog = kernel.xdp.get(env.bus.ifindex)
        if prog is None:
            viol("dispatcher-not-attached", "no XDP program attached after connect()")
            return
        play(prog)

    def counters():
        return ec.ebpf.counters

    def abstract():
        out = []
        cs = counters()
        for g, st in sorted(groups.items()):
            c = cs[g] & 0xff
            out.append((True, c & 1, tuple(sorted((f[17] - c) & 0xff for f in st["inflight"]))))
        for g, fl in sorted(unreg.items()):
            c = cs[g] & 0xff if g < 64 else 0
            out.append((False, c & 1, tuple(sorted((f[17] - c) & 0xff for f in fl))))
        return tuple(out)

    def one_pass(prog, frame, g, registered):
        before = bytes(frame)
        cbefore = counters()
        action, inst = kernel.run_xdp(prog, frame)
        world.count("c22/passes")
        ran = len(inst.tail_calls) > 0
        if action not in (TX, PASS):
            viol("frame-dropped", f"group {g} frame stamp {before[17]} counter "
                 f"{cbefore[g] if g < 64 else None}: XDP action {action}", action=action)
            return action, ran
        changed = [i for i in range(len(before)) if before[i] != frame[i]]
        allowed = {12, 13, 17} | ({39} if ran else set())
        if len(frame) != len(before) or not set(changed) <= allowed:
            viol("frame-bytes-changed", f"group {g}: bytes {changed} changed, allowed {sorted(allowed)}")
        cafter = counters()
        for k in range(64):
            if k != g and cafter[k] != cbefore[k]:
                viol("foreign-counter-changed", f"frame of group {g} changed counter {k}")
        if action == TX:
            if frame[17] != cafter[g] & 0xff:
                viol("stamp-counter-disagree", f"group {g}: re-transmitted with stamp "
                     f"{frame[17]}, counter is {cafter[g]}")
            if frame[12:14] != before[12:14]:
                viol("ethertype-changed-on-tx", f"group {g}")
        else:
            want = before[26:28]
            if frame[12:14] != bytes([want[1], want[0]]):
                viol("pass-with-wrong-ethertype", f"group {g}: handed to user space with "
                     f"ethertype {frame[12:14].hex()}, identification datagram says "
                     f"{want[::-1].hex()}")
        if ran:
            if not registered:
                viol("tail-call-into-unregistered-group", f"group {g}")
            else:
                st = groups[g]
                new_runs = st["marker"].runs
                if new_runs != st["runs"] + 1:
                    viol("wrong-program-ran", f"group {g}: marker count {st['runs']} -> {new_runs}")
                st["runs"] = new_runs
                if action != TX:
                    viol("program-ran-but-not-tx", f"group {g}: action {action}")
        return action, ran

    def play(prog):
        fifo = scenario == "fifo"
        nsteps = 20 + tape.draw("c22/steps", 180)
        unreg_groups = []
        if scenario == "foreign" or tape.chance("c22/with-unregistered", 40):
            free = [g for g in range(64) if g not in groups and g not in filled]
            kind = tape.draw("c22/big-kind", 4)
            if kind == 0 or not groups:
                big = 64 + tape.draw("c22/big", 1000)
            elif kind == 1:
                # what the slow path of the library uses as a group number
                big = 2000 + tape.draw("c22/big-random", 1_000_000_000 - 2000)
            else:
                # a number that equals a registered group in its low 6/8/16/24/31 bits
                shift = tape.pick("c22/alias-shift", [16, 8, 6, 24, 31])
                k = 1 if shift == 31 else 1 + tape.draw("c22/alias-k", 3)
                big = tape.pick("c22/alias-of", sorted(groups)) + (k << shift)
                world.count("c22/unregistered-number-aliases-registered")
            unreg_groups = [tape.pick("c22/unreg", free), big]
            for g in unreg_groups:
                unreg[g] = []
        last_tx = {}  # unregistered group -> was its previous pass a re-transmission?

        def deliver_unreg(prog, g, i):
            frame = unreg[g].pop(i)
            action, ran = one_pass(prog, frame, g, False)
            if action == TX:
                unreg[g].append(frame)
                if last_tx.get(g):
                    viol("unregistered-frame-circulates",
                         f"two consecutive passes of unregistered group {g} were both "
                         f"sent back onto the bus (history {history[-10:]})")
            last_tx[g] = action == TX
        for step in range(nsteps):
            states.add(abstract())
            if violations:
                return
            choices = []
            for g, st in groups.items():
                if st["inflight"]:
                    choices.append(("deliver", g))
                    choices.append(("lose", g))
                if len(st["inflight"]) < 3:
                    choices.append(("inject", g))
                    choices.append(("inject", g))
            for g in unreg_groups:
                if unreg[g]:
                    choices.append(("deliver-unreg", g))
                if len(unreg[g]) < 3:
                    choices.append(("inject-unreg", g))
            choices.append(("foreign", None))
            if scenario != "foreign":
                choices = [c for c in choices if c[0] != "foreign"] or choices
                if tape.chance("c22/foreign-now", 5):
                    choices = [("foreign", None)]
            if groups and scenario != "foreign" and tape.chance("c22/unregister-now", 2):
                # a group leaves while the dispatcher stays: its slot is empty again, and
                # what is still under way of it is treated like any group without program
                choices = [("unregister", tape.pick("c22/leaving-group", sorted(groups)))]
            what, g = tape.pick("c22/action", choices)
            history.append((what, g))
            if what == "unregister":
                st = groups.pop(g)
                world.count("c22/group-unregistered-while-frames-are-under-way"
                            if st["inflight"] else "c22/group-unregistered")
                try:
                    main_stack.remove(st["cm"])
                    st["cm"].__exit__(None, None, None)
                except Exception as e:
                    viol("unregister-failed", f"group {g}: {type(e).__name__}: {e}",
                         exception=type(e).__name__)
                    return
                if kernel.obj(ec.programs).prog_at(g) is not None:
                    viol("program-still-in-table", f"slot {g} still holds the program of the "
                         f"group that has left")
                    return
                if g in st["master"].sync_groups:
                    viol("group-still-registered", f"group {g} is still in the master's books")
                    return
                unreg[g] = st["inflight"]
                unreg_groups.append(g)
            elif what == "inject":
                st = groups[g]
                size = frame_size()
                st["inflight"].append(mkframe(g, 0x4000 + g, size))
                world.count("fault/frame-injected")
            elif what == "lose":
                st = groups[g]
                i = 0 if fifo else tape.draw("c22/which", len(st["inflight"]))
                st["inflight"].pop(i)
                world.count("fault/frame-lost")
            elif what == "deliver":
                st = groups[g]
                i = 0 if fifo else tape.draw("c22/which", len(st["inflight"]))
                if i:
                    world.count("fault/frame-reordered")
                frame = st["inflight"].pop(i)
                action, ran = one_pass(prog, frame, g, True)
                if action == TX:
                    st["inflight"].append(frame)
                if ran:
                    st["noprog"] = st["noprog_tx"] = st["noprog_user"] = 0
                else:
                    if action == PASS:
                        # second reading of "pass": frames handed to user space with no
                        # run of the group's program in between (bound 2 in any order)
                        st["noprog_user"] += 1
                        world.counters["c22/noprog-user-run-max"] = max(
                            world.counters["c22/noprog-user-run-max"], st["noprog_user"])
                        if st["noprog_user"] > 2:
                            viol("group-program-starved",
                                 f"group {g}: {st['noprog_user']} consecutive frames were "
                                 f"handed to user space without the group's program running "
                                 f"in between (history {history[-14:]})", mode="handed-to-user")
                    st["noprog"] += 1
                    if action == TX:
                        st["noprog_tx"] += 1
                    world.counters["c22/noprog-run-max"] = max(
                        world.counters["c22/noprog-run-max"], st["noprog"])
                    if fifo and st["noprog"] > 2:
                        viol("group-program-starved",
                             f"group {g}: {st['noprog']} consecutive passes without the "
                             f"group's program (FIFO history {history[-12:]})", mode="fifo")
                    if not fifo and st["noprog_tx"] > 2:
                        viol("group-program-starved",
                             f"group {g}: {st['noprog_tx']} consecutive re-transmissions "
                             f"without the group's program", mode="anyorder")
            elif what == "inject-unreg":
                f = mkframe(g, 0x5000 + (g & 0xff), frame_size())
                unreg[g].append(f)
            elif what == "deliver-unreg":
                i = 0 if fifo else tape.draw("c22/which", len(unreg[g]))
                deliver_unreg(prog, g, i)
            else:
                foreign(prog)
        # bounded liveness once injections have stopped: the frames of a group
        # without a program all reach user space within 2n passes
        for g in unreg_groups:
            budget = 2 * len(unreg[g])
            while unreg[g] and budget and not violations:
                deliver_unreg(prog, g, 0)
                budget -= 1
            if unreg[g] and not violations:
                viol("unregistered-frame-circulates",
                     f"{len(unreg[g])} frame(s) of unregistered group {g} still on the bus "
                     f"after injections stopped and 2n more passes")

    def foreign(prog):
        if True:
            if True:
                kind = tape.draw("c22/foreign-kind", 5)
                size = frame_size() if tape.chance("c22/long-foreign", 15) \
                    else 8 + tape.draw("c22/size", 60)
                if kind == 0:
                    f = mkframe(3, 0x4003, size, ether=0x0800)            # not EtherCAT
                elif kind == 1:
                    f = mkframe(3, 0x4003, size, cmd0=1 + tape.draw("c22/cmd0", 14))
                elif kind == 2:
                    f = bytearray(mkframe(3, 0x4003, 4)[:14 + 2 + tape.draw("c22/short", 15)])
                elif kind == 3:
                    f = mkframe(3, 0x4003, size, ether=0x88A5)
                else:
                    f = bytearray(b"\xff" * 6 + b"\x02\0\0\0\0\x01\x88\xa4" + tape.bytes("c22/junk", 20))
                    f[16] = 7
                before = bytes(f)
                cbefore = counters()
                action, inst = kernel.run_xdp(prog, f)
                world.count("c22/foreign-passes")
                if action != PASS or bytes(f) != before:
                    viol("foreign-frame-not-passed-unchanged",
                         f"kind {kind} len {len(before)}: action {action}, changed="
                         f"{bytes(f) != before}", kind=kind)
                if counters() != cbefore or inst.tail_calls:
                    viol("foreign-frame-touched-state", f"kind {kind}")

    def _unused():
        pass

    with env:
        try:
            env.run(main)
        except Exception as e:
            from sim.cpu import CpuFault
            if isinstance(e, CpuFault):
                viol("interpreter-fault", f"{e}", stage=stage[0])
            elif stage[0] == "connect":
                viol("dispatcher-cannot-be-generated",
                     f"FastEtherCat.connect(): {type(e).__name__}: {e}", exception=type(e).__name__)
            else:
                viol("setup-failed", f"{stage[0]}: {type(e).__name__}: {e}",
                     exception=type(e).__name__, stage=stage[0])
    return {
        "violations": violations, "stats": dict(world.counters),
        "digest": world.digest.hexdigest(), "sim_time": world.now,
        "schedule": repr(history), "states": states,
        "nontrivial": len(history) >= 10,
        "sample": {"scenario": scenario, "groups": sorted(groups), "history": history[:40]},
    }
