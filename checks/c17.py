"""C17 EEPROM contents and derived layouts are decoded exactly"""
import asyncio
import struct

from sim import sii
from sim.bus import SimTerminal, WireFaults
from sim.coe import ObjectDictionary
from sim.fixtures import MailboxAdapter
from sim.coe import CoEServer
from sim.loop import SimStall
from sim.seams import Env

PROPERTY = "C17"
LEVEL = "exploration"
SCENARIOS = {"eeprom-pdos": 3, "sdo-pdos": 2, "ebpf-terminal": 2}
TIERS = {"quick": {"runs": 4200, "chunk": 20}, "thorough": {"runs": 50000000, "wall_s": 600, "chunk": 100, "recheck": 16}}
RULE = ("one run = 1-3 simulated terminals, each with a tape-generated well-formed SII "
        "image (identity, 0-8 categories of distinct random types - standard, NOP (0), low and "
        "vendor-specific up to 0xfffe - with lengths 0..23 words and random contents, a "
        "sync-manager category with mailbox and/or process-data entries, TxPDO/RxPDO "
        "categories with bit and byte entries, bit fields starting in mid-byte, padding entries "
        "(index 0) of 1..23 bits and byte-aligned gaps), EEPROM interface in 4- or 8-byte mode, "
        "busy 0..3 polls after each command, read concurrently through the real "
        "Terminal.initialize/read_eeprom/parse_pdos (EEPROM path, SDO path against CoE "
        "objects 0x1C12/0x1C13, and the EBPFTerminal.apply_eeprom flow); results compared "
        "with the generating description; distinct = distinct images x modes x busy "
        "patterns (event-log digest); non-trivial = at least 3 categories or 3 PDO entries")
RULE += '; since the 4th session identity fields also sit at their 32-bit boundaries and the EEPROM interface may still be busy with an abandoned command when the read starts'
RULE += '; also bring-ups given up once or twice at any moment and repeated with the same object, and a read width that changes between two reads'
COMPONENTS = {
    "real": ["ebpfcat.ethercat.Terminal.initialize/apply_eeprom/read_eeprom/"
             "_eeprom_read_one/parse_sync_managers/parse_pdos", "EtherCat.eeprom_read",
             "ebpfcat.ebpfcat.EBPFTerminal.apply_eeprom/write_pdo_sm", "sdo_read path"],
    "stub": ["event loop", "socket", "wire", "ESC EEPROM interface + SM registers + AL",
             "CoE SDO server"]}
ASSUMPTIONS = ["images are well-formed: categories complete, PDO byte entries byte-aligned, "
               "entry widths in {1..7 bits, 8, 16, 32, 64}",
               "multi-bit (2-7 bit) entries are judged for byte offset and start bit only"]

FMT = {8: "B", 16: "H", 32: "I", 64: "Q"}


def gen_pdos(tape, base_index, label):
    """-> (list for sii.pdo_category, expected {(idx, sub): (byteoff, bit or fmt)}, bits)"""
    pdos = []
    expect = {}
    bitpos = 0
    npdo = tape.draw(f"{label}/npdo", 4)
    for p in range(npdo):
        entries = []
        for e in range(tape.draw(f"{label}/nent", 6)):
            kind = tape.draw(f"{label}/kind", 4)
            idx = base_index + 0x10 * p
            sub = 1 + e
            if kind == 0:                      # a group of single bits + padding
                nb = 1 + tape.draw(f"{label}/nbits", 8)
                for b in range(nb):
                    entries.append((idx, sub + 0x20 * b, 1))
                    expect[(idx, sub + 0x20 * b)] = (bitpos // 8, bitpos % 8)
                    bitpos += 1
                room = -bitpos % 8
                if room >= 2 and tape.chance(f"{label}/field-after-bits", 30):
                    # a 2..room bit field that starts in the middle of the byte
                    w = 2 + tape.draw(f"{label}/w2", room - 1)
                    entries.append((idx, sub + 0x10, w))
                    expect[(idx, sub + 0x10)] = (bitpos // 8, bitpos % 8)
                    bitpos += w
                if bitpos % 8:
                    # one padding entry (index 0) up to the next byte, or - as terminals with
                    # 16-bit status words have it - up to one or two bytes further
                    pad = 8 - bitpos % 8 + 8 * tape.pick(f"{label}/padbytes", [0, 0, 1, 2])
                    entries.append((0, 0, pad))
                    bitpos += pad
                elif tape.chance(f"{label}/aligned-gap", 20):
                    pad = tape.pick(f"{label}/gapbits", [8, 16, 24, 32, 40])
                    entries.append((0, 0, pad))
                    bitpos += pad
            elif kind == 1 and bitpos % 8 == 0:   # a 2..7 bit field then padding
                w = 2 + tape.draw(f"{label}/w", 6)
                entries.append((idx, sub, w))
                expect[(idx, sub)] = (bitpos // 8, bitpos % 8)
                bitpos += w
                entries.append((0, 0, 8 - w))
                bitpos += 8 - w
            else:
                bits = tape.pick(f"{label}/bytes", [8, 16, 32, 64, 16, 8])
                entries.append((idx, sub, bits))
                expect[(idx, sub)] = (bitpos // 8, FMT[bits])
                bitpos += bits
        pdos.append((0x1600 + p if base_index >= 0x7000 else 0x1a00 + p, 0, entries))
    if pdos and tape.chance(f"{label}/trailing-bits", 30):
        # a last group of single bits that is not padded to a byte boundary
        idx = base_index + 0x800
        for b in range(1 + tape.draw(f"{label}/ntrail", 7)):
            pdos[-1][2].append((idx, 1 + b, 1))
            expect[(idx, 1 + b)] = (bitpos // 8, bitpos % 8)
            bitpos += 1
    return pdos, expect, bitpos


def run(tape, scenario):
    from ebpfcat.ethercat import EEPROM, EtherCat, MachineState, SyncManager, Terminal
    from ebpfcat.terminals import Generic

    env = Env(tape, faults=WireFaults(delay_buckets=(50e-6, 20e-6, 150e-6)))
    world = env.world
    nterm = 1 + tape.draw("c17/nterm", 3)
    ec = EtherCat("sim0")
    specs = []
    for k in range(nterm):
        ident = (tape.draw("c17/vendor", 1 << 32), tape.draw("c17/product", 1 << 32),
                 tape.draw("c17/revision", 1 << 32), 1 + tape.draw("c17/serial", 1 << 31))
        if tape.chance("c17/identity-at-a-boundary", 20):
            # an identity field at the edge of its 32 bits (unprogrammed: all ones)
            which = tape.draw("c17/boundary-field", 4)
            edge = tape.pick("c17/boundary-value", [0xffffffff, 0x80000000, 0xfffffffe, 0, 0x7fffffff])
            ident = ident[:which] + (edge,) + ident[which + 1:]
        out_pdos, out_expect, outbits = gen_pdos(tape, 0x7000, "c17/rx")
        in_pdos, in_expect, inbits = gen_pdos(tape, 0x6000, "c17/tx")
        with_mbx = scenario == "sdo-pdos" or (scenario == "ebpf-terminal"
                                              and tape.chance("c17/ebpf-mbx", 40))
        mbx_sz = tape.pick("c17/mbxsz", [64, 128, 48, 256])
        layout = []      # (start, length, control)
        if with_mbx:
            layout += [(0x1000, mbx_sz, 0x26), (0x1080 + mbx_sz, mbx_sz, 0x22)]
        outsz, insz = (outbits + 7) // 8, (inbits + 7) // 8
        if scenario != "ebpf-terminal":
            # the SII sizes are independent of the PDO description here
            outsz = tape.draw("c17/sm-outsz", 40)
            insz = tape.draw("c17/sm-insz", 40)
        if tape.chance("c17/has-out-sm", 85) or scenario == "ebpf-terminal":
            layout.append((0x1800, outsz, 0x64))
        if tape.chance("c17/has-in-sm", 85) or scenario == "ebpf-terminal":
            layout.append((0x1c00, insz, 0x20))
        cats = []
        pool = [10, 30, 40, 60, 70] + [0x100 + tape.draw("c17/cattype", 0x7000) for _ in range(4)]
        if tape.chance("c17/odd-types", 50):
            # NOP (0), the low standard types and the vendor specific range up to 0xfffe
            pool += tape.shuffle("c17/oddtypes", [0, 1, 2, 3, 0x8001, 0xfffe])[:3]
        pool = list(dict.fromkeys(pool))
        ncat = tape.draw("c17/ncat", 6)
        chosen = tape.shuffle("c17/catorder", pool)[:ncat]
        generic = {}
        for typ in chosen:
            words = tape.draw("c17/catlen", 24)
            data = tape.bytes("c17/catdata", min(words * 2, 6)) + bytes(
                (typ + i) & 0xff for i in range(max(0, words * 2 - 6)))
            generic[typ] = data[:words * 2]
        structured = {}
        has41 = scenario != "eeprom-pdos" or tape.chance("c17/has-41", 90)
        if has41 and layout:
            structured[41] = b"".join(sii.syncm_entry(s, l, c) for s, l, c in layout)
        if not with_mbx:
            if out_pdos:
                structured[51] = sii.pdo_category(out_pdos)
            if in_pdos:
                structured[50] = sii.pdo_category(in_pdos)
        allcats = list(generic.items()) + list(structured.items())
        allcats = tape.shuffle("c17/catshuffle", allcats)
        image = sii.build(*ident, categories=allcats)
        od = server = adapter = None
        if with_mbx:
            od = ObjectDictionary()
            for assign, pdos in ((0x1c12, out_pdos), (0x1c13, in_pdos)):
                od.set(assign, 0, bytes([len(pdos)]))
                for i, (pidx, _, entries) in enumerate(pdos, 1):
                    od.set(assign, i, struct.pack("<H", pidx))
                    od.set(pidx, 0, bytes([len(entries)]))
                    for j, (idx, sub, bits) in enumerate(entries, 1):
                        od.set(pidx, j, struct.pack("<BBH", bits, sub, idx))
            server = CoEServer(od, mbx_sz, mbx_sz, station=0)
            adapter = MailboxAdapter(server)
        st = SimTerminal(env.bus, f"T{k}", n_fmmu=1 + tape.draw("c17/nfmmu", 4), n_sm=4,
                         eeprom=image, eeprom_8byte=not tape.chance("c17/4byte", 50),
                         mailbox_app=adapter)
        maxbusy = tape.draw("c17/maxbusy", 4)
        # "however long it reports busy": in some runs one read of this terminal stays busy
        # for hundreds of polls
        long_at = tape.draw("c17/long-busy-at", 40) if tape.chance("c17/long-busy", 12) else None
        calls = [0]

        def ee_delay(maxbusy=maxbusy, long_at=long_at, calls=calls):
            calls[0] += 1
            if calls[0] - 1 == long_at:
                world.count("c17/eeprom-busy-for-hundreds-of-polls")
                if tape.chance("c17/longer-busy", 25):
                    return 1000 + tape.draw("c17/longest-busy-polls", 300)
                return 150 + tape.draw("c17/long-busy-polls", 500)
            return tape.draw("c17/busy", maxbusy + 1)
        st.ee_delay = ee_delay
        st.ee_junk = lambda: tape.bytes("c17/junk", 4)
        st.mbx_delay = lambda: tape.draw("c17/mbx-delay", 3)
        env.bus.add_terminal(st)
        specs.append(dict(ident=ident, cats=dict(allcats), layout=layout, has41=41 in dict(allcats),
                          out_expect=out_expect, in_expect=in_expect, outbits=outbits,
                          inbits=inbits, with_mbx=with_mbx, st=st, server=server,
                          ncat=len(allcats), generic=sorted(generic)))

    results = [None] * nterm
    terms = [None] * nterm

    async def bring_up(k):
        cls = Generic if scenario == "ebpf-terminal" else Terminal
        t = cls(ec)
        t.name = f"T{k}"
        terms[k] = t
        await asyncio.sleep([0, 0, 50e-6, 400e-6][tape.draw("c17/stagger", 4)])
        if tape.chance("c17/eeprom-busy-at-the-start", 20):
            # the EEPROM interface is still working on a command somebody gave it and
            # walked away from (a reader that was cancelled, another master's tool): it
            # stays busy for some polls and then shows that command's bytes
            st = specs[k]["st"]
            keep = st.ee_delay
            st.ee_delay = lambda: 2 + tape.draw("c17/leftover-busy", 12)
            st._ee_command(struct.pack("<HI", 0x100, 0x20 + 4 * tape.draw("c17/leftover-addr", 8)))
            st.ee_delay = keep
            world.count("c17/eeprom-interface-busy-with-a-leftover-command")
        if tape.chance("c17/bring-up-given-up-and-repeated", 15):
            # the bring-up is given up once or twice (its caller timed out) at any moment,
            # also in the middle of an EEPROM command, and then repeated with the same
            # Terminal object
            for attempt in range(1 + tape.draw("c17/given-up-twice", 2)):
                first = asyncio.ensure_future(t.initialize(relative=-k))
                await asyncio.sleep([50e-6, 200e-6, 600e-6, 1.5e-3, 4e-3][
                    tape.draw("c17/given-up-after", 5)])
                if not first.done():
                    first.cancel()
                    world.count("c17/bring-up-given-up")
                try:
                    await first
                except (asyncio.CancelledError, Exception):
                    pass
        await t.initialize(relative=-k)
        r = {}
        if scenario == "ebpf-terminal":
            r["bits"] = (t.pdo_out_sz, t.pdo_in_sz)
        elif specs[k]["has41"] or specs[k]["with_mbx"]:
            if specs[k]["with_mbx"]:
                # the SDO path needs PRE-OP for the mailbox
                await t.to_operational(MachineState.PRE_OPERATIONAL)
            r["bits"] = await t.parse_pdos()
        r["serial"] = await ec.eeprom_read(-k, EEPROM.SERIAL_NO)
        if scenario != "ebpf-terminal" and specs[k]["generic"] \
                and tape.chance("c17/read-again-after-change", 25):
            # the EEPROM is rewritten (a firmware update dropped a category, changed the
            # serial number) and the same Terminal object reads it again
            sp = specs[k]
            gone = tape.pick("c17/category-gone", sp["generic"])
            cats2 = [(typ, data) for typ, data in sp["cats"].items() if typ != gone]
            ident2 = sp["ident"][:3] + ((sp["ident"][3] + 1) & 0xffffffff,)
            sp["st"].eeprom = sii.build(*ident2, categories=cats2)
            if tape.chance("c17/other-read-width-after-change", 50):
                # (the terminal was exchanged for one whose interface reads the other width)
                sp["st"].eeprom_8byte = not sp["st"].eeprom_8byte
                world.count("c17/eeprom-read-width-changed-between-reads")
            await t.read_eeprom()
            r["reread"] = (ident2, dict(cats2), {typ: bytes(v) for typ, v in t.eeprom.items()},
                           (t.vendorId, t.productCode, t.revisionNo, t.serialNo))
            world.count("c17/eeprom-read-again-after-change")
        results[k] = r

    failure = []

    async def main(loop):
        await ec.connect()
        outs = await asyncio.wait_for(
            asyncio.gather(*[bring_up(k) for k in range(nterm)], return_exceptions=True), 30)
        for k, o in enumerate(outs):
            if isinstance(o, BaseException):
                failure.append((k, o))

    violations = []

    def viol(rule, detail, **params):
        if not violations:
            violations.append({"rule": rule, "params": params, "detail": detail})

    with env:
        try:
            env.run(main)
        except (asyncio.TimeoutError, SimStall) as e:
            viol("bring-up-did-not-finish", f"{type(e).__name__}: {e}", scenario=scenario)
        for m, tn, txt in env.loop_exceptions():
            viol("library-task-died", f"{m}: {tn}: {txt}", exception=tn)
    for k, e in failure:
        viol("bring-up-raised", f"terminal {k} ({scenario}, mailbox={specs[k]['with_mbx']}, "
             f"cats={sorted(specs[k]['cats'])}): {type(e).__name__}: {e}",
             exception=type(e).__name__, scenario=scenario)
    SM = {2: SyncManager.OUT, 3: SyncManager.IN}
    for k, (sp, t, r) in enumerate(zip(specs, terms, results)):
        if violations or r is None:
            break
        if "reread" in r:
            ident2, cats2, got_cats, got_ident2 = r["reread"]
            if got_ident2 != ident2:
                viol("identity-mismatch", f"terminal {k}, second read: {got_ident2}, image has "
                     f"{ident2}", reread=True)
            if got_cats != cats2:
                viol("category-set-mismatch" if set(got_cats) != set(cats2)
                     else "category-content-mismatch",
                     f"terminal {k}, second read after the image changed: categories "
                     f"{sorted(got_cats)}, image has {sorted(cats2)}", reread=True)
            continue      # (what the first read derived is judged in runs without a re-read)
        got_ident = (t.vendorId, t.productCode, t.revisionNo, t.serialNo)
        if got_ident != sp["ident"]:
            viol("identity-mismatch", f"terminal {k}: read {got_ident}, image has {sp['ident']}")
        if r["serial"] != sp["ident"][3]:
            viol("identity-mismatch", f"terminal {k}: eeprom_read gave serial {r['serial']}, "
                 f"image has {sp['ident'][3]}")
        if set(t.eeprom) != set(sp["cats"]):
            viol("category-set-mismatch", f"terminal {k}: categories {sorted(t.eeprom)}, image "
                 f"has {sorted(sp['cats'])}")
        for typ, data in sp["cats"].items():
            if typ in t.eeprom and bytes(t.eeprom[typ]) != data:
                viol("category-content-mismatch",
                     f"terminal {k} category {typ}: read {bytes(t.eeprom[typ])[:24].hex()} "
                     f"({len(t.eeprom[typ])} bytes), image has {data[:24].hex()} ({len(data)})")
        if sp["has41"]:
            want = dict(mbx_out=(None, None), mbx_in=(None, None), pdo_out=(None, None),
                        pdo_in=(None, None))
            for s, l, c in sp["layout"]:
                key = {6: "mbx_out", 2: "mbx_in", 4: "pdo_out", 0: "pdo_in"}[c & 0xf]
                want[key] = (s, l)
            if scenario == "ebpf-terminal":
                want["pdo_out"] = (want["pdo_out"][0], (sp["outbits"] + 7) // 8)
                want["pdo_in"] = (want["pdo_in"][0], (sp["inbits"] + 7) // 8)
            got = dict(mbx_out=(t.mbx_out_off, t.mbx_out_sz), mbx_in=(t.mbx_in_off, t.mbx_in_sz),
                       pdo_out=(t.pdo_out_off, t.pdo_out_sz), pdo_in=(t.pdo_in_off, t.pdo_in_sz))
            if got != want:
                viol("sync-manager-layout-mismatch", f"terminal {k}: derived {got}, image says {want}")
            # the SM registers of the terminal were programmed from the category
            prog = bytes(sp["st"].mem[0x800:0x800 + 8 * len(sp["layout"])])
            for i, (s, l, c) in enumerate(sp["layout"]):
                rs, rl, rc = struct.unpack_from("<HHB", prog, 8 * i)
                wl = l
                if scenario == "ebpf-terminal" and c & 0xf in (0, 4):
                    wl = want["pdo_out" if c & 0xf == 4 else "pdo_in"][1]
                if (rs, rl, rc) != (s, wl, c):
                    viol("sync-manager-registers-mismatch",
                         f"terminal {k} SM{i}: registers start={rs:#x} len={rl} ctrl={rc:#x}, "
                         f"expected {s:#x}/{wl}/{c:#x}")
        if "bits" in r:
            if scenario != "ebpf-terminal" and tuple(r["bits"]) != (sp["outbits"], sp["inbits"]):
                viol("pdo-bit-count-mismatch", f"terminal {k}: parse_pdos returned {r['bits']}, "
                     f"image has {(sp['outbits'], sp['inbits'])}", path="sdo" if sp["with_mbx"] else "eeprom")
            want = {}
            for key, (off, what) in sp["out_expect"].items():
                want[key] = (SyncManager.OUT, off, what)
            for key, (off, what) in sp["in_expect"].items():
                want[key] = (SyncManager.IN, off, what)
            if dict(t.pdos) != want:
                diff = [(key, t.pdos.get(key), want.get(key))
                        for key in sorted(set(t.pdos) | set(want), key=repr)
                        if t.pdos.get(key) != want.get(key)]
                viol("pdo-map-mismatch", f"terminal {k}: (entry, derived, image) {diff[:4]}",
                     path="sdo" if sp["with_mbx"] else "eeprom")
        if sp["server"] is not None and sp["server"].deviations:
            d = sp["server"].deviations[0]
            viol("protocol-deviation", f"terminal {k}: {d.rule}: {d.detail}", deviation=d.rule)
    nent = sum(len(sp["out_expect"]) + len(sp["in_expect"]) for sp in specs)
    return {
        "violations": violations, "stats": dict(world.counters),
        "digest": world.digest.hexdigest(), "sim_time": world.now,
        "schedule": world.digest.hexdigest(),
        "nontrivial": any(sp["ncat"] >= 3 for sp in specs) or nent >= 3,
        "sample": {"scenario": scenario, "terminals": [
            {"categories": {str(t): len(d) for t, d in sp["cats"].items()},
             "layout": sp["layout"], "eeprom_8byte": sp["st"].eeprom_8byte,
             "mailbox": sp["with_mbx"], "pdo_entries": len(sp["out_expect"]) + len(sp["in_expect"])}
            for sp in specs]},
    }
