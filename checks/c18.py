"""C18 Sync groups give each terminal disjoint, exactly-sized process data"""
import asyncio
import struct

from sim.bus import FPRD, FPWR, LRD, LWR, WireFaults, parse_ecat
from sim.loop import SimStall
from sim.pdfix import IN_OFF, OUT_OFF, PDTerminal, ebpf_terminal, install_cycle_hook
from sim.seams import Env

from . import wl_groups as wl

PROPERTY = "C18"
LEVEL = "exploration"
SCENARIOS = {"one-group": 2, "multi-group": 2, "aerotech": 1, "big": 1}
TIERS = {"quick": {"runs": 6000, "chunk": 20}, "thorough": {"runs": 50000000, "wall_s": 600, "chunk": 100, "recheck": 16}}
RULE = ("one run = 1-10 simulated terminals (input/output sizes 0..max, read-write flag, "
        "FMMU or direct addressing, optionally Aerotech-style with declared packet sizes), "
        "1-3 real slow SyncGroups, each with 1-3 devices that may share terminals (written by "
        "some, only read by others), on one master - an EtherCat or (35 % of the multi-group "
        "runs) a ParallelEtherCat drawing its windows from the FMMULock file, whose allocator "
        "has handed out 0..1024 windows before each group (a terminal is written by at most "
        "one group), started on the simulated bus and cycled; terminals fill their inputs with "
        "a pattern unique to (terminal, offset, cycle) and record what lands in their "
        "outputs; oracles on the returned frames (end-to-end through FMMU emulation), on "
        "the regions of pdo_assign and on the logical windows; 'big' draws sizes that make "
        "groups exceed one frame; distinct = distinct event-log digests; non-trivial = a "
        "group with at least two terminals cycled at least twice")
RULE += '; since the 4th session also: the master connected again with live groups, a restart that is rejected (oversized direct terminal) and then repeated, one more group started after a restart'
RULE += "; also one cyclic frame of the stopped run that comes back after the restart, and a terminal silent while a group's FMMUs are configured (the groups started afterwards are judged)"
COMPONENTS = {
    "real": ["ebpfcat.ebpfcat.SyncGroupBase.allocate/map_fmmu/run", "EBPFTerminal.allocate",
             "ebpfcat.terminals.AerotechBase.allocate", "SterilePacket.append/append_fmmu",
             "EtherCat.get_fmmu_addr", "Terminal.map_fmmu", "SyncGroup.start/update_devices"],
    "stub": ["event loop", "socket", "wire", "ESC with FMMU emulation + process-data app"]}
ASSUMPTIONS = ["a terminal is written by at most one sync group",
               "maximum EtherCAT payload 1500 bytes, at most 15 datagrams besides the "
               "identification datagram (the library's own limits)"]


def run(tape, scenario, want_c11=False):
    from ebpfcat.ebpfcat import Device, PacketVar, SyncGroup, TerminalVar
    from ebpfcat.ethercat import EtherCat, SyncManager
    from ebpfcat.terminals import AerotechBase

    # the master: a plain EtherCat, or (multi-group scenarios) a ParallelEtherCat whose
    # logical windows come from the shared FMMULock file
    parallel = scenario not in ("one-group", "big") and tape.chance("c18/parallel-master", 35)
    env = Env(tape, faults=WireFaults(delay_buckets=(50e-6, 20e-6, 200e-6)), with_fs=parallel)
    world = env.world
    bus = env.bus
    if parallel:
        from ebpfcat.ebpfcat import ParallelEtherCat
        ec = ParallelEtherCat("sim0")
        ec.ethertype = 0x3001
        bus.route_by_data0 = True
    else:
        ec = EtherCat("sim0")
    # sync groups started (and stopped again) before each of this run's groups took that
    # many logical windows from the master's allocator
    AGING = [0, 0, 0, 1, 7, 1000, 1021, 1022, 1023, 1024]
    big = scenario == "big"
    nterm = 1 + tape.draw("c18/nterm", 10)
    specs = []
    for k in range(nterm):
        def size(lbl):
            kind = tape.draw(f"c18/{lbl}-kind", 6)
            if kind == 0:
                return 0
            if big and kind >= 4:
                return 100 + tape.draw(f"c18/{lbl}-big", 500)
            return 1 + tape.draw(f"c18/{lbl}", 24)
        in_sz, out_sz = size("in"), size("out")
        if in_sz == 0 and out_sz == 0:
            in_sz = 2
        aero = scenario == "aerotech" and tape.chance("c18/aero", 50)
        sp = dict(in_sz=in_sz, out_sz=out_sz, n_fmmu=4, aero=aero,
                  use_fmmu=not tape.chance("c18/direct", 30))
        if aero:
            sp["decl_in"] = max(1, in_sz - tape.draw("c18/aero-in-less", 4)) if in_sz else 0
            sp["decl_out"] = max(1, out_sz - tape.draw("c18/aero-out-less", 4)) if out_sz else 0
        specs.append(sp)
    violations = []

    def viol(rule, detail, **params):
        if len(violations) < 20:
            violations.append({"rule": rule, "params": params, "detail": detail})

    class Dev(Device):
        def get_terminals(self):
            return dict(self.term_map)

    ngroups = 1 if scenario in ("one-group", "big") else 1 + tape.draw("c18/ngroups", 3)
    writer_of = {}
    groups = []
    for g in range(ngroups):
        members = {}
        for k in range(nterm):
            if ngroups == 1 or tape.chance("c18/member", 60):
                want_rw = specs[k]["out_sz"] > 0 and k not in writer_of \
                    and tape.chance("c18/rw", 70)
                if want_rw:
                    writer_of[k] = g
                members[k] = want_rw
        if not members:
            members[g % nterm] = False
        # a shared terminal needs FMMUs for every group that maps it
        groups.append(dict(members=members))
    for k in range(nterm):
        need = sum((1 if specs[k]["in_sz"] else 0) + (1 if gr["members"].get(k) else 0)
                   for gr in groups if k in gr["members"] and specs[k]["use_fmmu"])
        if need > specs[k]["n_fmmu"]:
            for gr in groups[1:]:
                gr["members"].pop(k, None)
    groups = [gr for gr in groups if gr["members"]]

    def eff(k, what):
        sp = specs[k]
        if sp["aero"]:
            return sp["decl_in"] if what == "in" else sp["decl_out"]
        return sp[f"{what}_sz"]

    def predicted(gr):
        """independent frame size / datagram count of a group -> (bytes, datagrams)"""
        size, n = 16, 0
        fin = fout = 0
        for k, rw in sorted(gr["members"].items()):
            sp = specs[k]
            if sp["aero"]:
                if sp["in_sz"]:
                    fin += sp["decl_in"]
                    size += 12 + 1
                    n += 1
                if rw and sp["out_sz"]:
                    size += 12 + sp["decl_out"]
                    n += 1
                    if sp["decl_out"] < sp["out_sz"]:     # the buffer-completing write
                        size += 12 + 1
                        n += 1
            elif sp["use_fmmu"]:
                fin += sp["in_sz"]
                fout += sp["out_sz"] if rw else 0
            else:
                if sp["in_sz"]:
                    size += 12 + sp["in_sz"]
                    n += 1
                if rw and sp["out_sz"]:
                    size += 12 + sp["out_sz"]
                    n += 1
        for s in (fin, fout):
            if s:
                size += 12 + s
                n += 1
        return size, n


    if big and tape.chance("c18/fit-boundary", 60):
        # put the group's frame right at the limit: 1500 bytes is the largest that fits
        target = 1500 + tape.pick("c18/fit-delta", [0, 1, 2, -1, 3, -2, 13, -12])
        delta = target - predicted(groups[0])[0]
        for k, rw in sorted(groups[0]["members"].items()):
            for what in ("in", "out"):
                if delta and specs[k][f"{what}_sz"] and (what == "in" or rw):
                    new = min(1000, max(1, specs[k][f"{what}_sz"] + delta))
                    delta -= new - specs[k][f"{what}_sz"]
                    specs[k][f"{what}_sz"] = new
        world.count("c18/fitted-to-boundary" if delta == 0 else "c18/fit-failed")
    sims, terms = [], []
    stations = [1001 + k for k in range(nterm)]
    if tape.chance("c18/shuffle-stations", 50):
        stations = tape.shuffle("c18/station-order", stations)   # ring order != address order
    for k, sp in enumerate(specs):
        st = PDTerminal(bus, f"T{k}", stations[k], sp["in_sz"], sp["out_sz"], n_fmmu=sp["n_fmmu"])
        st.index = k
        st.refresh_inputs()
        bus.add_terminal(st)
        sims.append(st)
        cls = None
        if sp["aero"]:
            cls = type("Aero", (AerotechBase,), dict(in_size=sp["decl_in"],
                                                     out_size=sp["decl_out"]))
        terms.append(ebpf_terminal(ec, st, sp["use_fmmu"], cls))
    install_cycle_hook(bus)

    started = []
    late_frames = set()
    cycles_of = {}
    expected_out = {}     # tx payload -> {terminal: bytes}
    resp_cycle = {}
    orig_ring = bus.ring

    def ring(no, frame):
        cyc = sims[0].cycle
        out = orig_ring(no, frame)
        resp_cycle[bytes(out[14:])] = cyc
        exp = expected_out.get(bytes(frame[14:]))
        if no in late_frames:
            exp = None       # (a frame of a stopped run that reaches the terminals late)
        if exp is not None:
            for t, want in exp.items():
                got = sims[t].outputs()[:len(want)]
                if got != want:
                    viol("terminal-received-foreign-output-bytes",
                         f"terminal {t} received {got[:24].hex()}, its region carried "
                         f"{want[:24].hex()}", aero=specs[t]["aero"])
        return out
    bus.ring = ring

    from .wl_roundtrip import wire_check

    def tx_monitor(no, frame, transport):
        err, dgrams = wire_check(frame)
        if err is not None:
            viol("frame-malformed", f"frame {no}: {err}: {frame[:48].hex()}")
    bus.monitors.append(tx_monitor)

    def check_sterile(gi, sg):
        """C11: a sterile copy differs from the assembled frame only in the command
        byte of the write datagrams, which is NOP"""
        try:
            full = sg.packet.assemble(77, 0x88A4)
            ster = bytes(sg.packet.sterile(77, 0x88A4))
        except Exception as e:
            viol("sterile-differs", f"group {gi}: assemble/sterile raised "
                 f"{type(e).__name__}: {e}", exception=type(e).__name__)
            return
        try:
            _, _, dg = parse_ecat(full)
        except Exception as e:
            viol("frame-malformed", f"group {gi} assembled frame: {e}")
            return
        writers = {d.hdr_pos for d in dg if d.cmd in (2, 3, 5, 6, 8, 9, 11, 12, 13, 14)}
        diff = {i for i in range(max(len(full), len(ster)))
                if i >= len(full) or i >= len(ster) or full[i] != ster[i]}
        if diff != {p for p in writers} or any(ster[p] != 0 for p in writers):
            viol("sterile-differs", f"group {gi}: sterile and assembled frame differ at "
                 f"{sorted(diff)}, write datagram command bytes are at {sorted(writers)}")

    def outpat(t, k, n):
        return bytes((201 * t + 13 * i + 57 * k + 3) & 0xff for i in range(n))

    def hook_group(gi, sg, gr):
        orig = sg.update_devices
        cycles_of[gi] = 0

        def update_devices(data):
            cycles_of[gi] += 1
            k = cycles_of[gi]
            resp = bytes(data)
            out = orig(data)
            judge_response(gi, sg, gr, k, resp)
            exp = {}
            for t, rw in gr["members"].items():
                n = eff(t, "out")
                if rw and n:
                    a = sg.pdo_assign[terms[t]].get(SyncManager.OUT)
                    if a is None:
                        viol("no-output-region", f"group {gi} terminal {t} is read-write "
                             f"with {n} output bytes but has no output region")
                        continue
                    pat = outpat(t, k, n)
                    out[a:a + n] = pat
                    exp[t] = pat
            expected_out[bytes(out)] = exp
            return out
        sg.update_devices = update_devices

    def judge_response(gi, sg, gr, k, resp):
        try:
            _, _, dgrams = parse_ecat(resp)
        except Exception as e:
            viol("frame-malformed", f"group {gi} response {k}: {e}")
            return
        cyc = resp_cycle.get(resp)
        regions = []
        for t, rw in sorted(gr["members"].items()):
            for what, sm in (("in", SyncManager.IN), ("out", SyncManager.OUT)):
                n = eff(t, what)
                if not n or (what == "out" and not rw):
                    continue
                a = sg.pdo_assign[terms[t]].get(sm)
                if a is None:
                    viol("no-region", f"group {gi} terminal {t} {what}: no region assigned")
                    continue
                regions.append((a, a + n, t, what))
                inside = [d for d in dgrams if d.data_pos <= a and a + n <= d.wkc_pos]
                if not inside:
                    viol("region-outside-datagram",
                         f"group {gi} terminal {t} {what} region {a}:{a + n} is not inside "
                         f"the data of one datagram {[(d.data_pos, d.wkc_pos) for d in dgrams]}",
                         aero=specs[t]["aero"])
                    continue
                if what == "in" and cyc is not None and k >= 2:
                    want = sims[t].pattern(cyc)[:n]
                    if resp[a:a + n] != want:
                        viol("input-region-wrong-content",
                             f"group {gi} cycle {k}: terminal {t} region {a}:{a + n} holds "
                             f"{resp[a:a + n][:24].hex()}, the terminal's inputs were "
                             f"{want[:24].hex()}",
                             aero_in_group=any(specs[x]["aero"] for x in gr["members"]))
                if not specs[t]["aero"] or what == "in":
                    ind = wl.region_of(dgrams, resp, sims[t], what)
                    if specs[t]["aero"]:
                        pass
                    elif ind is None:
                        viol("region-not-addressed", f"group {gi} terminal {t} {what}: no "
                             f"datagram/FMMU transports its {n} bytes")
                    elif ind != (a, a + n):
                        viol("region-mismatch", f"group {gi} terminal {t} {what}: pdo_assign "
                             f"says {a}:{a + n}, addressing leads to {ind[0]}:{ind[1]}")
        regions.sort()
        for (a0, b0, t0, w0), (a1, b1, t1, w1) in zip(regions, regions[1:]):
            if a1 < b0:
                viol("regions-overlap", f"group {gi}: terminal {t0} {w0} {a0}:{b0} and "
                     f"terminal {t1} {w1} {a1}:{b1}",
                     aero=specs[t0]["aero"] or specs[t1]["aero"])

    def make_devices(gr):
        """1-3 devices per group; a terminal may be linked by several of them, written by
        some and only read by others, in any order: the group's flag is the OR of theirs"""
        ndev = 1 + tape.draw("c18/ndevices", 3)
        maps = [dict() for _ in range(ndev)]
        for k, rw in gr["members"].items():
            users = [d for d in range(ndev) if tape.chance("c18/dev-uses-terminal", 50)] \
                or [tape.draw("c18/dev-fallback", ndev)]
            writers = [d for d in users if rw and tape.chance("c18/dev-writes", 50)]
            if rw and not writers:
                writers = [tape.pick("c18/dev-writer", users)]
            for d in users:
                maps[d][terms[k]] = d in writers
            if len(users) > 1 and 0 < len(writers) < len(users):
                world.count("c18/terminal-shared-by-writing-and-reading-devices")
        devs = []
        for m in maps:
            if m:
                dev = Dev()
                dev.term_map = m
                devs.append(dev)
        return devs

    async def main(loop):
        if parallel:
            from ebpfcat.lock import FMMULock, LockFile
            ec.mbx_lock_file = LockFile("/run/ebpf/sim0", ec.terminal_addr_range[0],
                                          ec.terminal_addr_range[1] + 1)   # as ParallelEtherCat.run makes it
            ec.fmmu_lock_file = FMMULock("/run/ebpf/sim0.fmmu")
            await EtherCat.connect(ec)
        else:
            await ec.connect()
        for gi, gr in enumerate(groups):
            if started and not parallel and tape.chance("c18/connected-again", 15):
                # the master connects once more (the program's connect-and-retry path)
                # while earlier groups are alive: their windows stay theirs
                await ec.connect()
                world.count("c18/master-connected-again-with-live-groups")
            for _ in range(tape.pick("c18/windows-taken-before", AGING)):
                ec.get_fmmu_addr()
            sg = SyncGroup(ec, make_devices(gr))
            size, n = predicted(gr)
            must_overflow = size > 1500 or n > 15
            mapped = sorted((stations[k], k) for k in gr["members"]
                            if specs[k]["use_fmmu"] and not specs[k]["aero"])
            silent = None
            if len(mapped) >= 2 and gi + 1 < len(groups) and not must_overflow \
                    and tape.chance("c18/terminal-silent-while-mapped", 12):
                # a terminal does not answer while the group configures its FMMUs (after
                # an earlier terminal of the group was mapped): the start fails; the groups
                # started afterwards are not to notice
                silent = mapped[1 + tape.draw("c18/silent-which", len(mapped) - 1)][1]
                for _ in range(200):      # (the groups started before are through their set-up)
                    if all(cycles_of.get(g, 0) >= 1 or s_.task.done() for g, s_, _ in started):
                        break
                    await asyncio.sleep(1e-3)
                sims[silent].skip_datagram = lambda d: d.cmd == 5 and 0x600 <= d.ado < 0x700
            try:
                sg.start()
            except OverflowError:
                world.count("c18/overflow-rejected")
                if not must_overflow:
                    viol("group-rejected-although-it-fits",
                         f"group {gi}: needs {size} bytes in {n} datagrams")
                continue
            except Exception as e:
                if parallel and ec.fmmu_lock_file.base_addr >= (1 << 31) - 0x2000:
                    # more than 1023 windows taken by the process with the highest
                    # number: the 31-bit logical address space is used up
                    world.count("c18/logical-address-space-exhausted")
                    continue
                viol("group-start-raised", f"group {gi}: {type(e).__name__}: {e}",
                     exception=type(e).__name__)
                continue
            if silent is not None:
                await asyncio.wait([sg.task], timeout=0.05)
                sims[silent].skip_datagram = lambda d: False
                if sg.task.done():
                    world.count("c18/group-start-failed-at-a-silent-terminal")
                    if not sg.task.cancelled():
                        sg.task.exception()
                    continue
                sg.task.cancel()
                await asyncio.wait([sg.task], timeout=0.5)
                continue
            if must_overflow:
                viol("oversized-group-started",
                     f"group {gi} needs {size} bytes in {n} datagrams (limits 1500 / 15) "
                     f"but was started")
                sg.task.cancel()
                continue
            hook_group(gi, sg, gr)
            check_sterile(gi, sg)
            started.append((gi, sg, gr))
            await asyncio.sleep([0, 1e-3, 5e-3][tape.draw("c18/stagger", 3)])
        await asyncio.sleep(0.06 + 0.01 * tape.draw("c18/runtime", 6))
        if started and not violations and tape.chance("c18/resize-and-restart", 20):
            # a group is stopped, one of its terminals gets another process-data size (its
            # PDO assignment was rewritten), and the same group object is started again
            gi, sg, gr = tape.pick("c18/restarted-group", started)
            own = [k for k in gr["members"] if not specs[k]["aero"]
                   and sum(1 for _, _, g2 in started if k in g2["members"]) == 1]
            def resize(k, what, new):
                off = {"in": 24, "out": 16}[what]
                specs[k][f"{what}_sz"] = new
                setattr(sims[k], f"{what}_sz", new)
                setattr(terms[k], f"pdo_{what}_sz", new)
                struct.pack_into("<H", sims[k].mem, 0x800 + off + 2, new)
            direct = [k for k in own if not specs[k]["use_fmmu"] and specs[k]["in_sz"]]
            rejected_first = False
            if own and direct and tape.chance("c18/rejected-restart-first", 40):
                # the first attempt to start it again is rejected (a directly addressed
                # terminal has become too large for a frame); it is then made smaller
                k = tape.pick("c18/oversized-terminal", direct)
                sg.task.cancel()
                await asyncio.wait([sg.task], timeout=1.0)
                keep = specs[k]["in_sz"]
                resize(k, "in", 1495)
                try:
                    sg.start()
                except OverflowError:
                    world.count("c18/restart-rejected-then-repeated")
                    rejected_first = True
                except Exception as e:
                    viol("group-start-raised", f"group {gi}, oversized restart: "
                         f"{type(e).__name__}: {e}", exception=type(e).__name__)
                else:
                    viol("oversized-group-started", f"group {gi} was started again with a "
                         f"1495-byte directly addressed terminal")
                    sg.task.cancel()
                resize(k, "in", keep)
            if own:
                k = tape.pick("c18/resized-terminal", own)
                if not sg.task.done() and tape.chance("c18/frame-still-under-way-at-restart", 50):
                    # one cyclic frame of the old run is still on the wire when the group
                    # is stopped, and comes back after the group was started again
                    held = []
                    old_index = sg.packet_index

                    def hold_one(no, frame):
                        if not held and len(frame) > 22 and \
                                struct.unpack_from("<I", frame, 18)[0] == old_index:
                            held.append(no)
                            late_frames.add(no)
                            return 0.004 + 0.004 * tape.draw("c18/late-frame", 4)
                        return None
                    bus.delay_for = hold_one
                    for _ in range(60):
                        if held:
                            break
                        await asyncio.sleep(0.0005)
                    bus.delay_for = None
                    if held:
                        world.count("c18/old-frame-comes-back-after-the-restart")
                sg.task.cancel()
                await asyncio.wait([sg.task], timeout=1.0)
                for what in ("in", "out"):
                    if specs[k][f"{what}_sz"]:
                        resize(k, what, 1 + tape.draw(f"c18/new-{what}-size", 30))
                sims[k].refresh_inputs()
                world.count("c18/terminal-resized-between-two-starts")
                try:
                    sg.start()
                except OverflowError:
                    started.remove((gi, sg, gr))
                except Exception as e:
                    if parallel and ec.fmmu_lock_file.base_addr >= (1 << 31) - 0x2000:
                        world.count("c18/logical-address-space-exhausted")
                        started.remove((gi, sg, gr))
                        e = None
                    if e is not None:
                        viol("group-start-raised", f"group {gi}, second start: "
                             f"{type(e).__name__}: {e}", exception=type(e).__name__)
                        started.remove((gi, sg, gr))
                else:
                    cycles_of[gi] = 0
                    await asyncio.sleep(0.05)
            # one more group is started afterwards (a reader of a terminal that has an
            # FMMU to spare): its window is nobody else's
            spare = [k for k in range(nterm) if specs[k]["use_fmmu"] and not specs[k]["aero"]
                     and specs[k]["in_sz"] and terms[k].fmmu_used.count(None) >= 1]
            if spare and not violations and (rejected_first
                                             or tape.chance("c18/one-more-group", 30)):
                k = tape.pick("c18/one-more-reader", spare)
                gr2 = dict(members={k: False})
                sg2 = SyncGroup(ec, make_devices(gr2))
                try:
                    sg2.start()
                except Exception as e:
                    if not (parallel and ec.fmmu_lock_file.base_addr >= (1 << 31) - 0x2000):
                        viol("group-start-raised", f"late group: {type(e).__name__}: {e}",
                             exception=type(e).__name__)
                else:
                    gi2 = len(groups)
                    groups.append(gr2)
                    hook_group(gi2, sg2, gr2)
                    started.append((gi2, sg2, gr2))
                    world.count("c18/group-started-after-a-restart")
                    await asyncio.sleep(0.04)
        # logical windows of different groups never overlap
        windows = []
        for gi, sg, gr in started:
            try:
                _, _, dgrams = parse_ecat(bytes(sg.asm_packet))
            except Exception:
                continue
            for d in dgrams:
                if d.cmd in (LRD, LWR) and d.length:
                    windows.append((d.addr, d.addr + d.length, gi))
        windows.sort()
        for (a0, b0, g0), (a1, b1, g1) in zip(windows, windows[1:]):
            if a1 < b0:
                viol("logical-windows-overlap", f"group {g0} {a0:#x}:{b0:#x} and group {g1} "
                     f"{a1:#x}:{b1:#x}")
        for gi, sg, gr in started:
            if sg.task.done() and not sg.task.cancelled() and sg.task.exception():
                e = sg.task.exception()
                viol("group-task-failed", f"group {gi}: {type(e).__name__}: {e}",
                     exception=type(e).__name__)
            sg.task.cancel()
        await asyncio.sleep(0.01)

    with env:
        try:
            env.run(main)
        except SimStall as e:
            viol("did-not-finish", str(e))
        for m, tn, txt in env.loop_exceptions():
            if "Task was destroyed but it is pending" in m:
                # (the send loop of the first connection, left behind by connecting again)
                world.count("c18/send-loop-of-an-earlier-connection-left-pending")
                continue
            if tn != "CancelledError":
                viol("library-task-died", f"{m}: {tn}: {txt}", exception=tn)
    mine = [v for v in violations if v["rule"] not in ("frame-malformed", "sterile-differs")]
    if want_c11:
        mine = [v for v in violations if v["rule"] in ("frame-malformed", "sterile-differs")]
    elif len(mine) != len(violations):
        world.count("other-property/C11-frame-rule")
    violations = mine
    return {
        "violations": violations, "stats": dict(world.counters),
        "digest": world.digest.hexdigest(), "sim_time": world.now,
        "schedule": world.digest.hexdigest(),
        "nontrivial": any(len(gr["members"]) >= 2 and cycles_of.get(gi, 0) >= 2
                          for gi, sg, gr in started),
        "sample": {"scenario": scenario, "terminals": specs,
                   "groups": [{str(k): v for k, v in gr["members"].items()} for gr in groups],
                   "cycles": cycles_of},
    }
