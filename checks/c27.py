"""C27 The Valve device enforces its safe state on timeout"""
import asyncio

from sim.bus import WireFaults
from sim.loop import SimStall
from sim.pdfix import IN_OFF, OUT_OFF
from sim.seams import Env

from . import wl_groups as wl

PROPERTY = "C27"
LEVEL = "exploration"
SCENARIOS = {"safe-closed": 3, "safe-open": 1}
TIERS = {"quick": {"runs": 5000, "chunk": 20}, "thorough": {"runs": 50000000, "wall_s": 600, "chunk": 100, "recheck": 16}}
RULE = ("one run = a Valve device in a real slow SyncGroup on the simulated bus (one digital "
        "input terminal for the two switches, one digital output terminal for the coil); a "
        "simulated valve plant (travel time, stuck open/closed/mid, bouncing switches) "
        "produces the switch readings from the coil the terminal received; the user task "
        "changes the target at drawn times; the clock jumps by drawn amounts (1 ms up to "
        "several moving times) between cycles; movingTime in {0.05, 1, 5, 0, inf}; 20-120 cycles "
        "after reset(); every Valve.update is compared step by step with a reference model "
        "of the statement; distinct = distinct event-log digests; non-trivial = the valve "
        "was commanded to move at least once")
RULE += '; since the 4th session movingTime is also 0 or infinity'
RULE += '; also the switch terminal silent for 2-31 cycles (20 %), and the rule that every handled response updates the valve'
COMPONENTS = {
    "real": ["ebpfcat.devices.Valve.update/reset", "ebpfcat.ebpfcat.SyncGroup (cycle, "
             "update_devices)", "PacketVar bit access (Python path)"],
    "stub": ["event loop", "clock (time.monotonic seam)", "socket", "wire", "digital I/O "
             "terminals", "valve plant"]}
ASSUMPTIONS = ["position check judged for safeState=False only, the error reaction for both "
               "settings (as the property's quantifier says); a run is not judged further "
               "after its first violation"]


def run(tape, scenario):
    from ebpfcat.devices import Valve
    from ebpfcat.ebpfcat import PacketVar, SyncGroup
    from ebpfcat.ethercat import EtherCat, SyncManager

    safe = scenario == "safe-open"
    env = Env(tape, faults=WireFaults(delay_buckets=(50e-6, 20e-6, 200e-6)))
    world, bus = env.world, env.bus
    ec = EtherCat("sim0")
    specs = [dict(in_sz=1, out_sz=0, n_fmmu=2, use_fmmu=not tape.chance("c27/direct-in", 30)),
             dict(in_sz=0, out_sz=1, n_fmmu=2, use_fmmu=not tape.chance("c27/direct-out", 30))]
    sims, terms = wl.build(env, ec, specs)
    # (0: no time to move at all; inf: supervision switched off)
    moving = tape.pick("c27/movingTime", [0.05, 1.0, 5.0, 0.05, 1.0, 5.0, 0, float("inf")])
    scale = moving if 0 < moving < float("inf") else 1.0     # for the plant and the clock
    travel = scale * [0.2, 0.6, 0.95, 1.3][tape.draw("c27/travel", 4)]
    # the monotonic clock is the time since boot: the run may start anywhere, e.g. shortly
    # before 2**32 ms (49.7 days) or 2**31 ms of uptime
    uptime = tape.pick("c27/uptime", [0.0, 0.0, 0.0, 4294967.296, 2147483.648, 1.0e9, 86400.0])
    if uptime:
        uptime -= scale * tape.pick("c27/before-the-wrap", [0.5, 2, 6, 20, 60])
        world.now = max(0.0, uptime)
        world.count("c27/started-at-high-uptime")
    plant = dict(x=0.0, last=world.now, stuck=None, t_stuck=None)
    stuck_kind = tape.draw("c27/stuck", 6)      # 0-2 healthy
    violations = []
    history = []

    def viol(rule, detail, **params):
        if not violations:
            violations.append({"rule": rule, "params": params, "detail": detail})

    def switches(term, cycle):
        now = world.now
        dt = max(0.0, now - plant["last"])
        plant["last"] = now
        coil = bool(sims[1].mem[OUT_OFF] & 1)
        if stuck_kind >= 3 and plant["t_stuck"] is None and tape.chance("c27/stuck-now", 3):
            plant["t_stuck"] = now
            world.count("fault/valve-stuck")
        if plant["t_stuck"] is None or stuck_kind == 5:
            step = dt / travel if travel > 0 else 1.0
            if plant["t_stuck"] is not None:          # stuck mid-way: stops short
                plant["x"] = min(max(plant["x"], 0.3), 0.7)
            else:
                plant["x"] = min(1.0, plant["x"] + step) if coil else max(0.0, plant["x"] - step)
        is_open, is_closed = plant["x"] >= 1.0, plant["x"] <= 0.0
        bounce = tape.draw("c27/bounce", 40)
        if bounce == 39:
            is_open = is_closed = True
            world.count("fault/switch-both-on")
        elif bounce == 38:
            is_open = is_closed = False
            world.count("fault/switch-both-off")
        return bytes([(1 if is_open else 0) | (2 if is_closed else 0)])
    sims[0].input_fn = switches

    updates = [0]
    second_session = []

    class JudgedValve(Valve):
        def update(self):
            updates[0] += 1
            o, c = bool(self.openSwitch), bool(self.closedSwitch)
            before = dict(coil=bool(self.coil), target=bool(self.target), error=bool(self.error),
                          now=world.now)
            super().update()
            after = dict(coil=bool(self.coil), target=bool(self.target), error=bool(self.error))
            judge(o, c, before, after)

    model = dict(last_good=None, error=False, done=False)

    def judge(o, c, before, after):
        if model["done"] or violations:
            return
        now = before["now"]
        history.append((round(now, 4), int(o), int(c), int(before["target"]), int(after["coil"]),
                        int(after["error"])))
        in_position = o != c
        confirms = in_position and (o if before["coil"] else c)
        if safe:
            # only the error reaction is judged for safeState=True
            if after["error"] and not before["error"]:
                model["done"] = True
                if after["coil"] != safe or after["target"] != safe:
                    viol("error-reaction-not-safe-state",
                         f"t={now:.3f}: error raised with coil={after['coil']} "
                         f"target={after['target']}, safeState={safe}", safe_state=safe)
            return
        if confirms:
            model["last_good"] = now
            want = dict(coil=before["target"], target=before["target"], error=before["error"])
        elif now - model["last_good"] < moving:
            want = dict(coil=before["target"], target=before["target"], error=before["error"])
        else:
            want = dict(coil=False, target=False, error=True)
        if after != want:
            viol("valve-differs-from-model",
                 f"t={now:.3f} open={o} closed={c} coil_before={before['coil']} "
                 f"target={before['target']} lastGood={model['last_good']:.3f} "
                 f"movingTime={moving}: valve {after}, model {want}; history {history[-6:]}",
                 safe_state=safe)
            model["done"] = True
        if want["error"] and not before["error"]:
            world.count("c27/timeouts")

    valve = JudgedValve()
    valve.movingTime = moving
    valve.safeState = safe
    valve.coil = PacketVar(terms[1], SyncManager.OUT, 0, 0)
    valve.openSwitch = PacketVar(terms[0], SyncManager.IN, 0, 0)
    valve.closedSwitch = PacketVar(terms[0], SyncManager.IN, 0, 1)
    sg = SyncGroup(ec, [valve])
    ncycles = 20 + tape.draw("c27/cycles", 100)
    silent_from = 3 + tape.draw("c27/silent-from", 40) if tape.chance("c27/switch-terminal-silent", 20) \
        else None
    silent_for = 2 + tape.draw("c27/silent-for", 30)
    cycles = [0]
    moved = [0]
    orig_update = sg.update_devices

    def update_devices(data):
        cycles[0] += 1
        if cycles[0] == 1:
            valve.reset()
            valve.target = False
            model["last_good"] = world.now
            model["error"] = False
        # the user changes the target now and then
        if tape.chance("c27/retarget", 8):
            valve.target = not bool(valve.target)
            moved[0] += 1
            if valve.error and tape.chance("c27/reset", 50):
                valve.reset()
                model["last_good"] = world.now
        # the terminal with the switches falls silent for a while (longer than the moving
        # time in some runs): the valve goes on being supervised with what it last saw
        if silent_from is not None and cycles[0] == silent_from and not second_session:
            sims[0].skip_datagram = lambda d: True
            world.count("fault/switch-terminal-silent")
        if silent_from is not None and cycles[0] == silent_from + silent_for \
                and not second_session:
            sims[0].skip_datagram = lambda d: False
        seen = updates[0]
        out = orig_update(data)
        if updates[0] == seen and not violations:
            viol("valve-not-updated", f"cycle {cycles[0]} at t={world.now:.3f}: the group "
                 f"handled a response without updating the valve (wkc errors so far "
                 f"{sg.wkc_errors})", safe_state=safe)
        # the clock jumps between cycles
        j = tape.draw("c27/jump", 12)
        if j >= 8:
            world.now += [0.001, scale * 0.3, scale * 1.01, scale * 3][j - 8]
            world.count("fault/clock-jump")
        if cycles[0] >= ncycles:
            asyncio.get_event_loop().call_soon(sg.task.cancel)
        return out
    sg.update_devices = update_devices

    async def main(loop):
        await ec.connect()
        task = sg.start()
        await asyncio.wait([task], timeout=60 + 4 * scale * ncycles)
        if not task.done():
            task.cancel()
        elif not task.cancelled() and task.exception() is not None:
            e = task.exception()
            viol("group-task-failed", f"{type(e).__name__}: {e}", exception=type(e).__name__)
        await asyncio.sleep(0.01)
        if not violations and tape.chance("c27/second-session", 35):
            # the same group and valve started again (fresh frame buffer); the history
            # begins with a reset again
            world.count("c27/group-started-a-second-time")
            sims[0].skip_datagram = lambda d: False     # (the terminal answers again)
            second_session.append(True)                 # (no silent phase in this session)
            cycles[0] = 0
            model["done"] = False
            task = sg.start()
            await asyncio.wait([task], timeout=60 + 4 * scale * ncycles)
            if not task.done():
                task.cancel()
            elif not task.cancelled() and task.exception() is not None:
                e = task.exception()
                viol("group-task-failed", f"second session: {type(e).__name__}: {e}",
                     exception=type(e).__name__)
            await asyncio.sleep(0.01)

    with env:
        try:
            env.run(main, max_iterations=200_000)
        except SimStall as e:
            viol("did-not-finish", str(e))
        for m, tn, txt in env.loop_exceptions():
            if tn != "CancelledError":
                viol("library-task-died", f"{m}: {tn}: {txt}", exception=tn)
    return {
        "violations": violations, "stats": dict(world.counters),
        "digest": world.digest.hexdigest(), "sim_time": world.now,
        "schedule": world.digest.hexdigest(), "nontrivial": moved[0] >= 1,
        "sample": {"safeState": safe, "movingTime": moving, "travel": travel,
                   "stuck": stuck_kind, "cycles": cycles[0], "history": history[:30]},
    }
