"""C14 State changes walk the EtherCAT state machine in order"""
import asyncio

from sim.bus import INIT, OP, PREOP, SAFEOP, SimTerminal, WireFaults
from sim.loop import SimStall
from sim.seams import Env

PROPERTY = "C14"
LEVEL = "exploration"
SCENARIOS = {"single": 2, "concurrent": 2, "group": 1}
TIERS = {"quick": {"runs": 20000, "chunk": 60}, "thorough": {"runs": 50000000, "wall_s": 600, "chunk": 300, "recheck": 16}}
RULE = ("one run = 1-4 simulated terminals, each starting in INIT/PRE-OP/SAFE-OP/OP with or "
        "without error flag, each transition taking 0..5 status polls, an error appearing "
        "at a drawn poll or a transition being refused; Terminal.to_operational(target) "
        "driven through the real roundtrip/sendloop path (concurrently via gather in the "
        "'concurrent' scenario); oracle over each terminal's recorded sequence of AL "
        "control writes and AL status reads; distinct = distinct (start, error, target, "
        "delays, fault poll) tuples per terminal set; non-trivial = at least one AL control "
        "write happened")
RULE += "; since the 4th session 'concurrent' also has two callers with different targets on one healthy terminal (each judged on its own return), and 'group' starts the same group a second time after terminals dropped back with an error or were power-cycled"
RULE += '; also the status poll before the one that shows the error left unanswered, and for groups the step rule SAFE-OP only after PRE-OP was reported'
COMPONENTS = {
    "real": ["ebpfcat.ethercat.Terminal.to_operational/get_state", "EtherCat.roundtrip, "
             "sendloop, process_packet"],
    "stub": ["event loop", "socket", "wire (jitter only)", "ESC AL state machine model"]}
ASSUMPTIONS = [
    "terminal behaviours are bounded as the property says: no BOOTSTRAP start, every "
    "transition completes within 5 polls unless an error is reported",
    "no frame loss (the state walk has no retry; loss would only hang the call)"]

ORDER = [INIT, PREOP, SAFEOP, OP]
NAMES = {1: "INIT", 2: "PREOP", 4: "SAFEOP", 8: "OP"}


def judge(log, target, outcome, start_state, start_error):
    """oracle on one terminal's AL log; returns (rule, detail) or None"""
    if not log or log[0][0] != "r":
        return "no-initial-status-read", f"log starts with {log[:1]}"
    first = log[0][1]
    pos = 1
    if first & 0x10:
        if len(log) < 2 or log[1] != ("w", 0x11):
            return "error-not-acknowledged", \
                f"error reported first, next event is {log[1:2]}, expected write 0x11"
        start = INIT
        pos = 2
        acked = True
    else:
        start = first & 0xf
        acked = False
    expected = [s for s in ORDER if ORDER.index(s) > ORDER.index(start)
                and ORDER.index(s) <= ORDER.index(target)] if start in ORDER else []
    writes = [(i, v) for i, (k, v) in enumerate(log) if k == "w" and i >= pos]
    got = [v for _, v in writes]
    error_reads = [i for i, (k, v) in enumerate(log) if k == "r" and v & 0x10 and i >= pos]
    if error_reads:
        # an error during the walk: must raise, and nothing is written afterwards
        if outcome != "EtherCatError":
            return "error-not-raised", \
                f"status read #{error_reads[0]} had the error flag, call ended {outcome}"
        later = [v for i, v in writes if i > error_reads[0]]
        if later:
            return "write-after-error", f"AL control writes {later} after an error read"
        exp_prefix = expected[:len(got)]
        if got != exp_prefix:
            return "wrong-request-sequence", \
                f"requests {got}, expected a prefix of {expected} (start {start}, target {target})"
    else:
        if outcome == "EtherCatError":
            return "raised-without-error", "no status read had the error flag"
        if outcome != "returned":
            return "unexpected-outcome", outcome
        if any(v > target for v in got):
            return "request-above-target", f"requests {got}, target {target}"
        if got != expected:
            return "wrong-request-sequence", \
                f"requests {got}, expected {expected} (start {NAMES.get(start)}, " \
                f"target {NAMES[target]}, acked={acked})"
    # request i+1 only after a read returned state i
    for (i, v), (j, w) in zip(writes, writes[1:]):
        seen = any(k == "r" and (x & 0xf) == v and not x & 0x10 for k, x in log[i + 1:j])
        if not seen:
            return "next-request-before-confirmation", \
                f"{NAMES.get(w, w)} requested before a status read reported {NAMES.get(v, v)}"
    if outcome == "returned":
        tail_from = writes[-1][0] + 1 if writes else (pos - 1 if not acked else None)
        if tail_from is None:
            # acknowledged error and nothing more to request cannot happen for a
            # target above INIT
            return "returned-without-walk", "acknowledged an error but requested nothing"
        reads = [x for k, x in log[tail_from:] if k == "r"]
        if acked or writes:
            ok = any((x & 0xf) == target and not x & 0x10 for x in reads)
        else:
            ok = any((x & 0xf) in ORDER and ORDER.index(x & 0xf) >= ORDER.index(target)
                     for x in reads)
        if not ok:
            return "returned-before-target", \
                f"returned although no status read after the last request reported " \
                f"{NAMES[target]}: reads {reads}"
    return None


def run_group(tape):
    """the state machine as a sync group walks it: a real slow SyncGroup over 1-3 terminals
    (read-write or read-only) that are found in any state, may carry an error, need 0..k
    polls per transition, refuse a transition or raise an error at some poll. Judged on
    every terminal's AL control/status history: OPERATIONAL is requested only after a
    status read reported SAFE-OPERATIONAL without error, and an error reported while the
    group brings its terminals up ends the group's task with EtherCatError"""
    from ebpfcat.ebpfcat import SyncGroup
    from ebpfcat.ethercat import EtherCat, EtherCatError
    from . import wl_groups as wl
    from .c21 import build_devices

    env = Env(tape, faults=WireFaults(delay_buckets=(50e-6, 20e-6, 150e-6, 600e-6)))
    world = env.world
    ec = EtherCat("sim0")
    specs = wl.gen_specs(tape, "c14g", max_terms=3, max_sz=6)
    sims, terms = wl.build(env, ec, specs)
    cfgs = []
    for st in sims:
        st.al_state = tape.pick("c14/start", ORDER)
        st.al_error = tape.chance("c14/start-error", 25)
        st.al_status_extra = tape.pick("c14/status-upper-bits", [0, 0, 0, 0x20, 0x40, 0x80])
        code0 = tape.chance("c14/status-code-zero", 30)
        st.al_code = (0 if code0 else 0x1a) if st.al_error else 0
        maxd = tape.draw("c14/maxdelay", 4)
        st.al_delay = lambda frm, to, maxd=maxd: tape.draw("c14/delay", maxd + 1)
        fault_kind = tape.draw("c14/fault-kind", 5)
        if fault_kind == 3:
            poll_no = 1 + tape.draw("c14/fault-poll", 8)
            cnt = [0]

            def spont(cnt=cnt, poll_no=poll_no, code0=code0):
                cnt[0] += 1
                return (-1 if code0 else 0x1b) if cnt[0] == poll_no else 0
            st.al_spontaneous_error = spont
        elif fault_kind == 4:
            bad = tape.pick("c14/refuse", [PREOP, SAFEOP, OP])
            st.al_fail = lambda frm, to, bad=bad, code0=code0: \
                (-1 if code0 else 0x1d) if to == bad and frm != to else 0
        cfgs.append((st.al_state, st.al_error, fault_kind))
    links = wl.gen_links(tape, specs, "c14g", max_vars=2)
    if not links:
        links = [dict(term=0, sm="in" if specs[0]["in_sz"] else "out", pos=0, size="B")]
    devices = build_devices(tape, terms, links, "c14g")
    rw = {ln["term"] for ln in links if ln["sm"] == "out"}
    used = {ln["term"] for ln in links}
    outcome = [None]
    cycles = [0]
    # in some runs the same group object is started a second time after it was cancelled;
    # in between a terminal may have left the state the group left it in (dropped back
    # with an error, or was power-cycled): the second start is judged like the first
    restart = tape.chance("c14/restart-group", 35)
    between = [tape.draw("c14/between-runs", 4) for _ in sims] if restart else []
    second = {"marks": None, "outcome": None}

    async def one_start(sg, out):
        task = sg.start()
        done, pending = await asyncio.wait([task], timeout=0.15)
        if pending:
            out[0] = "running"
            task.cancel()
            await asyncio.wait([task], timeout=0.5)
        elif task.cancelled():
            out[0] = "cancelled"
        else:
            e = task.exception()
            out[0] = "returned" if e is None else type(e).__name__
            out.append(str(e))
        await asyncio.sleep(0.02)

    async def main(loop):
        await ec.connect()
        sg = SyncGroup(ec, devices)
        orig = sg.update_devices

        def update_devices(data):
            cycles[0] += 1
            return orig(data)
        sg.update_devices = update_devices
        await one_start(sg, outcome)
        if restart and outcome[0] == "running":
            world.count("c14/group-started-again")
            for st, what in zip(sims, between):
                st.al_delay = lambda frm, to: 0
                st.al_spontaneous_error = lambda: 0
                st.al_fail = lambda frm, to: 0
                if what == 2:
                    world.count("c14/terminal-dropped-back-between-runs")
                    st.al_state, st.al_error, st.al_code = PREOP, True, 0x1b
                elif what == 3:
                    world.count("c14/terminal-power-cycled-between-runs")
                    st.al_state, st.al_error, st.al_code = INIT, False, 0
            second["marks"] = [len(st.al_log) for st in sims]
            out2 = [None]
            await one_start(sg, out2)
            second["outcome"] = out2

    violations = []

    def viol(rule, detail, **params):
        if not violations:
            violations.append({"rule": rule, "params": params, "detail": detail})

    with env:
        try:
            env.run(main)
        except SimStall as e:
            viol("never-returned", f"group start-up: {e}", scenario="group")
        loop_exc = env.loop_exceptions()

    def judge_start(logs, outcome, which, **extra):
        error_seen = None
        for k, st in enumerate(sims):
            if k not in used:
                continue
            log = logs[k]
            pos = 0
            if log and log[0][0] == "r" and log[0][1] & 0x10:
                pos = 2 if len(log) > 1 and log[1] == ("w", 0x11) else 1
            safeop_confirmed = False
            for i, (kind, v) in enumerate(log):
                if i < pos:
                    continue
                if kind == "r":
                    if v & 0x10 and error_seen is None and not any(
                            kk == "w" and vv & 0xf == OP for kk, vv in log[:i]):
                        error_seen = (k, i, v)
                    if v & 0xf in (SAFEOP, OP) and not v & 0x10:
                        safeop_confirmed = True
                elif v & 0xf == OP and not safeop_confirmed:
                    viol("next-request-before-confirmation",
                         f"{which}T{k} (start {cfgs[k]}): OPERATIONAL requested before a status "
                         f"read reported SAFE-OPERATIONAL; AL log {log[:24]}", scenario="group",
                         **extra)
                elif v & 0x1f == SAFEOP and not any(
                        kk == "r" and not vv & 0x10 and vv & 0xf in (PREOP, SAFEOP, OP)
                        for kk, vv in log[pos:i]):
                    # one step at a time, also when the start-up of the group fails half
                    # way and its clean-up runs while this terminal is still on its way
                    viol("next-request-before-confirmation",
                         f"{which}T{k} (start {cfgs[k]}): SAFE-OPERATIONAL requested before a "
                         f"status read reported PRE-OPERATIONAL; AL log {log[:24]}",
                         scenario="group", step="safeop", **extra)
        if error_seen is not None and outcome[0] != "EtherCatError":
            k, i, v = error_seen
            viol("error-not-raised",
                 f"{which}T{k} (start {cfgs[k]}) reported an error (status {v:#x}, event {i}) "
                 f"while the group brought it up, the group's task ended as {outcome[0]!r} "
                 f"after {cycles[0]} cycles; AL log {logs[k][:24]}", scenario="group", **extra)
        if error_seen is None and outcome[0] not in ("running", None) and not violations:
            viol("raised-without-error", f"{which}the group's task ended as {outcome} although "
                 f"no terminal reported an error; logs {[lg[:12] for lg in logs]}",
                 scenario="group", **extra)

    marks = second["marks"]
    judge_start([st.al_log[:marks[k]] if marks else st.al_log for k, st in enumerate(sims)],
                outcome, "")
    if marks and second["outcome"] is not None:
        judge_start([st.al_log[marks[k]:] for k, st in enumerate(sims)], second["outcome"],
                    "second start: ", restart=True)
    for m, tn, txt in loop_exc:
        if tn != "CancelledError":
            viol("library-task-died", f"{m}: {txt}", exception=tn, scenario="group")
    writes = sum(1 for st in sims for kind, _ in st.al_log if kind == "w")
    return {
        "violations": violations, "stats": dict(world.counters),
        "digest": world.digest.hexdigest(), "sim_time": world.now,
        "schedule": repr(cfgs) + repr([st.al_log for st in sims]),
        "nontrivial": writes > 0,
        "sample": {"scenario": "group", "terminals": [
            {"start": NAMES[c[0]], "error": c[1], "rw": k in rw,
             "fault": ["none", "none", "none", "error-at-poll", "refused-transition"][c[2]],
             "al_log": sims[k].al_log[:20]} for k, c in enumerate(cfgs)],
            "outcome": outcome[0], "cycles": cycles[0]},
    }


def run(tape, scenario):
    if scenario == "group":
        return run_group(tape)
    from ebpfcat.ethercat import EtherCat, EtherCatError, MachineState, Terminal

    wf = WireFaults(delay_buckets=(50e-6, 20e-6, 150e-6, 600e-6))
    env = Env(tape, faults=wf)
    world = env.world
    n = 1 if scenario == "single" else 2 + tape.draw("c14/nterm", 3)
    terms, cfgs, overlap = [], [], {}
    unanswered = [False] * n
    for k in range(n):
        t = env.bus.add_terminal(SimTerminal(env.bus, f"T{k}", station=1001 + k))
        start = tape.pick("c14/start", ORDER)
        err = tape.chance("c14/start-error", 25)
        t.al_state = start
        t.al_error = err
        # the upper bits of the AL status are not part of the state: ID loaded, reserved
        t.al_status_extra = tape.pick("c14/status-upper-bits", [0, 0, 0, 0x20, 0x40, 0x80, 0xe0])
        # the AL status code that goes with an error: some terminals leave it at 0
        code0 = tape.chance("c14/status-code-zero", 30)
        t.al_code = (0 if code0 else 0x1a) if err else 0
        maxd = tape.draw("c14/maxdelay", 6)
        # a transition may take very long (firmware start, drive enabling): in few runs
        # one transition needs more than a thousand polls
        slow_at = tape.draw("c14/slow-transition", 3) if tape.chance("c14/very-slow", 4) else None
        ntrans = [0]

        def al_delay(frm, to, maxd=maxd, slow_at=slow_at, ntrans=ntrans):
            ntrans[0] += 1
            if slow_at is not None and ntrans[0] - 1 == slow_at:
                world.count("c14/transition-over-1000-polls")
                if tape.chance("c14/slower-still", 8):
                    world.count("c14/transition-over-10000-polls")
                    return 10001 + tape.draw("c14/slowest-polls", 300)
                return 1001 + tape.draw("c14/slow-polls", 300)
            return tape.draw("c14/delay", maxd + 1)
        t.al_delay = al_delay
        fault_kind = tape.draw("c14/fault-kind", 5)   # 0,1,2: none
        if fault_kind == 3:
            poll_no = 1 + tape.draw("c14/fault-poll", 12)
            cnt = [0]

            def spont(cnt=cnt, poll_no=poll_no, code0=code0):
                cnt[0] += 1
                return (-1 if code0 else 0x1b) if cnt[0] == poll_no else 0
            t.al_spontaneous_error = spont
        elif fault_kind == 4:
            bad = tape.pick("c14/refuse", [PREOP, SAFEOP, OP])
            t.al_fail = lambda frm, to, bad=bad, code0=code0: \
                (-1 if code0 else 0x1d) if to == bad and frm != to else 0
        if fault_kind == 3 and tape.chance("c14/poll-before-the-error-unanswered", 30):
            # the status poll right before the one that shows the error is not processed by
            # the terminal (it is busy): the caller gets "datagram was not processed" - it
            # may give up there, but if it goes on it still has to see the error
            reads = [0]

            def skip(d, reads=reads, poll_no=poll_no, t=t, k=k):
                if d.cmd == 4 and d.ado == 0x130 and d.adp == t.station:
                    reads[0] += 1
                    if reads[0] == poll_no and not unanswered[k]:
                        unanswered[k] = True
                        world.count("fault/al-status-poll-not-processed")
                        return True
                return False
            t.skip_datagram = skip
        target = tape.pick("c14/target", [OP, SAFEOP, PREOP])
        terms.append(t)
        cfgs.append((start, err, target, maxd, fault_kind))
        # two callers at once on one healthy terminal, with different targets (each of
        # them is judged on its own: it returns only once the terminal reported its target)
        if scenario == "concurrent" and not err and fault_kind < 3 and slow_at is None \
                and tape.chance("c14/two-callers", 15):
            other = tape.pick("c14/other-target", [x for x in (OP, SAFEOP, PREOP) if x != target])
            overlap[k] = (other, [0, 30e-6, 200e-6, 1e-3][tape.draw("c14/caller-gap", 4)])
    outcomes = [None] * n
    ec = EtherCat("sim0")
    callers = {}

    async def drive(k):
        term = Terminal(ec)
        term.position = 1001 + k
        term.name = f"T{k}"
        if k in overlap:
            world.count("c14/two-callers-with-different-targets")
            res = callers[k] = []

            async def call(tg):
                try:
                    await term.to_operational(MachineState(tg))
                    res.append((tg, "returned", len(terms[k].al_log)))
                except asyncio.CancelledError:
                    res.append((tg, "pending", len(terms[k].al_log)))
                    raise
                except Exception as e:
                    res.append((tg, f"{type(e).__name__}: {e}", len(terms[k].al_log)))
            a = asyncio.ensure_future(call(cfgs[k][2]))
            await asyncio.sleep(overlap[k][1])
            b = asyncio.ensure_future(call(overlap[k][0]))
            # (a caller that waits for exactly the state the other one has already left
            # behind waits for ever: not judged, it is cancelled)
            await asyncio.wait([a, b], timeout=0.1)
            for f in (a, b):
                f.cancel()
            await asyncio.wait([a, b])
            outcomes[k] = "two-callers"
            return
        try:
            await term.to_operational(MachineState(cfgs[k][2]))
            outcomes[k] = "returned"
        except EtherCatError:
            outcomes[k] = "EtherCatError"
        except Exception as e:
            outcomes[k] = f"{type(e).__name__}: {e}"

    async def main(loop):
        await ec.connect()
        if n > 1 and tape.chance("c14/stagger", 50):
            tasks = []
            for k in range(n):
                tasks.append(asyncio.ensure_future(drive(k)))
                await asyncio.sleep([0, 30e-6, 200e-6][tape.draw("c14/gap", 3)])
            await asyncio.wait(tasks, timeout=20)
        else:
            await asyncio.wait_for(asyncio.gather(*[drive(k) for k in range(n)]), 20)

    violations = []
    with env:
        try:
            env.run(main, max_iterations=600_000)
        except asyncio.TimeoutError:
            pass
        loop_exc = env.loop_exceptions()
    for k, t in enumerate(terms):
        start, err, target, maxd, fk = cfgs[k]
        if outcomes[k] == "two-callers":
            log = t.al_log
            top = max(target, overlap[k][0])
            high = [v for kind, v in log if kind == "w" and v > top]
            if high:
                violations.append({"rule": "request-above-target", "params": {"two_callers": True},
                                   "detail": f"T{k}: requests {high}, targets {target} and "
                                             f"{overlap[k][0]}; log={log[:30]}"})
                break
            for tg, out, upto in callers[k]:
                if out == "pending":
                    world.count("c14/caller-left-waiting-by-the-other")
                    continue
                if out != "returned":
                    # (the two walks can cross, e.g. one steps the terminal down again and
                    # the other then asks for an illegal transition: not judged)
                    world.count("c14/caller-failed-next-to-the-other")
                    continue
                if not any(kind == "r" and not v & 0x10 and (v & 0xf) in ORDER
                           and ORDER.index(v & 0xf) >= ORDER.index(tg)
                           for kind, v in log[:upto]):
                    violations.append({"rule": "returned-before-target",
                                       "params": {"two_callers": True},
                                       "detail": f"T{k} (start {NAMES[start]}): the caller for "
                                                 f"{NAMES[tg]} returned after {upto} AL events, "
                                                 f"none of which reported {NAMES[tg]} or above; "
                                                 f"log={log[:30]}"})
                    break
            if violations:
                break
            continue
        if outcomes[k] is None:
            violations.append({"rule": "never-returned", "params": {},
                               "detail": f"T{k} cfg={cfgs[k]} log={t.al_log[-8:]}"})
            break
        r = judge(t.al_log, target, outcomes[k], start, err)
        if r is not None and unanswered[k] and outcomes[k] == "EtherCatError" \
                and r[0] in ("raised-without-error", "no-initial-status-read"):
            # (gave up at the poll the terminal did not process: allowed)
            world.count("c14/gave-up-at-an-unanswered-poll")
            r = None
        if r is not None:
            violations.append({
                "rule": r[0], "params": {},
                "detail": f"T{k} start={NAMES[start]} err={err} target={NAMES[target]} "
                          f"outcome={outcomes[k]} log={t.al_log}: {r[1]}"})
            break
        if t.al_error and outcomes[k] == "returned" and not any(
                kind == "r" and v & 0x10 for kind, v in t.al_log):
            pass
    for m, tn, txt in loop_exc:
        violations.append({"rule": "library-task-died", "params": {"exception": tn},
                           "detail": f"{m}: {txt}"})
        break
    writes = sum(1 for t in terms for kind, _ in t.al_log if kind == "w")
    world.count("c14/al-writes", writes)
    world.count("c14/outcome-raised", sum(o == "EtherCatError" for o in outcomes))
    return {
        "violations": violations, "stats": dict(world.counters),
        "digest": world.digest.hexdigest(), "sim_time": world.now,
        "schedule": repr(cfgs) + repr([t.al_log for t in terms]),
        "nontrivial": writes > 0,
        "sample": {"terminals": [
            {"start": NAMES[c[0]], "error": c[1], "target": NAMES[c[2]], "max_delay": c[3],
             "fault": ["none", "none", "none", "error-at-poll", "refused-transition"][c[4]],
             "outcome": outcomes[k], "al_log": terms[k].al_log[:20]}
            for k, c in enumerate(cfgs)]},
    }
