"""C30 Slow sync groups exchange process data and check working counters"""
import asyncio
import struct

from sim.bus import FPRD, FPWR, LRD, LWR, NOP, WireFaults, parse_ecat
from sim.loop import SimStall
from sim.seams import Env

from . import wl_groups as wl

PROPERTY = "C30"
LEVEL = "exploration"
SCENARIOS = {"nofault": 2, "wkc-faults": 3, "loss": 1}
TIERS = {"quick": {"runs": 5000, "chunk": 20}, "thorough": {"runs": 50000000, "wall_s": 600, "chunk": 100, "recheck": 16}}
RULE = ("one run = 1-5 simulated I/O terminals (input/output sizes 0..12, FMMU or direct "
        "addressing), 1-3 recording devices linked to drawn bit/byte variables, one real "
        "slow SyncGroup started on the simulated bus and run for 6-30 cycles; the terminals "
        "produce input patterns unique to (terminal, offset, cycle); the bus returns, per "
        "datagram and cycle, a correct or wrong working counter (including values that "
        "differ only above the low byte); jitter; in 'loss' also frame loss (resend path); "
        "oracles per cycle >= 2; distinct = distinct event-log digests; non-trivial = at "
        "least 4 cycles with at least one linked variable")
COMPONENTS = {
    "real": ["ebpfcat.ebpfcat.SyncGroup.start/update_devices", "SyncGroupBase.run/"
             "allocate/map_fmmu", "SterilePacket", "PacketVar/TerminalVar (Python path)",
             "Terminal.map_fmmu/to_operational", "EtherCat.roundtrip_packet path"],
    "stub": ["event loop", "socket", "wire", "ESC with FMMU emulation and process-data "
             "application"]}
ASSUMPTIONS = ["acyclic start-up datagrams are never lost (the code has no retry there); "
               "loss is enabled only while the group cycles"]


def make_device_class(n_in, n_out):
    from ebpfcat.ebpfcat import Device, TerminalVar
    ns = {f"i{i}": TerminalVar() for i in range(n_in)}
    ns.update({f"o{j}": TerminalVar() for j in range(n_out)})

    def update(self):
        self.on_update(self)
    ns["update"] = update
    return type("RecDev", (Device,), ns)


def run(tape, scenario):
    from ebpfcat.ebpfcat import PacketVar, SyncGroup
    from ebpfcat.ethercat import EtherCat, SyncManager

    wf = WireFaults(delay_buckets=(50e-6, 20e-6, 200e-6, 2e-3))
    env = Env(tape, faults=wf)
    world = env.world
    bus = env.bus
    ec = EtherCat("sim0")
    specs = wl.gen_specs(tape, "c30")
    sims, terms = wl.build(env, ec, specs)
    links = wl.gen_links(tape, specs, "c30")
    ndev = 1 + tape.draw("c30/ndev", 3)
    dev_links = [[] for _ in range(ndev)]
    for ln in links:
        dev_links[tape.draw("c30/dev", ndev)].append(ln)
    if not any(dev_links):
        dev_links[0] = [dict(term=0, sm="in" if specs[0]["in_sz"] else "out", pos=0, size="B")]
    violations = []

    def viol(rule, detail, **params):
        if not violations:
            violations.append({"rule": rule, "params": params, "detail": detail})

    model = [bytearray(sp["out_sz"]) for sp in specs]      # reference output areas
    devices = []
    cycles = []          # one record per update_devices call
    current = {}

    def on_update(dev):
        rec = current
        ins = [ln for ln in dev.links if ln["sm"] == "in"]
        outs = [ln for ln in dev.links if ln["sm"] == "out"]
        rec["reads"].extend((ln, getattr(dev, f"i{i}")) for i, ln in enumerate(ins))
        for j, ln in enumerate(outs):
            if tape.chance("c30/set-output", 70):
                v = wl.draw_value(tape, ln, "c30")
                setattr(dev, f"o{j}", v)
                wl.apply_output(ln, model[ln["term"]], v)

    for dl in dev_links:
        if not dl:
            continue
        ins = [ln for ln in dl if ln["sm"] == "in"]
        outs = [ln for ln in dl if ln["sm"] == "out"]
        cls = make_device_class(len(ins), len(outs))
        dev = cls()
        dev.links = dl
        dev.on_update = on_update
        for i, ln in enumerate(ins):
            setattr(dev, f"i{i}", PacketVar(terms[ln["term"]], SyncManager.IN, ln["pos"], ln["size"]))
        for j, ln in enumerate(outs):
            setattr(dev, f"o{j}", PacketVar(terms[ln["term"]], SyncManager.OUT, ln["pos"], ln["size"]))
        devices.append(dev)
    rw = {k for dl in dev_links for ln in dl if ln["sm"] == "out" for k in [ln["term"]]}
    used = {ln["term"] for dl in dev_links for ln in dl}

    # independent expectation of the working counter of each datagram
    def expected_wkc(d):
        if d.cmd == LRD:
            return sum(1 for k in used if specs[k]["use_fmmu"] and specs[k]["in_sz"])
        if d.cmd == LWR:
            return sum(1 for k in rw if specs[k]["use_fmmu"] and specs[k]["out_sz"])
        if d.cmd in (FPRD, FPWR):
            return 1
        return None

    resp_cycle = {}       # response payload -> terminal cycle at ring time
    snapshots = {}        # tx payload -> (cycle index, model snapshot)
    wkc_faulted = {}      # frame no -> list of (datagram index, new wkc)
    orig_ring = bus.ring

    def ring(no, frame):
        cyc = sims[0].cycle
        out = orig_ring(no, frame)
        resp_cycle[bytes(out[14:])] = cyc
        snap = snapshots.get(bytes(frame[14:]))
        if snap is not None:
            k, areas = snap
            for t in sorted(rw):
                if sims[t].outputs() != bytes(areas[t]):
                    viol("outputs-not-in-next-frame",
                         f"cycle {k}: terminal {t} received {sims[t].outputs().hex()} with "
                         f"the following frame, devices had set {bytes(areas[t]).hex()}")
        return out
    bus.ring = ring

    fault_mode = scenario == "wkc-faults"

    def wkc_fault(no, d, wkc):
        if not fault_mode or d.cmd == NOP or not started[0]:
            return wkc
        kind = tape.draw("fault/wkc", 12)
        if kind < 8:
            return wkc
        new = [wkc + 1, 0 if wkc else 3, wkc + 256, wkc ^ 0x100][kind - 8]
        world.count(f"fault/wkc-kind-{kind - 8}")
        return new
    bus.wkc_fault = wkc_fault

    started = [False]
    sg = SyncGroup(ec, devices)
    orig_update = sg.update_devices
    ncycles = 6 + tape.draw("c30/cycles", 25)
    done = asyncio.Event() if False else None

    def tx_monitor(no, frame, transport):
        if not started[0] or len(cycles) < 1:
            return
        try:
            _, _, dgrams = parse_ecat(frame[14:])
        except Exception as e:
            viol("frame-malformed", f"frame {no}: {e}")
            return
        bad = [(i, struct.unpack_from("<H", frame, 14 + d.wkc_pos)[0])
               for i, d in enumerate(dgrams)
               if struct.unpack_from("<H", frame, 14 + d.wkc_pos)[0] != 0]
        if bad:
            viol("wkc-not-cleared",
                 f"frame after cycle {len(cycles)}: working counters {bad} not zero",
                 high_byte_only=all(v & 0xff == 0 for _, v in bad))
    bus.monitors.append(tx_monitor)

    def update_devices(data):
        nonlocal current
        started[0] = True
        if scenario == "loss":
            wf.loss = 15
        before = sg.wkc_errors
        resp = bytes(data)
        current = dict(resp=resp, reads=[])
        out = orig_update(data)
        current["delta"] = sg.wkc_errors - before
        current["next"] = bytes(out)
        cycles.append(current)
        k = len(cycles)
        snapshots[bytes(out)] = (k, [bytearray(a) for a in model])
        if k >= 2:
            judge_cycle(k, current)
        if k >= ncycles and not finishing[0]:
            finishing[0] = True
            wf.loss = 0
            asyncio.get_event_loop().call_soon(sg.task.cancel)
        return out
    sg.update_devices = update_devices
    finishing = [False]

    def judge_cycle(k, rec):
        resp = rec["resp"]
        cyc = resp_cycle.get(resp)
        if cyc is None:
            world.count("c30/response-not-matched")
        else:
            for ln, got in rec["reads"]:
                want = wl.expected_value(ln, sims[ln["term"]].pattern(cyc)
                                         if sims[ln["term"]].input_fn is None else None)
                if got != want:
                    viol("device-saw-wrong-input",
                         f"cycle {k}: variable {ln} read {got!r}, the terminal had put "
                         f"{want!r} into this response")
        try:
            _, _, dgrams = parse_ecat(resp)
        except Exception as e:
            viol("frame-malformed", f"response of cycle {k}: {e}")
            return
        wrong = []
        for i, d in enumerate(dgrams):
            exp = expected_wkc(d)
            if exp is None:
                continue
            got, = struct.unpack_from("<H", resp, d.wkc_pos)
            if got != exp:
                wrong.append((i, got, exp))
        if rec["delta"] != len(wrong):
            viol("wkc-error-count",
                 f"cycle {k}: wkc_errors grew by {rec['delta']}, {len(wrong)} datagram(s) "
                 f"returned a wrong working counter (index, got, expected): {wrong}",
                 high_byte_only=bool(wrong) and all((g ^ e) & 0xff == 0 for _, g, e in wrong))

    outcome = []

    async def main(loop):
        await ec.connect()
        task = sg.start()
        try:
            await asyncio.wait_for(asyncio.shield(task), 3.0)
        except asyncio.CancelledError:
            outcome.append("cancelled")
        except asyncio.TimeoutError:
            outcome.append("timeout")
            task.cancel()
        except Exception as e:
            outcome.append(f"{type(e).__name__}: {e}")
        await asyncio.sleep(0.01)

    with env:
        try:
            env.run(main)
        except SimStall as e:
            viol("group-did-not-run", str(e))
        for m, tn, txt in env.loop_exceptions():
            if tn not in ("CancelledError",):
                viol("library-task-died", f"{m}: {tn}: {txt}", exception=tn)
    if outcome and outcome[0] not in ("cancelled",) and len(cycles) < ncycles:
        viol("group-did-not-run", f"{outcome[0]} after {len(cycles)} cycles; specs={specs}")
    nlinks = sum(len(d) for d in dev_links)
    world.count("c30/cycles", len(cycles))
    return {
        "violations": violations, "stats": dict(world.counters),
        "digest": world.digest.hexdigest(), "sim_time": world.now,
        "schedule": world.digest.hexdigest(),
        "nontrivial": len(cycles) >= 4 and nlinks >= 1,
        "sample": {"scenario": scenario, "terminals": specs, "links": dev_links,
                   "cycles": len(cycles), "missed": sg.missed_counter},
    }
