"""C30 Slow sync groups exchange process data and check working counters"""
import asyncio
import struct

from sim.bus import FPRD, FPWR, LRD, LWR, NOP, WireFaults, parse_ecat
from sim.loop import SimStall
from sim.seams import Env

from . import wl_groups as wl

PROPERTY = "C30"
LEVEL = "exploration"
SCENARIOS = {"nofault": 2, "wkc-faults": 3, "loss": 1, "two-groups": 2}
TIERS = {"quick": {"runs": 5000, "chunk": 20}, "thorough": {"runs": 50000000, "wall_s": 600, "chunk": 100, "recheck": 16}}
RULE = ("one run (in 'two-groups': two slow groups on one master sharing terminals for reading) = 1-5 simulated I/O terminals (input/output sizes 0..12, FMMU or direct "
        "addressing), 1-3 recording devices linked to drawn bit/byte variables, one real "
        "slow SyncGroup started on the simulated bus and run for 6-30 cycles; the terminals "
        "produce input patterns unique to (terminal, offset, cycle); the bus returns, per "
        "datagram and cycle, a correct or wrong working counter (including values that "
        "differ only above the low byte); jitter; in 'loss' also frame loss (resend path); in "
        "35 % of the runs the same groups and devices are started a second time; "
        "oracles per cycle >= 2; distinct = distinct event-log digests; non-trivial = at "
        "least 4 cycles with at least one linked variable")
RULE += '; since the 4th session groups are of a user subclass of SyncGroup in 30 % of the cases'
RULE += '; also groups stopped through their running flag (the last frame is looked for), 997-999 further group starts between the two groups of a run (6 %), and a first start that fails without a free FMMU and is repeated with direct addressing (10 %)'
COMPONENTS = {
    "real": ["ebpfcat.ebpfcat.SyncGroup.start/update_devices", "SyncGroupBase.run/"
             "allocate/map_fmmu", "SterilePacket", "PacketVar/TerminalVar (Python path)",
             "Terminal.map_fmmu/to_operational", "EtherCat.roundtrip_packet path"],
    "stub": ["event loop", "socket", "wire", "ESC with FMMU emulation and process-data "
             "application"]}
ASSUMPTIONS = ["acyclic start-up datagrams are never lost (the code has no retry there); "
               "loss is enabled only while the group cycles"]


def make_device_class(n_in, n_out):
    from ebpfcat.ebpfcat import Device, TerminalVar
    ns = {f"i{i}": TerminalVar() for i in range(n_in)}
    ns.update({f"o{j}": TerminalVar() for j in range(n_out)})

    def update(self):
        self.on_update(self)
    ns["update"] = update
    return type("RecDev", (Device,), ns)


def run(tape, scenario):
    from ebpfcat.ebpfcat import PacketVar, SyncGroup
    from ebpfcat.ethercat import EtherCat, SyncManager

    wf = WireFaults(delay_buckets=(50e-6, 20e-6, 200e-6, 2e-3))
    env = Env(tape, faults=wf)
    world = env.world
    bus = env.bus
    ec = EtherCat("sim0")
    two = scenario == "two-groups"
    specs = wl.gen_specs(tape, "c30", allow_aero=True)
    sims, terms = wl.build(env, ec, specs)
    links = wl.gen_links(tape, specs, "c30")
    if not links:
        links = [dict(term=0, sm="in" if specs[0]["in_sz"] else "out", pos=0, size="B")]
    # two groups: the outputs of a terminal belong to one group, inputs may be read by both
    out_owner = {k: tape.draw("c30/out-owner", 2) for k in range(len(specs))} if two else {}
    violations = []

    def viol(rule, detail, **params):
        if not violations:
            violations.append({"rule": rule, "params": params, "detail": detail})

    model = [bytearray(sp["out_sz"]) for sp in specs]      # reference output areas
    resp_cycle = {}       # response payload -> terminal cycle at ring time
    started = [False]
    fault_mode = scenario == "wkc-faults"
    groups = []

    class Group:
        def __init__(self, gi, glinks):
            self.gi = gi
            self.links = glinks
            self.cycles = []
            self.current = {}
            self.snapshots = {}     # tx payload -> (cycle index, model snapshot)
            self.finishing = False
            self.stop_by_flag = tape.chance("c30/stopped-through-the-running-flag", 40)
            self.last_k = None
            self.sent = set()
            self.ncycles = 6 + tape.draw("c30/cycles", 25)
            ndev = 1 + tape.draw("c30/ndev", 3)
            per = [[] for _ in range(ndev)]
            for ln in glinks:
                per[tape.draw("c30/dev", ndev)].append(ln)
            self.devices = []
            for dl in per:
                if not dl:
                    continue
                ins = [ln for ln in dl if ln["sm"] == "in"]
                outs = [ln for ln in dl if ln["sm"] == "out"]
                dev = make_device_class(len(ins), len(outs))()
                dev.links = dl
                dev.on_update = self.on_update
                for i, ln in enumerate(ins):
                    setattr(dev, f"i{i}", PacketVar(terms[ln["term"]], SyncManager.IN,
                                                    ln["pos"], ln["size"]))
                for j, ln in enumerate(outs):
                    setattr(dev, f"o{j}", PacketVar(terms[ln["term"]], SyncManager.OUT,
                                                    ln["pos"], ln["size"]))
                self.devices.append(dev)
            self.rw = {ln["term"] for ln in glinks if ln["sm"] == "out"}
            self.used = {ln["term"] for ln in glinks}
            # (applications derive their own group classes from SyncGroup)
            cls = type("PlantGroup", (SyncGroup,), {"__doc__": "a user's group class"}) \
                if tape.chance("c30/user-subclass-of-syncgroup", 30) else SyncGroup
            self.sg = cls(ec, self.devices)
            self.orig_update = self.sg.update_devices
            self.sg.update_devices = self.update_devices

        def on_update(self, dev):
            rec = self.current
            ins = [ln for ln in dev.links if ln["sm"] == "in"]
            outs = [ln for ln in dev.links if ln["sm"] == "out"]
            rec["reads"].extend((ln, getattr(dev, f"i{i}")) for i, ln in enumerate(ins))
            for j, ln in enumerate(outs):
                if tape.chance("c30/set-output", 70):
                    v = wl.draw_value(tape, ln, "c30", truthy=True)
                    setattr(dev, f"o{j}", v)
                    wl.apply_output(ln, model[ln["term"]], v)

        def expected_wkc(self, d):
            """independent expectation of the working counter of a datagram"""
            if d.cmd == LRD:
                return sum(1 for k in self.used if specs[k]["use_fmmu"] and specs[k]["in_sz"])
            if d.cmd == LWR:
                return sum(1 for k in self.rw if wl.out_via_fmmu(specs[k]) and specs[k]["out_sz"])
            if d.cmd in (FPRD, FPWR):
                return 1
            return None

        def update_devices(self, data):
            sg = self.sg
            started[0] = True
            if scenario in ("loss", "two-groups") and all(g.cycles for g in groups) \
                    and not all(g.finishing for g in groups):
                # (no loss while a group is still being configured: start-up has no retry)
                wf.loss = 15 if scenario == "loss" else 6
            before = sg.wkc_errors
            resp = bytes(data)
            self.current = dict(resp=resp, reads=[])
            out = self.orig_update(data)
            self.current["delta"] = sg.wkc_errors - before
            self.current["next"] = bytes(out)
            self.cycles.append(self.current)
            k = len(self.cycles)
            self.snapshots[bytes(out)] = (k, {t: bytes(model[t]) for t in self.rw})
            if k >= 2:
                self.judge_cycle(k, self.current)
            if k >= self.ncycles and not self.finishing:
                self.finishing = True
                if all(g.finishing for g in groups):
                    wf.loss = 0
                if self.stop_by_flag:
                    # told to stop through its running flag (as a device that has put its
                    # outputs into a safe state does): this last frame still goes out
                    sg.running = False
                    self.last_k = k
                else:
                    asyncio.get_event_loop().call_soon(sg.task.cancel)
            return out

        def judge_cycle(self, k, rec):
            resp = rec["resp"]
            if len(resp) >= 8 and struct.unpack_from("<I", resp, 4)[0] != self.sg.packet_index:
                viol("foreign-frame-delivered-to-group",
                     f"group {self.gi} (index {self.sg.packet_index}) was handed a frame "
                     f"with index {struct.unpack_from('<I', resp, 4)[0]}")
            cyc = resp_cycle.get(resp)
            if cyc is None:
                world.count("c30/response-not-matched")
            else:
                for ln, got in rec["reads"]:
                    want = wl.expected_value(ln, sims[ln["term"]].pattern(cyc))
                    if got != want:
                        viol("device-saw-wrong-input",
                             f"group {self.gi} cycle {k}: variable {ln} read {got!r}, the "
                             f"terminal had put {want!r} into this response")
            try:
                _, _, dgrams = parse_ecat(resp)
            except Exception as e:
                viol("frame-malformed", f"response of cycle {k}: {e}")
                return
            wrong = []
            for i, d in enumerate(dgrams):
                exp = self.expected_wkc(d)
                if exp is None:
                    continue
                got, = struct.unpack_from("<H", resp, d.wkc_pos)
                if got != exp:
                    wrong.append((i, got, exp))
            if rec["delta"] != len(wrong):
                viol("wkc-error-count",
                     f"group {self.gi} cycle {k}: wkc_errors grew by {rec['delta']}, "
                     f"{len(wrong)} datagram(s) returned a wrong working counter "
                     f"(index, got, expected): {wrong}",
                     high_byte_only=bool(wrong) and all((g ^ e) & 0xff == 0 for _, g, e in wrong))

    if two:
        l0 = [ln for ln in links if (ln["sm"] == "out" and out_owner[ln["term"]] == 0)
              or (ln["sm"] == "in" and tape.chance("c30/in-group0", 60))]
        l1 = [ln for ln in links if (ln["sm"] == "out" and out_owner[ln["term"]] == 1)
              or (ln["sm"] == "in" and ln not in l0) or (ln["sm"] == "in"
                                                          and tape.chance("c30/in-both", 30))]
        if l0 and l1:
            groups.append(Group(0, l0))
            groups.append(Group(1, l1))
        else:
            world.count("c30/two-groups-degenerate")
            groups.append(Group(0, links))
        # a terminal needs an FMMU per mapping
        for k, sp in enumerate(specs):
            need = sum((1 if sp["in_sz"] and k in g.used else 0) + (1 if k in g.rw else 0)
                       for g in groups)
            if sp["use_fmmu"] and need > sims[k].n_fmmu:
                sims[k].n_fmmu = need
                sims[k].mem[4] = need
                terms[k].fmmu_used = [None] * need
    else:
        groups.append(Group(0, links))

    orig_ring = bus.ring

    def ring(no, frame):
        cyc = sims[0].cycle
        out = orig_ring(no, frame)
        resp_cycle[bytes(out[14:])] = cyc
        for g in groups:
            snap = g.snapshots.get(bytes(frame[14:]))
            if snap is not None:
                k, areas = snap
                for t in sorted(areas):
                    got_out, want_out = sims[t].outputs(), areas[t]
                    if specs[t].get("aero"):
                        # an Aerotech-style terminal gets its declared packet size only
                        n_decl = specs[t]["decl_out"]
                        got_out, want_out = got_out[:n_decl], want_out[:n_decl]
                    if got_out != want_out:
                        viol("outputs-not-in-next-frame",
                             f"group {g.gi} cycle {k}: terminal {t} received "
                             f"{sims[t].outputs().hex()} with the following frame, devices "
                             f"had set {areas[t].hex()}")
        return out
    bus.ring = ring

    def wkc_fault(no, d, wkc):
        if not fault_mode or d.cmd == NOP or not started[0]:
            return wkc
        kind = tape.draw("fault/wkc", 12)
        if kind < 8:
            return wkc
        new = [wkc + 1, 0 if wkc else 3, wkc + 256, wkc ^ 0x100][kind - 8]
        world.count(f"fault/wkc-kind-{kind - 8}")
        return new
    bus.wkc_fault = wkc_fault

    def tx_monitor(no, frame, transport):
        if not started[0]:
            return
        try:
            _, _, dgrams = parse_ecat(frame[14:])
        except Exception as e:
            viol("frame-malformed", f"frame {no}: {e}")
            return
        idx, = struct.unpack_from("<I", frame, 18)
        g = next((g for g in groups if g.sg.packet_index == idx), None)
        if g is None or len(g.cycles) < 1:
            return
        snap = g.snapshots.get(bytes(frame[14:]))
        if snap is not None:
            g.sent.add(snap[0])
        bad = [(i, struct.unpack_from("<H", frame, 14 + d.wkc_pos)[0])
               for i, d in enumerate(dgrams)
               if struct.unpack_from("<H", frame, 14 + d.wkc_pos)[0] != 0]
        if bad:
            viol("wkc-not-cleared",
                 f"group {g.gi}: frame after cycle {len(g.cycles)}: working counters {bad} "
                 f"not zero", high_byte_only=all(v & 0xff == 0 for _, v in bad))
    bus.monitors.append(tx_monitor)

    outcome = []

    async def main(loop):
        await ec.connect()
        if not two and tape.chance("c30/first-start-fails-then-another-layout", 10):
            # the first start of the group fails before any cycle (a terminal has no FMMU
            # to spare: other users hold them all); the application switches that terminal
            # to direct addressing - another frame layout - and starts the group again
            cand = [k for k in sorted(groups[0].used) if specs[k]["use_fmmu"]
                    and not specs[k].get("aero")]
            if cand:
                k = tape.pick("c30/terminal-without-free-fmmu", cand)
                terms[k].fmmu_used = [0x7f000000 + i for i in range(len(terms[k].fmmu_used))]
                t0 = groups[0].sg.start()
                await asyncio.wait([t0], timeout=1.0)
                if t0.done() and not t0.cancelled() and t0.exception() is not None:
                    world.count("c30/first-start-failed-without-a-free-fmmu")
                else:
                    t0.cancel()
                    await asyncio.wait([t0], timeout=1.0)
                terms[k].fmmu_used = [None] * len(terms[k].fmmu_used)
                terms[k].use_fmmu = False
                specs[k]["use_fmmu"] = False
                started[0] = False
                groups[0].cycles, groups[0].snapshots = [], {}
        tasks = []
        for g in groups:
            tasks.append(g.sg.start())
            if two:
                await asyncio.sleep([0, 2e-3, 7e-3][tape.draw("c30/stagger", 3)])
            if two and g is groups[0] and tape.chance("c30/a-thousand-starts-in-between", 6):
                # a long-lived program: while the first group lives, other groups of this
                # process are started (and stopped again at once) a thousand times
                from ebpfcat.ebpfcat import Device

                class Idle(Device):
                    def get_terminals(self):
                        return {}

                    def update(self):
                        pass
                for _ in range(999 - tape.draw("c30/starts-fewer", 3)):
                    SyncGroup(ec, [Idle()]).start().cancel()
                world.count("c30/a-thousand-group-starts-while-the-first-lives")
        done, pending = await asyncio.wait(tasks, timeout=4.0)
        for t in tasks:
            if t in pending:
                outcome.append("timeout")
                t.cancel()
            elif not t.cancelled() and t.exception() is not None:
                e = t.exception()
                outcome.append(f"{type(e).__name__}: {e}")
        await asyncio.sleep(0.01)
        for g in groups:
            if g.stop_by_flag and g.last_k is not None and g.last_k not in g.sent \
                    and not outcome:
                viol("outputs-not-in-next-frame",
                     f"group {g.gi}: told to stop through its running flag in cycle "
                     f"{g.last_k}; the frame with the outputs set in that cycle was never "
                     f"sent (cycles whose frames went out: {sorted(g.sent)[-4:]})",
                     stopped_by_flag=True)
            if g.stop_by_flag:
                world.count("c30/group-stopped-through-the-running-flag")
        if not outcome and not violations and tape.chance("c30/second-session", 35):
            # the same groups and devices started again after they were stopped: start()
            # makes a fresh frame buffer, the outputs begin at zero again
            world.count("c30/groups-started-a-second-time")
            wf.loss = 0
            started[0] = False       # no faults while the groups are being configured
            for g in groups:
                g.first_session = len(g.cycles)
                g.cycles, g.snapshots, g.finishing = [], {}, False
                g.sg.running = True
                g.last_k, g.sent = None, set()
                g.ncycles = 4 + tape.draw("c30/cycles-2", 10)
                for t in g.rw:
                    model[t][:] = bytes(len(model[t]))
            tasks = []
            for g in groups:
                tasks.append(g.sg.start())
                if two:
                    await asyncio.sleep([0, 2e-3, 7e-3][tape.draw("c30/stagger", 3)])
            done, pending = await asyncio.wait(tasks, timeout=4.0)
            for t in tasks:
                if t in pending:
                    outcome.append("timeout (second session)")
                    t.cancel()
                elif not t.cancelled() and t.exception() is not None:
                    e = t.exception()
                    outcome.append(f"{type(e).__name__}: {e} (second session)")
            await asyncio.sleep(0.01)

    with env:
        try:
            env.run(main)
        except SimStall as e:
            viol("group-did-not-run", str(e))
        for m, tn, txt in env.loop_exceptions():
            if tn not in ("CancelledError",):
                viol("library-task-died", f"{m}: {tn}: {txt}", exception=tn)
    if outcome and any(len(g.cycles) < g.ncycles for g in groups):
        viol("group-did-not-run", f"{outcome[0]} after {[len(g.cycles) for g in groups]} "
             f"cycles; specs={specs}")
    ncyc = sum(len(g.cycles) for g in groups)
    world.count("c30/cycles", ncyc)
    return {
        "violations": violations, "stats": dict(world.counters),
        "digest": world.digest.hexdigest(), "sim_time": world.now,
        "schedule": world.digest.hexdigest(),
        "nontrivial": all(len(g.cycles) >= 4 for g in groups),
        "sample": {"scenario": scenario, "terminals": specs,
                   "groups": [{"links": g.links, "cycles": len(g.cycles),
                               "missed": g.sg.missed_counter} for g in groups]},
    }
