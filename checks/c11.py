"""C11 Assembled EtherCAT frames are well-formed with exact datagram positions"""
from . import wl_roundtrip

PROPERTY = "C11"
LEVEL = "exploration"
SCENARIOS = {"boundary": 3, "groups": 1}
TIERS = {"quick": {"runs": 6000, "chunk": 40}, "thorough": {"runs": 50000000, "wall_s": 600, "chunk": 200, "recheck": 16}}
RULE = ("every frame handed to the simulated transport in the C12 workload (sizes biased "
        "so frames land at MAXSIZE-k..MAXSIZE+k and at 14/15/16 datagrams) is parsed by an "
        "independent EtherCAT parser and compared with what Packet.append was given and "
        "reported; the schedule decides only which datagram sequences get assembled; "
        "distinct = distinct event-log digests; sterile frames are checked in the "
        "sync-group simulations (C18/C21/C30)")
COMPONENTS = {
    "real": ["ebpfcat.ethercat.Packet.append/assemble", "EtherCat.sendloop batching"],
    "stub": ["event loop", "socket", "wire", "terminals", "independent frame parser (oracle)"]}
ASSUMPTIONS = ["maximum EtherCAT payload taken as 1500 bytes, minimum Ethernet frame 60 bytes"]
MINE = {"frame-malformed", "frame-position-mismatch", "sterile-differs"}


def run(tape, scenario):
    if scenario == "groups":
        # frames (incl. sterile copies) assembled by sync groups in the C18 simulation
        from . import c18
        return c18.run(tape, tape.pick("c11/c18-scenario", ["multi-group", "one-group", "aerotech"]),
                       want_c11=True)
    res = wl_roundtrip.run_workload(tape, faults=False, fmt_args=False,
                                    oversize=False, cancels=False)
    return wl_roundtrip.attribute(res, MINE)
