"""C11 Assembled EtherCAT frames are well-formed with exact datagram positions"""
from . import wl_roundtrip

PROPERTY = "C11"
LEVEL = "exploration"
SCENARIOS = {"boundary": 3, "groups": 1, "packet-api": 2}
TIERS = {"quick": {"runs": 6000, "chunk": 40}, "thorough": {"runs": 50000000, "wall_s": 600, "chunk": 200, "recheck": 16}}
RULE = ("every frame handed to the simulated transport in the C12 workload (sizes biased "
        "so frames land at MAXSIZE-k..MAXSIZE+k and at 14/15/16 datagrams) is parsed by an "
        "independent EtherCAT parser and compared with what Packet.append was given and "
        "reported; the schedule decides only which datagram sequences get assembled; "
        "distinct = distinct event-log digests; sterile frames are checked in the "
        "sync-group simulations (C18/C21/C30)")
RULE += '; since the 4th session frames are also taken from a packet before its last datagram is in, and a packet is assembled again after its sterile copy (same frame expected)'
COMPONENTS = {
    "real": ["ebpfcat.ethercat.Packet.append/assemble", "EtherCat.sendloop batching"],
    "stub": ["event loop", "socket", "wire", "terminals", "independent frame parser (oracle)"]}
ASSUMPTIONS = ["maximum EtherCAT payload taken as 1500 bytes, minimum Ethernet frame 60 bytes"]
MINE = {"frame-malformed", "frame-position-mismatch", "sterile-differs"}


def run_packet_api(tape):
    """2-3 packets built one after the other in one process through the packet API itself
    (Packet / SterilePacket: append, append_writer, append_fmmu), with datagrams that fit,
    just fit and are rejected, the packet being used on after a rejection; every assembled
    and every sterile frame is put on the simulated wire and judged by the independent
    parser against what was accepted"""
    import struct
    from ebpfcat.ebpfcat import SterilePacket
    from ebpfcat.ethercat import ECCmd, Packet
    from sim.bus import parse_ecat
    from sim.seams import Env
    from .wl_roundtrip import MAXSIZE, wire_check

    env = Env(tape)
    world, bus = env.world, env.bus
    violations = []

    def viol(rule, detail, **params):
        if not violations:
            violations.append({"rule": rule, "params": params, "detail": detail})

    READ = [ECCmd.FPRD, ECCmd.APRD, ECCmd.BRD, ECCmd.LRD]
    WRITE = [ECCmd.FPWR, ECCmd.APWR, ECCmd.BWR, ECCmd.LWR, ECCmd.FPRW, ECCmd.LRW]
    frames = []
    hist = []

    def one_packet(pno):
        sterile = tape.chance("c11/sterile-packet", 70)
        p = SterilePacket() if sterile else Packet()
        accepted = []           # (cmd, idx, address tuple, data, preset, writer)
        size, n = 16, 0
        target = tape.pick("c11/target-size", [200, 600, 1400, 1500, 1500, 1500])
        for k in range(2 + tape.draw("c11/ndgrams", 18)):
            writer = sterile and tape.chance("c11/writer", 45)
            cmd = tape.pick("c11/cmd", WRITE if writer or not sterile and tape.chance(
                "c11/plain-write", 40) else READ)
            room = target - size - 12
            ln = tape.pick("c11/len", [0, 1, 2, max(0, room), max(0, room + 1), max(0, room - 1),
                                       tape.draw("c11/len-any", 300), max(0, room + 2)])
            ln = min(ln, 1600)
            data = tape.bytes("c11/data", min(ln, 6)) + bytes((k * 29 + i * 7 + 1) & 0xff
                                                              for i in range(max(0, ln - 6)))
            data = data[:ln]
            idx = tape.draw("c11/idx", 256)
            if cmd in (ECCmd.LRD, ECCmd.LWR, ECCmd.LRW):
                address = (tape.draw("c11/logical", 1 << 31),)
            else:
                address = (tape.draw("c11/adp", 1 << 15), tape.draw("c11/ado", 1 << 16))
            preset = tape.draw("c11/preset", 4)
            fits = size + 12 + ln <= MAXSIZE and n < 15
            try:
                if sterile and writer:
                    p.append_writer(cmd, data, idx, *address, counter=preset)
                elif sterile:
                    p.append(cmd, data, idx, *address, counter=preset)
                else:
                    p.append(cmd, data, idx, *address, wkc=preset)
                ok = True
            except OverflowError:
                ok = False
                world.count("c11/datagram-rejected")
            if ok != fits:
                viol("frame-malformed" if ok else "frame-position-mismatch",
                     f"packet {pno}: datagram {k} of {ln} bytes was "
                     f"{'accepted' if ok else 'rejected'} with {size} bytes and {n} datagrams "
                     f"in the packet", accepted=ok)
                return
            if ok:
                accepted.append((cmd, idx, address, data, preset, writer and sterile))
                size += 12 + ln
                n += 1
            if tape.chance("c11/assembled-while-being-filled", 12):
                # a frame is taken from the packet (assembled, or as sterile copy) before
                # the last datagram is in: what is assembled later holds them all
                try:
                    if sterile and tape.chance("c11/early-sterile", 50):
                        p.sterile(7, 0x88A4)
                    else:
                        p.assemble(7, 0x88A4)
                    world.count("c11/frame-taken-before-the-last-datagram")
                except Exception as e:
                    viol("frame-malformed", f"packet {pno}: early assemble raised "
                         f"{type(e).__name__}: {e}", exception=type(e).__name__)
                    return
        index = 2000 + tape.draw("c11/index", 1 << 20)
        hist.append((sterile, n, size))
        try:
            full = p.assemble(index, 0x88A4)
        except Exception as e:
            viol("frame-malformed", f"packet {pno}: assemble raised {type(e).__name__}: {e}",
                 exception=type(e).__name__)
            return
        frames.append(full)
        err, dg = wire_check(b"\xff" * 6 + b"\x02\0\0\0\0\x01\x88\xa4" + full)
        if err is not None:
            viol("frame-malformed", f"packet {pno} ({n} datagrams, {size} bytes): {err}")
            return
        if len(dg) != n + 1:
            viol("frame-malformed", f"packet {pno}: {len(dg) - 1} datagrams on the wire, "
                 f"{n} were accepted")
            return
        pos = 16
        for d, (cmd, idx, address, data, preset, writer) in zip(dg[1:], accepted):
            want_addr = address[0] if len(address) == 1 else address[0] | address[1] << 16
            if (d.cmd, d.idx, d.addr, d.length) != (cmd.value, idx, want_addr, len(data)) \
                    or full[d.data_pos:d.wkc_pos] != data \
                    or struct.unpack_from("<H", full, d.wkc_pos)[0] != preset \
                    or d.hdr_pos != pos:
                viol("frame-position-mismatch",
                     f"packet {pno}: datagram at {d.hdr_pos} carries cmd {d.cmd} idx {d.idx} "
                     f"addr {d.addr:#x} len {d.length} preset "
                     f"{struct.unpack_from('<H', full, d.wkc_pos)[0]}; accepted was "
                     f"{cmd.value} {idx} {want_addr:#x} {len(data)} {preset} at {pos}")
                return
            if sterile and p.counters.get(d.wkc_pos) != preset:
                viol("frame-position-mismatch",
                     f"packet {pno}: counters reports {p.counters.get(d.wkc_pos)} at "
                     f"{d.wkc_pos}, the datagram's working counter {preset} sits there; "
                     f"counters = {sorted(p.counters.items())}")
                return
            pos = d.wkc_pos + 2
        if sterile:
            if set(p.counters) != {d.wkc_pos for d in dg[1:]}:
                viol("frame-position-mismatch",
                     f"packet {pno}: counters has positions {sorted(p.counters)}, the "
                     f"working counters sit at {sorted(d.wkc_pos for d in dg[1:])}")
                return
            try:
                ster = bytes(p.sterile(index, 0x88A4))
            except Exception as e:
                viol("sterile-differs", f"packet {pno}: sterile raised {type(e).__name__}: {e}",
                     exception=type(e).__name__)
                return
            frames.append(ster)
            writers = {d.hdr_pos for d, a in zip(dg[1:], accepted) if a[5]}
            diff = {i for i in range(max(len(full), len(ster)))
                    if i >= len(full) or i >= len(ster) or full[i] != ster[i]}
            nonzero = {w for w in writers if full[w] != 0}
            if diff != nonzero or any(ster[w] != 0 for w in writers):
                viol("sterile-differs", f"packet {pno}: sterile and assembled frame differ at "
                     f"{sorted(diff)}, write datagram command bytes are at {sorted(writers)}")
                return
        if tape.chance("c11/assembled-again", 50):
            # the same packet assembled once more (after the sterile copy was made): the
            # same frame as before
            try:
                again = p.assemble(index, 0x88A4)
            except Exception as e:
                viol("frame-malformed", f"packet {pno}: second assemble raised "
                     f"{type(e).__name__}: {e}", exception=type(e).__name__)
                return
            frames.append(again)
            if again != full:
                at = next((i for i in range(min(len(again), len(full))) if again[i] != full[i]),
                          min(len(again), len(full)))
                viol("frame-position-mismatch",
                     f"packet {pno}: assembled a second time{' after sterile()' if sterile else ''}"
                     f" the frame differs from the first one at byte {at} "
                     f"({full[at:at + 4].hex()} -> {again[at:at + 4].hex()})", again=True)

    with env:
        for pno in range(2 + tape.draw("c11/npackets", 2)):
            if violations:
                break
            one_packet(pno)
    import hashlib
    digest = hashlib.sha256(b"".join(frames)).hexdigest()
    return {"violations": violations, "stats": dict(world.counters), "digest": digest,
            "sim_time": 0.0, "schedule": digest, "nontrivial": any(n >= 2 for _, n, _ in hist),
            "sample": {"scenario": "packet-api", "packets": hist}}


def run(tape, scenario):
    if scenario == "packet-api":
        return run_packet_api(tape)
    if scenario == "groups":
        # frames (incl. sterile copies) assembled by sync groups in the C18 simulation
        from . import c18
        return c18.run(tape, tape.pick("c11/c18-scenario", ["multi-group", "one-group", "aerotech"]),
                       want_c11=True)
    res = wl_roundtrip.run_workload(tape, faults=False, fmt_args=False,
                                    oversize=False, cancels=False)
    return wl_roundtrip.attribute(res, MINE)
