"""C10 User-space map calls never overrun Python buffers"""
from . import c08, c09

PROPERTY = "C10"
LEVEL = "exploration"
SCENARIOS = {"array-percpu": 4, "array-hierarchy": 2, "hash-vars": 4, "dict": 4, "dict-strings": 1}
TIERS = {"quick": {"runs": 9000, "chunk": 30}, "thorough": {"runs": 50000000, "wall_s": 600, "chunk": 150, "recheck": 16}}
RULE = ("the C08 and C09 histories (array, per-CPU and hash variables of every format read "
        "and written from Python; Dict set/get/pop/del/iteration, also with byte-string members shorter than their field; possible CPUs drawn from "
        "{online, online+1, 2x online, online+124}) run against the kernel stub with a "
        "buffer monitor at the bpf() seam: for every MAP_* command the length of the Python "
        "buffer behind each key/value/next-key address (recorded when the library takes the "
        "address) must be >= key size, value size, resp. round_up(value size, 8) x possible "
        "CPUs; the stub never touches more than the buffer holds; distinct = distinct "
        "(declarations, history) digests; non-trivial as in C08/C09")
RULE += '; since the 4th session also an unusable possible-CPU file with a pinned process, and a large table whose creation is refused once with EPERM under a locked-memory limit'
COMPONENTS = {
    "real": ["ebpfcat.bpf._lookup_elem/update_elem/delete_elem/get_next_key and their "
             "callers in hashmap.py, arraymap.py, ebpfcat.py"],
    "stub": ["bpf() kernel side with buffer monitor", "address->length registry at the "
             "addrof/addressof seams"]}
ASSUMPTIONS = ["an address that was not taken through ebpfcat.bpf.addrof/addressof is counted "
               "as unjudged (expected 0), not guessed"]


def run(tape, scenario):
    if scenario == "array-percpu":
        res = c08.run(tape, "percpu", want_c10=True)
    elif scenario == "array-hierarchy":
        res = c08.run(tape, "hierarchy", want_c10=True)
    elif scenario == "hash-vars":
        res = c09.run(tape, "vars", want_c10=True)
    elif scenario == "dict-strings":
        res = c09.run(tape, "dict-strings", want_c10=True)
    else:
        res = c09.run(tape, "dict", want_c10=True)
    if res["stats"].get("c10/unjudged"):
        res["stats"]["probe/unjudged-addresses"] = res["stats"]["c10/unjudged"]
    return res
