"""C20 A terminal's FMMUs are never shared by two live mappings"""
import asyncio
import struct

from sim.bus import SimTerminal, WireFaults
from sim.loop import SimStall
from sim.seams import Env

PROPERTY = "C20"
LEVEL = "exploration"
SCENARIOS = {"nofault": 3, "faults": 2, "groups": 2}
TIERS = {"quick": {"runs": 15000, "chunk": 50}, "thorough": {"runs": 50000000, "wall_s": 600, "chunk": 300, "recheck": 16}}
RULE = ("one run = 1-2 simulated terminals with 1-4 FMMUs and 2-10 mapping tasks that "
        "enter and leave Terminal.map_fmmu(logical, write) contexts (single, or nested "
        "write+read as SyncGroupBase.map_fmmu does) with drawn start times and durations, in "
        "40 % of the runs some at a logical address another live mapping of the terminal uses, "
        "so that mappings nest and overlap; 'faults' adds cancellation of a mapping task "
        "and unprocessed register writes; after every enter/exit the slot table and the "
        "terminal's FMMU register file are compared with the set of live mappings; "
        "distinct = distinct sequences of (enter/exit, terminal, direction, slot) events; "
        "non-trivial = at least two mappings were live at the same time")
RULE += "; since the 4th session windows may start at logical address 0, a third of the 'groups' runs use fast groups, which are also cancelled and started again at once"
RULE += '; the Terminal objects of the basic scenarios are brought up by the real Terminal.initialize()'
COMPONENTS = {
    "real": ["ebpfcat.ethercat.Terminal.map_fmmu/write", "EtherCat.roundtrip path"],
    "stub": ["event loop", "socket", "wire", "ESC FMMU register file"]}
ASSUMPTIONS = [
    "a mapping that fails although an FMMU is free is tolerated (the statement only "
    "forbids reuse); a mapping that ends by cancellation or error may leave its FMMU "
    "active in the terminal (only the slot table is judged for those)"]


def fmmu_reg(term, i):
    lstart, length, lsb, lstop, pstart, psb, typ, act = struct.unpack_from(
        "<IHBBHBBB", term.mem, 0x600 + 16 * i)
    return {"logical": lstart, "length": length, "phys": pstart, "type": typ, "active": act & 1}


def run_groups(tape):
    """the mappings as sync groups make them (what the documentation allows): 2-4 real slow
    SyncGroups over 1-3 terminals that several of them read (at most one writes a terminal),
    started and cancelled at drawn times; terminals may be found with an AL error or raise
    one later. After every start and stop and in between: every process-data mapping of a
    group that is cycling has its own active FMMU in the terminal (the FMMU register holds
    the group's logical address), and the terminal's slot table says the same"""
    from ebpfcat.ebpfcat import SyncGroup
    from ebpfcat.ethercat import EtherCat, SyncManager
    from . import wl_groups as wl
    from .c21 import build_devices

    # in a third of the runs the groups are fast ones (FastEtherCat, programs in the
    # kernel): only those may be cancelled and started again without waiting in between
    fast = tape.chance("c20g/fast-groups", 35)
    env = Env(tape, with_kernel=fast, faults=WireFaults(delay_buckets=(50e-6, 20e-6, 200e-6)))
    world = env.world
    if fast:
        from ebpfcat.ebpfcat import FastEtherCat, FastSyncGroup
        ec = FastEtherCat("sim0")
        Group = FastSyncGroup
        world.count("c20g/fast-groups")
    else:
        ec = EtherCat("sim0")
        Group = SyncGroup
    specs = wl.gen_specs(tape, "c20g", max_terms=3, max_sz=6, allow_direct=False)
    for sp in specs:
        sp["n_fmmu"] = 2 + tape.draw("c20g/nfmmu", 4)
        if not sp["in_sz"]:
            sp["in_sz"] = 1 + tape.draw("c20g/in_sz", 4)
    sims, terms = wl.build(env, ec, specs)
    for st in sims:
        st.al_error = tape.chance("c20g/al-start-error", 25)
        st.al_code = 0x1a if st.al_error else 0
        if tape.chance("c20g/al-error-later", 25):
            poll_no = 3 + tape.draw("c20g/al-error-poll", 40)
            cnt = [0]

            def spont(cnt=cnt, poll_no=poll_no):
                cnt[0] += 1
                return 0x1b if cnt[0] == poll_no else 0
            st.al_spontaneous_error = spont
    ngroups = 2 + tape.draw("c20g/ngroups", 3)
    violations = []
    events = []

    def viol(rule, detail, **params):
        if not violations:
            violations.append({"rule": rule, "params": params, "detail": detail})

    writer_of = {}
    groups = []
    for gi in range(ngroups):
        members = [k for k in range(len(specs)) if tape.chance("c20g/member", 70)] or [0]
        links = []
        for k in members:
            links.append(dict(term=k, sm="in", pos=0, size="B"))
            if specs[k]["out_sz"] and k not in writer_of and tape.chance("c20g/writes", 50):
                writer_of[k] = gi
                links.append(dict(term=k, sm="out", pos=0, size="B"))
        g = dict(gi=gi, links=links, devices=build_devices(tape, terms, links, f"c20g/g{gi}"),
                 sg=None, task=None, cycles=0, state="new")
        groups.append(g)
    max_live = [0]

    def check(when):
        live = [g for g in groups if g["state"] == "cycling" and not g["task"].done()]
        max_live[0] = max(max_live[0], len(live))
        for k, (t, st) in enumerate(zip(terms, sims)):
            want = []       # (group, direction, logical address)
            for g in live:
                for sm, base in g["sg"].fmmu_maps.get(t, {}).items():
                    want.append((g["gi"], "out" if sm == SyncManager.OUT else "in", base))
            regs = [fmmu_reg(st, i) for i in range(st.n_fmmu)]
            used_idx = set()
            for gi, direction, base in want:
                idx = [i for i, r in enumerate(regs) if r["active"] and r["logical"] == base
                       and r["type"] == (2 if direction == "out" else 1)]
                if not idx:
                    viol("fmmu-shared",
                         f"{when}: terminal {k}: the {direction} mapping of cycling group {gi} "
                         f"(logical {base:#x}) has no active FMMU any more; registers "
                         f"{[(r['logical'], r['type'], r['active']) for r in regs]}, slot "
                         f"table {t.fmmu_used}", groups=True)
                    return
                if idx[0] in used_idx:
                    viol("fmmu-shared", f"{when}: terminal {k} FMMU {idx[0]} serves two "
                         f"mappings", groups=True)
                    return
                used_idx.add(idx[0])
                if t.fmmu_used[idx[0]] != base:
                    viol("slot-table-mismatch",
                         f"{when}: terminal {k} FMMU {idx[0]} is active for group {gi} "
                         f"(logical {base:#x}) but the slot table holds {t.fmmu_used}",
                         groups=True)
                    return

    async def run_group(g):
        await asyncio.sleep([0, 1e-3, 5e-3, 20e-3][tape.draw("c20g/start", 4)])
        nsessions = 1 + tape.draw("c20g/sessions", 2)
        restarted = False
        for session in range(nsessions):
            if not restarted:
                sg = g["sg"] = Group(ec, g["devices"])
                orig = sg.update_devices

                def update_devices(data, g=g, orig=orig):
                    g["cycles"] += 1
                    if g["state"] == "starting":
                        g["state"] = "cycling"
                        events.append(("cycling", g["gi"]))
                        check(f"group {g['gi']} started cycling")
                    return orig(data)
                sg.update_devices = update_devices
                g["state"] = "starting"
                try:
                    g["task"] = sg.start()
                except Exception as e:
                    events.append(("refused", g["gi"], type(e).__name__))
                    g["state"] = "failed"
                    return
            restarted = False
            hold = [5e-3, 20e-3, 60e-3][tape.draw("c20g/hold", 3)]
            done, pending = await asyncio.wait([g["task"]], timeout=hold)
            if done:
                # start-up failed (no free FMMU: refused; AL error: EtherCatError)
                e = None if g["task"].cancelled() else g["task"].exception()
                events.append(("ended", g["gi"], type(e).__name__))
                world.count(f"c20g/group-ended-{type(e).__name__}")
                g["state"] = "failed"
            elif fast and session + 1 < nsessions and tape.chance("c20g/restart-at-once", 50):
                # the same group object is cancelled and started again at once: the old
                # run winds down (its terminals go back to SAFE-OPERATIONAL, its FMMUs
                # are released) while the new one already maps its own
                check(f"before group {g['gi']} is restarted")
                old = g["task"]
                old.cancel()
                g["state"] = "starting"
                events.append(("restarted", g["gi"]))
                world.count("c20g/group-cancelled-and-started-again-at-once")
                try:
                    g["task"] = sg.start()
                    restarted = True
                except Exception as e:
                    events.append(("refused", g["gi"], type(e).__name__))
                    g["state"] = "failed"
                await asyncio.wait([old], timeout=1.0)
                if not restarted:
                    return
                continue
            else:
                check(f"before group {g['gi']} is stopped")
                g["state"] = "stopping"
                g["task"].cancel()
                await asyncio.wait([g["task"]], timeout=1.0)
                g["state"] = "stopped"
                events.append(("stopped", g["gi"]))
            check(f"after group {g['gi']} ended")
            await asyncio.sleep([1e-3, 5e-3][tape.draw("c20g/gap", 2)])

    async def main(loop):
        await ec.connect()
        tasks = [asyncio.ensure_future(run_group(g)) for g in groups]
        t = 0.0
        while not all(x.done() for x in tasks) and t < 1.0:
            await asyncio.sleep(3e-3)
            t += 3e-3
            check(f"t={t * 1e3:.0f} ms")
        for x in tasks:
            if x.done() and not x.cancelled() and x.exception() is not None:
                e = x.exception()
                viol("mapping-raised", f"{type(e).__name__}: {e}", exception=type(e).__name__,
                     groups=True)
            x.cancel()
        for g in groups:
            if g["task"] is not None:
                g["task"].cancel()
        await asyncio.sleep(5e-3)
        for k, t in enumerate(terms):
            if any(x is not None for x in t.fmmu_used):
                viol("slot-not-freed", f"terminal {k}: table {t.fmmu_used} after all groups "
                     f"ended", groups=True)

    with env:
        try:
            env.run(main)
        except SimStall as e:
            viol("did-not-finish", str(e), groups=True)
        for m, tn, txt in env.loop_exceptions():
            if tn != "CancelledError":
                viol("library-task-died", f"{m}: {tn}: {txt}", exception=tn, groups=True)
    world.count("c20/max-live", max_live[0])
    return {
        "violations": violations, "stats": dict(world.counters),
        "digest": world.digest.hexdigest(), "sim_time": world.now,
        "schedule": repr(events), "nontrivial": max_live[0] >= 2,
        "sample": {"scenario": "groups", "terminals": [s.n_fmmu for s in sims],
                   "groups": [[(l["term"], l["sm"]) for l in g["links"]] for g in groups],
                   "events": events[:24], "max_live": max_live[0]},
    }


def run(tape, scenario):
    if scenario == "groups":
        return run_groups(tape)
    from ebpfcat.ethercat import EtherCat, EtherCatError, Terminal

    faults = scenario == "faults"
    env = Env(tape, faults=WireFaults(delay_buckets=(50e-6, 20e-6, 200e-6)))
    world = env.world
    nterm = 1 + tape.draw("c20/nterm", 2)
    sims, terms, sizes = [], [], []
    ec = EtherCat("sim0")
    for k in range(nterm):
        nf = 1 + tape.draw("c20/nfmmu", 4)
        from sim import sii
        st = SimTerminal(env.bus, f"T{k}", station=1001 + k, n_fmmu=nf,
                         eeprom=sii.build(2, 0x100 + k, 1, 7 + k))
        env.bus.add_terminal(st)
        t = Terminal(ec)
        t.name = f"T{k}"
        # (the Terminal object is brought up by the real initialize(), so that it has
        # whatever that leaves on it; only the process-data areas are given by hand)
        sizes.append((4 + tape.draw("c20/insz", 20), 4 + tape.draw("c20/outsz", 20)))
        sims.append(st)
        terms.append(t)

    live = {}            # mapping id -> (terminal index, write, logical, slot)
    claims = {}          # mapping id -> (terminal index, logical) from before map_fmmu is
                         # entered until it is left for good (a slot is reserved before
                         # the configuring write and released after the deactivating one)
    violations = []
    events = []
    max_live = [0]
    # (in some runs the first window handed out is the one at logical address 0)
    next_logical = [0 if tape.chance("c20/windows-start-at-zero", 30) else 0x10000]

    def viol(rule, detail, **params):
        if not violations:
            violations.append({"rule": rule, "params": params, "detail": detail})

    def check(when):
        for k, (t, st) in enumerate(zip(terms, sims)):
            mine = [(mid, m) for mid, m in live.items() if m[0] == k]
            slots = {}
            for mid, (_, write, logical, slot) in mine:
                norm = slot % len(t.fmmu_used) if -len(t.fmmu_used) <= slot < len(t.fmmu_used) \
                    else slot
                if norm in slots:
                    viol("fmmu-shared",
                         f"{when}: terminal {k} slot {slot} used by live mappings "
                         f"{slots[norm]} and {(write, hex(logical))}; table {t.fmmu_used}",
                         write=bool(write))
                slots[norm] = (write, hex(logical))
                if not 0 <= slot < st.n_fmmu:
                    viol("fmmu-index-out-of-range",
                         f"{when}: terminal {k} mapping {(write, hex(logical))} got slot "
                         f"{slot} of {st.n_fmmu}", write=bool(write))
                    continue
                if t.fmmu_used[slot] != logical:
                    viol("slot-table-mismatch",
                         f"{when}: terminal {k} slot {slot} holds {t.fmmu_used[slot]}, live "
                         f"mapping has {hex(logical)}")
                reg = fmmu_reg(st, slot)
                want = {"logical": logical,
                        "length": t.pdo_out_sz if write else t.pdo_in_sz,
                        "phys": t.pdo_out_off if write else t.pdo_in_off,
                        "type": 2 if write else 1, "active": 1}
                if reg != want:
                    viol("fmmu-register-mismatch",
                         f"{when}: terminal {k} FMMU {slot} registers {reg}, live mapping "
                         f"needs {want}", write=bool(write))
            for ado, data in st.reg_write_log:
                if 0x500 <= ado < 0x800 and not (0x600 <= ado and ado + len(data)
                                                 <= 0x600 + 16 * st.n_fmmu) \
                        and not 0x502 <= ado < 0x510:
                    viol("fmmu-register-write-outside",
                         f"{when}: terminal {k} register write at {ado:#x} (+{len(data)}), "
                         f"FMMUs are {0x600:#x}..{0x600 + 16 * st.n_fmmu:#x}")
            st.reg_write_log.clear()
        max_live[0] = max(max_live[0], len(live))

    mid_counter = [0]

    # per run: may two live mappings of one terminal carry the same logical address (inputs
    # and outputs placed at one address for LRW, or two groups mapping the same window)?
    share_logical = tape.chance("c20/share-logical", 40)

    def stale(k, logical):
        """is `logical` in terminal k's slot table more often than live mappings carry it?"""
        have = sum(1 for x in terms[k].fmmu_used if x == logical)
        want = sum(1 for m in claims.values() if m == (k, logical))
        return have > want

    async def one_mapping(k, write, hold, nested=None, raise_in_body=False, same_as=None):
        t, st = terms[k], sims[k]
        candidates = sorted({m[2] for m in live.values() if m[0] == k})
        if same_as is not None:
            logical = same_as
        elif share_logical and candidates and tape.chance("c20/same-logical", 40):
            logical = tape.pick("c20/which-logical", candidates)
            world.count("c20/shared-logical-address")
        else:
            logical = next_logical[0]
            next_logical[0] += 0x1000
        mid_counter[0] += 1
        mid = mid_counter[0]
        free_before = sum(1 for x in t.fmmu_used if x is None)
        live_here = sum(1 for m in live.values() if m[0] == k)
        nested_same = nested is not None and share_logical and tape.chance("c20/nested-same", 50)
        entered = False
        claims[mid] = (k, logical)
        try:
            async with t.map_fmmu(logical, write) as slot:
                entered = True
                live[mid] = (k, write, logical, slot)
                events.append(("enter", k, write, slot))
                world.log("c20", "enter", k, write, slot)
                if live_here >= st.n_fmmu:
                    viol("mapped-without-free-fmmu",
                         f"terminal {k}: all {st.n_fmmu} FMMUs were live, mapping "
                         f"{(write, hex(logical))} still got slot {slot}")
                check(f"after enter #{mid}")
                if nested is not None:
                    await one_mapping(*nested, same_as=logical if nested_same else None)
                else:
                    await asyncio.sleep(hold)
                if raise_in_body:
                    raise RuntimeError("user error in the body")
                live.pop(mid, None)
                events.append(("exit", k, write, slot))
            claims.pop(mid, None)
            # normal exit: its own FMMU is deactivated and its slot is free again
            if 0 <= slot < st.n_fmmu:
                others = [m for m in live.values() if m[0] == k and m[3] == slot]
                if not others:
                    if fmmu_reg(st, slot)["active"]:
                        viol("fmmu-left-active", f"terminal {k} FMMU {slot} still active "
                             f"after its mapping ended normally")
                    if t.fmmu_used[slot] is not None:
                        viol("slot-not-freed", f"terminal {k} slot {slot} holds "
                             f"{t.fmmu_used[slot]} after its mapping ended")
            check(f"after exit #{mid}")
        except ValueError as e:
            live.pop(mid, None)
            claims.pop(mid, None)
            events.append(("refused", k, write))
            world.count("c20/refused")
            if entered:
                raise
        except EtherCatError:
            live.pop(mid, None)
            claims.pop(mid, None)
            world.count("c20/register-write-not-processed")
            events.append(("io-error", k, write))
            if not entered and stale(k, logical):
                viol("slot-not-freed", f"terminal {k}: failed mapping left {hex(logical)} "
                     f"in the table {t.fmmu_used}")
        except RuntimeError:
            live.pop(mid, None)
            claims.pop(mid, None)
            events.append(("body-error", k, write))
            if stale(k, logical):
                viol("slot-not-freed", f"terminal {k}: mapping ended by an exception left "
                     f"{hex(logical)} in the table {t.fmmu_used}")
        except asyncio.CancelledError:
            live.pop(mid, None)
            claims.pop(mid, None)
            events.append(("cancelled", k, write))
            if stale(k, logical):
                viol("slot-not-freed", f"terminal {k}: cancelled mapping left "
                     f"{hex(logical)} in the table {t.fmmu_used}")
            raise

    DELAYS = [0, 30e-6, 100e-6, 300e-6, 1e-3, 3e-3]

    async def worker(i):
        await asyncio.sleep(DELAYS[tape.draw("c20/start", 6)])
        for _ in range(1 + tape.draw("c20/ops", 3)):
            k = tape.draw("c20/term", nterm)
            write = bool(tape.draw("c20/write", 2))
            hold = DELAYS[1 + tape.draw("c20/hold", 5)]
            nested = None
            if tape.chance("c20/nested", 30):
                nested = (k, not write, hold, None, False)
            boom = faults and tape.chance("fault/body-raises", 8)
            await one_mapping(k, write, hold, nested, boom)
            await asyncio.sleep(DELAYS[tape.draw("c20/gap", 4)])

    async def main(loop):
        await ec.connect()
        for k, (t, st) in enumerate(zip(terms, sims)):
            await t.initialize(absolute=1001 + k)
            t.pdo_in_off, t.pdo_in_sz = 0x1100, sizes[k][0]
            t.pdo_out_off, t.pdo_out_sz = 0x1000, sizes[k][1]
            if faults:
                st.skip_datagram = lambda d: d.cmd == 5 and tape.chance("fault/skip-regwrite", 6)
        nw = 2 + tape.draw("c20/workers", 4)
        tasks = [asyncio.ensure_future(worker(i)) for i in range(nw)]
        if faults:
            for t in tasks:
                if tape.chance("cancel/worker", 20):
                    loop.call_later(DELAYS[1 + tape.draw("cancel/when", 5)], t.cancel)
        await asyncio.wait(tasks, timeout=5)
        for t in tasks:
            if t.done() and not t.cancelled() and t.exception() is not None:
                e = t.exception()
                viol("mapping-raised", f"{type(e).__name__}: {e}", exception=type(e).__name__)
        await asyncio.sleep(1e-3)
        check("end")
        for k, t in enumerate(terms):
            if any(x is not None for x in t.fmmu_used):
                viol("slot-not-freed", f"terminal {k}: table {t.fmmu_used} at the end")

    with env:
        env.run(main)
        for m, tn, txt in env.loop_exceptions():
            viol("library-task-died", f"{m}: {tn}: {txt}", exception=tn)
    world.count("c20/max-live", max_live[0])
    return {
        "violations": violations, "stats": dict(world.counters),
        "digest": world.digest.hexdigest(), "sim_time": world.now,
        "schedule": repr(events), "nontrivial": max_live[0] >= 2,
        "sample": {"terminals": [s.n_fmmu for s in sims], "events": events[:24],
                   "max_live": max_live[0]},
    }
