"""C21 Fast-group frames only write outputs computed in the same pass"""
import asyncio
import struct

from sim.bus import FPWR, LWR, NOP, WireFaults, parse_ecat
from sim.loop import SimStall
from sim.seams import Env

from . import wl_groups as wl

PROPERTY = "C21"
LEVEL = "exploration"
SCENARIOS = {"nofault": 2, "wire-faults": 3, "wkc-faults": 2, "two-groups": 2}
TIERS = {"quick": {"runs": 2400, "chunk": 10}, "thorough": {"runs": 50000000, "wall_s": 600, "chunk": 50, "recheck": 16}}
RULE = ("one run = FastEtherCat + one (in 'two-groups': two, on disjoint terminals) real FastSyncGroup with a tape-generated layout (1-4 "
        "terminals, FMMU and direct writers/readers, a quarter of them Aerotech-style with "
        "their separate one-byte datagrams, 1-3 generated devices) on the simulated "
        "bus; the real dispatcher and group byte code run in the eBPF interpreter on every "
        "returning frame; the wire loses/delays frames, terminals return correct or wrong "
        "working counters, the run loop switches wkc_errors between 0 (outputs disabled) "
        "and non-zero as in the real start-up; oracle per dispatcher pass (frame before, "
        "after, action, tail call, wkc_errors before/after) and on every frame leaving user "
        "space; distinct = distinct event-log digests; non-trivial = at least 10 passes in "
        "which the group program ran")
RULE += "; since the 4th session 'wire-faults' also starves user space for 105-165 ms (frames dropped at the socket) with the rule that a frame the program left alone does not go back enabled, and 'nofault' also stops the group, grows a terminal and starts the same object again (refused, or judged against the new layout)"
RULE += "; 'wkc-faults' also: wrong counters on write datagrams that went round disabled, and the shipped RandomDropper device in the group (25 %)"
COMPONENTS = {
    "real": ["ebpfcat.ebpfcat.SterilePacket.sterile/activate", "FastSyncGroup.program/run/"
             "update_devices", "EtherXDP.program", "FastEtherCat.connect/register_sync_group",
             "PacketVar/DeviceVar program path", "code generator"],
    "stub": ["bpf() kernel side (SimKernel) + eBPF interpreter", "event loop", "socket",
             "wire with faults", "ESC with FMMU emulation"]}
ASSUMPTIONS = ["no verifier in the simulated kernel", "acyclic start-up datagrams are never "
               "lost (no retry in the code); loss is enabled while the group cycles"]

WRITE_CMDS = (2, 3, 5, 6, 8, 9, 11, 12, 13, 14)


WIDER = {"b": "bhiq", "h": "hiq", "i": "iq", "q": "q", "B": "BHIQ", "H": "HIQ", "I": "IQ", "Q": "Q"}


def make_fast_device(ins, outs, in_fmts=None, consts=None, twice=None, reread=None):
    """device class copying each linked input into a DeviceVar (possibly a wider
    one of the same signedness) and each writable DeviceVar - or a constant
    fixed at generation time - into its linked output, in the generated program"""
    from ebpfcat.ebpfcat import Device, DeviceVar, TerminalVar
    in_fmts = in_fmts or ["I" if isinstance(ln["size"], int) else ln["size"] for ln in ins]
    consts = consts or [None] * len(outs)
    twice = twice or [False] * len(outs)      # output written twice: first 0, then the value
    reread = reread or [False] * len(ins)     # input read twice
    ns = {}
    for i, ln in enumerate(ins):
        ns[f"i{i}"] = TerminalVar()
        ns[f"vi{i}"] = DeviceVar(in_fmts[i])
    for j, ln in enumerate(outs):
        ns[f"o{j}"] = TerminalVar()
        ns[f"vo{j}"] = DeviceVar("I" if isinstance(ln["size"], int) else ln["size"], write=True)

    def program(self):
        for i in range(len(ins)):
            setattr(self, f"vi{i}", getattr(self, f"i{i}"))
            if reread[i]:
                setattr(self, f"vi{i}", getattr(self, f"i{i}"))
        for j in range(len(outs)):
            if twice[j]:
                setattr(self, f"o{j}", 0)
            if consts[j] is None:
                setattr(self, f"o{j}", getattr(self, f"vo{j}"))
            else:
                setattr(self, f"o{j}", consts[j])

    def update(self):      # same thing on the Python path (slow groups)
        program(self)
    ns["program"] = program
    ns["update"] = update
    ns["fast_update"] = lambda self: None
    return type("GenDev", (Device,), ns)


def build_devices(tape, terms, links, label, variants=False, var_factory=None):
    from ebpfcat.ebpfcat import PacketVar
    from ebpfcat.ethercat import SyncManager
    from . import wl_groups as wl
    ndev = 1 + tape.draw(f"{label}/ndev", 3)
    per = [[] for _ in range(ndev)]
    for ln in links:
        per[tape.draw(f"{label}/dev", ndev)].append(ln)
    devices = []
    for dl in per:
        if not dl:
            continue
        ins = [ln for ln in dl if ln["sm"] == "in"]
        outs = [ln for ln in dl if ln["sm"] == "out"]
        in_fmts = consts = twice = reread = None
        if variants:
            twice = [tape.chance(f"{label}/written-twice", 25) for ln in outs]
            reread = [tape.chance(f"{label}/read-twice", 15) for ln in ins]
            in_fmts = []
            for ln in ins:
                if isinstance(ln["size"], int):
                    in_fmts.append("I")
                else:
                    w = WIDER[ln["size"]]
                    in_fmts.append(w[tape.draw(f"{label}/widen", len(w))])
            consts = [wl.draw_value(tape, ln, label) if tape.chance(f"{label}/const", 30)
                      else None for ln in outs]
        dev = make_fast_device(ins, outs, in_fmts, consts, twice, reread)()
        dev.ins, dev.outs, dev.consts = ins, outs, consts or [None] * len(outs)
        mk = var_factory or (lambda ln, sm: PacketVar(terms[ln["term"]], sm, ln["pos"], ln["size"]))
        for i, ln in enumerate(ins):
            setattr(dev, f"i{i}", mk(ln, SyncManager.IN))
        for j, ln in enumerate(outs):
            setattr(dev, f"o{j}", mk(ln, SyncManager.OUT))
        devices.append(dev)
    return devices


def run(tape, scenario):
    from ebpfcat.ebpfcat import FastEtherCat, FastSyncGroup

    wf = WireFaults(delay_buckets=(50e-6, 20e-6, 200e-6, 3e-3))
    env = Env(tape, with_kernel=True, faults=wf)
    world, bus = env.world, env.bus
    ec = FastEtherCat("sim0")
    two = scenario == "two-groups"
    specs = wl.gen_specs(tape, "c21", max_terms=4, max_sz=10, allow_aero=True)
    if two and len(specs) < 2:
        specs = specs + wl.gen_specs(tape, "c21b", max_terms=2, max_sz=10, allow_aero=True)
    sims, terms = wl.build(env, ec, specs)
    all_links = wl.gen_links(tape, specs, "c21", max_vars=3)
    # terminals are split between the groups (disjoint sets)
    owner = [tape.draw("c21/group-of-terminal", 2) if two else 0 for _ in specs]
    if two:
        owner[0], owner[1] = 0, 1
    violations = []

    def viol(rule, detail, **params):
        if not violations:
            violations.append({"rule": rule, "params": params, "detail": detail})

    class Group:
        pass
    groups = []
    for gi in range(2 if two else 1):
        g = Group()
        g.no = gi
        g.links = [ln for ln in all_links if owner[ln["term"]] == gi]
        if not g.links:
            k = owner.index(gi)
            g.links = [dict(term=k, sm="in" if specs[k]["in_sz"] else "out", pos=0, size="B")]
        g.devices = build_devices(tape, terms, g.links, f"c21/g{gi}")
        if scenario == "wkc-faults" and tape.chance("c21/random-dropper-in-the-group", 25):
            # the shipped fake device that drops a share of the frames inside the group's
            # program (XDP_DROP): what the program did to the frame before still counts
            from ebpfcat.devices import RandomDropper
            g.dropper = RandomDropper()
            g.dropper_rate = tape.pick("c21/drop-rate", [0x2000, 0x8000, 0xffff])
            g.devices.insert(tape.draw("c21/dropper-position", len(g.devices) + 1), g.dropper)
            world.count("c21/group-with-random-dropper")
        g.rw = {ln["term"] for ln in g.links if ln["sm"] == "out"}
        g.info = {}
        g.pre = {}
        g.sg = None
        groups.append(g)
    stats = dict(passes=0, program_passes=0, activated=0)

    def layout(g):
        sg = g.sg
        full = sg.packet.assemble(sg.packet_index, ec.ethertype)
        _, _, dg = parse_ecat(full)
        writers = []
        for d in dg:
            if d.cmd in WRITE_CMDS:
                if d.cmd == LWR:
                    exp = sum(1 for k in g.rw if wl.out_via_fmmu(specs[k]) and specs[k]["out_sz"])
                else:
                    exp = 1
                writers.append((14 + d.hdr_pos, 14 + d.wkc_pos, d.cmd, exp,
                                14 + d.data_pos, 14 + d.wkc_pos))
        g.info.update(writers=writers, size=len(full) + 14, group=sg.packet_index)

    def group_of(frame):
        if len(frame) < 30 or frame[12:14] != b"\x88\xa4" or frame[16] != 0:
            return None
        no, = struct.unpack_from("<I", frame, 18)
        for g in groups:
            if g.info and g.info["group"] == no:
                return g
        return None

    def tx_monitor(no, frame, transport):
        g = group_of(frame)
        if g is None:
            return
        for cmdpos, wkcpos, cmd, exp, a, b in g.info["writers"]:
            if frame[cmdpos] != NOP:
                viol("frame-left-user-space-enabled",
                     f"group {g.no} frame {no} handed to the transport with command "
                     f"{frame[cmdpos]} in the write datagram at {cmdpos}")
    bus.monitors.append(tx_monitor)
    current = [None]

    def rx_monitor(stage, no, *rest):
        if stage == "pre-xdp":
            g = group_of(rest[0])
            current[0] = g
            if g is not None:
                g.pre["errors"] = g.sg.wkc_errors
                g.pre["others"] = [(o.no, o.sg.wkc_errors) for o in groups
                                   if o is not g and o.info]
            return
        g = current[0]
        if stage != "xdp" or g is None or "errors" not in g.pre:
            return
        current[0] = None
        before, after, action, inst = rest
        errors_before = g.pre.pop("errors")
        errors_after = g.sg.wkc_errors
        for ono, oerr in g.pre.pop("others"):
            if groups[ono].sg.wkc_errors != oerr:
                viol("other-groups-state-changed", f"a frame of group {g.no} changed wkc_errors "
                     f"of group {ono}")
        ran = bool(inst.tail_calls)
        info = g.info
        stats["passes"] += 1
        changed = {i for i in range(len(before)) if before[i] != after[i]}
        enabled_after = [w for w in info["writers"] if after[w[0]] != NOP]
        if action == 3 and enabled_after and not ran:
            viol("enabled-frame-retransmitted-without-program",
                 f"group {g.no} frame {no}: sent back onto the bus with write datagram(s) "
                 f"{[w[0] for w in enabled_after]} enabled although the group's program did "
                 f"not run in this pass (stamp {before[17]} -> {after[17]})")
        if not ran:
            if not changed <= {12, 13, 17}:
                viol("frame-changed-without-program",
                     f"group {g.no} frame {no}: bytes {sorted(changed)} changed in a pass "
                     f"without the group's program")
            if errors_after != errors_before:
                viol("wkc-errors-changed-without-program", f"{errors_before} -> {errors_after}")
            return
        stats["program_passes"] += 1
        if len(before) < info["size"]:
            return
        if errors_before == 0:
            if not changed <= {17}:
                viol("outputs-enabled-while-disabled",
                     f"group {g.no} frame {no}: wkc_errors was 0 (outputs disabled) but bytes "
                     f"{sorted(changed)} changed")
            elif action == 3 and enabled_after and not g.info.get("wrapped"):
                # the program ran but left the frame alone: what goes back onto the bus
                # carries the outputs and counters of an earlier pass
                viol("enabled-frame-retransmitted-without-program",
                     f"group {g.no} frame {no}: sent back onto the bus with write datagram(s) "
                     f"{[w[0] for w in enabled_after]} enabled although the group's program "
                     f"did nothing in this pass (outputs disabled, wkc_errors 0)",
                     outputs_disabled=True)
            return
        stats["activated"] += 1
        wrong = 0
        allowed = {17}
        for cmdpos, wkcpos, cmd, exp, a, b in info["writers"]:
            allowed |= {cmdpos, wkcpos, wkcpos + 1} | set(range(a, b))
            if after[cmdpos] != cmd:
                viol("writer-not-re-enabled",
                     f"group {g.no} frame {no}: write datagram at {cmdpos} has command "
                     f"{after[cmdpos]}, should be {cmd}")
            if after[wkcpos:wkcpos + 2] != b"\0\0":
                viol("writer-wkc-not-cleared", f"group {g.no} frame {no}: counter at {wkcpos} "
                     f"is {after[wkcpos:wkcpos + 2].hex()}")
            got, = struct.unpack_from("<H", before, wkcpos)
            if got != exp:
                wrong += 1
        if errors_after == 0:
            g.info["wrapped"] = True    # (the 32-bit counter came round to "disabled")
        if (errors_after - errors_before) & 0xffffffff != wrong:
            viol("wkc-error-count",
                 f"group {g.no} frame {no}: wkc_errors {errors_before} -> {errors_after}, "
                 f"{wrong} write datagram(s) had a counter different from the expected value")
        if not changed <= allowed:
            viol("program-changed-foreign-bytes",
                 f"group {g.no} frame {no}: bytes {sorted(changed - allowed)} changed outside "
                 f"the write datagrams")
    bus.rx_monitors.append(rx_monitor)

    def wkc_fault(no, d, wkc):
        if scenario != "wkc-faults" or not cycling[0]:
            return wkc
        if d.cmd == NOP:
            # a write datagram that went round disabled (sterile frame): its counter is
            # the pre-filled expected value unless something on the ring counted it
            if d.hdr_pos <= 2 or not tape.chance("fault/wkc-of-a-disabled-datagram", 8):
                return wkc
            world.count("fault/wkc-of-disabled-datagram-wrong")
            return (wkc + 1) & 0xffff
        kind = tape.draw("fault/wkc", 10)
        if kind < 7:
            return wkc
        world.count("fault/wkc-wrong")
        return [wkc + 1, 0 if wkc else 2, wkc + 256][kind - 7]
    bus.wkc_fault = wkc_fault

    cycling = [False]
    preset = {}
    outcome = []

    async def main(loop):
        await ec.connect()
        tasks = []
        for g in groups:
            sg = g.sg = FastSyncGroup(ec, g.devices)
            orig_update = sg.update_devices

            def update_devices(data, orig_update=orig_update, sg=sg):
                if not cycling[0]:
                    cycling[0] = True
                    if scenario in ("wire-faults", "two-groups"):
                        wf.loss = [5, 15, 30][tape.draw("cfg/loss", 3)]
                if not preset.get(id(sg)) and sg.wkc_errors:
                    # the error counter of a group that has been running for long: it is
                    # 32 bits wide and 0 means "outputs disabled"
                    preset[id(sg)] = True
                    if tape.chance("c21/preset-error-counter", 30):
                        sg.wkc_errors = tape.pick("c21/error-counter", [
                            0xffff, 0xfffe, 0xfff0, 0x10000, 0xff, 0xffffffff, 0xfffffff0,
                            0x7fffffff])
                        world.count("c21/error-counter-preset-at-a-boundary")
                return orig_update(data)
            sg.update_devices = update_devices
            task = sg.start()
            await asyncio.sleep(0)
            if getattr(g, "dropper", None) is not None:
                g.dropper.rate = g.dropper_rate
            if task.done():
                e = task.exception()
                outcome.append(f"{type(e).__name__}: {e}")
                return
            layout(g)
            tasks.append(task)
            if two:
                await asyncio.sleep([0, 1e-3, 8e-3][tape.draw("c21/stagger", 3)])
        t_end = 0.04 + 0.02 * tape.draw("c21/runtime", 6)
        if scenario == "wire-faults" and tape.chance("c21/user-space-starved", 25):
            # for a while nothing reaches user space (its sockets overflow) although the
            # frames go on circulating between dispatcher and bus
            t0 = loop.time() + [0.005, 0.02, 0.04][tape.draw("c21/starved-from", 3)]
            t1 = t0 + 0.105 + 0.02 * tape.draw("c21/starved-for", 4)
            bus.socket_drop = lambda no, frame: t0 <= loop.time() < t1
            t_end = max(t_end, t1 - loop.time() + 0.05)
            world.count("c21/user-space-starved-over-100-ms")
        t = 0.0
        while t < t_end and not any(x.done() for x in tasks):
            dt = [0.002, 0.005, 0.011][tape.draw("c21/tick", 3)]
            await asyncio.sleep(dt)
            t += dt
            for g in groups:
                for dev in g.devices:
                    for j, ln in enumerate(getattr(dev, "outs", ())):
                        if tape.chance("c21/set", 40):
                            setattr(dev, f"vo{j}", wl.draw_value(tape, ln, "c21")
                                    if not isinstance(ln["size"], int) else tape.draw("c21/bit", 2))
        if scenario == "nofault" and not two and not any(x.done() for x in tasks) \
                and not violations and tape.chance("c21/resized-and-started-again", 20):
            # the group is stopped, the process data of one of its terminals grow (its
            # PDO assignment was rewritten) and the same group object is started again:
            # either that is refused, or what the kernel does fits the new frame
            g = groups[0]
            plain = [k for k in range(len(specs)) if not specs[k].get("aero")
                     and owner[k] == 0 and any(ln["term"] == k for ln in g.links)]
            if plain:
                k = tape.pick("c21/resized-terminal", plain)
                tasks[0].cancel()
                await asyncio.wait(tasks, timeout=0.5)
                for what, off in (("in", 24), ("out", 16)):
                    if specs[k][f"{what}_sz"]:
                        new = specs[k][f"{what}_sz"] + 1 + tape.draw(f"c21/grow-{what}", 8)
                        specs[k][f"{what}_sz"] = new
                        setattr(sims[k], f"{what}_sz", new)
                        setattr(terms[k], f"pdo_{what}_sz", new)
                        struct.pack_into("<H", sims[k].mem, 0x800 + off + 2, new)
                sims[k].refresh_inputs()
                g.info.clear()
                g.pre.clear()
                preset.clear()
                world.count("c21/group-started-again-after-a-resize")
                try:
                    task = g.sg.start()
                    await asyncio.sleep(0)
                except Exception as e:
                    world.count(f"c21/second-start-refused-{type(e).__name__}")
                    tasks = []
                else:
                    if task.done() and not task.cancelled() and task.exception() is not None:
                        # (on this tree the program of a group cannot be generated twice)
                        world.count("c21/second-start-refused-"
                                    f"{type(task.exception()).__name__}")
                        tasks = []
                    else:
                        layout(g)
                        tasks = [task]
                        for _ in range(8):
                            await asyncio.sleep(0.005)
                            for dev in g.devices:
                                for j, ln in enumerate(getattr(dev, "outs", ())):
                                    if tape.chance("c21/set", 40):
                                        setattr(dev, f"vo{j}", wl.draw_value(tape, ln, "c21")
                                                if not isinstance(ln["size"], int)
                                                else tape.draw("c21/bit", 2))
        wf.loss = 0
        for task in tasks:
            if task.done() and not task.cancelled():
                e = task.exception()
                outcome.append(f"{type(e).__name__}: {e}")
            task.cancel()
        await asyncio.sleep(0.02)

    with env:
        try:
            env.run(main)
        except SimStall as e:
            viol("did-not-finish", str(e))
        except Exception as e:
            from sim.cpu import CpuFault
            viol("interpreter-fault" if isinstance(e, CpuFault) else "setup-failed",
                 f"{type(e).__name__}: {e}", exception=type(e).__name__)
        for m, tn, txt in env.loop_exceptions():
            if tn != "CancelledError":
                viol("library-task-died", f"{m}: {tn}: {txt}", exception=tn)
    if outcome:
        viol("group-task-failed", outcome[0])
    for k, v in stats.items():
        world.count(f"c21/{k}", v)
    return {
        "violations": violations, "stats": dict(world.counters),
        "digest": world.digest.hexdigest(), "sim_time": world.now,
        "schedule": world.digest.hexdigest(),
        "nontrivial": stats["program_passes"] >= 10,
        "sample": {"scenario": scenario, "terminals": specs, "groups": [
            {"links": g.links, "writers": [(w[0], w[2], w[3]) for w in g.info.get("writers", [])]}
            for g in groups], **stats},
    }
