"""C28 Serial channels transfer bytes exactly once, in order"""
import asyncio
import os

from sim.bus import WireFaults
from sim.loop import SimStall
from sim.pdfix import OUT_OFF, PDTerminal, ebpf_terminal, install_cycle_hook
from sim.seams import Env

PROPERTY = "C28"
LEVEL = "exploration"
SCENARIOS = {"one-channel": 2, "two-channels": 1}
TIERS = {"quick": {"runs": 3000, "chunk": 15}, "thorough": {"runs": 50000000, "wall_s": 600, "chunk": 80, "recheck": 16}}
RULE = ("one run = one or two Serial devices on the channels of a simulated EL6002 in a real "
        "slow SyncGroup; the terminal side plays the EL6002 handshake (init, transmit/receive "
        "toggles) with accept delays of 0..4 cycles in each direction and announces drawn "
        "chunks (1..22 bytes) at drawn times; the application side writes drawn chunks "
        "(1..60 bytes) into the device's real pipe and drains the receive pipe every cycle; "
        "both directions are active at once; 60-300 cycles plus a drain phase; oracles at the "
        "terminal (what it accepted, under which toggles; every announced chunk acknowledged) "
        "and at the pipes; distinct = "
        "distinct event-log digests; non-trivial = at least 3 chunks in each direction")
RULE += '; since the 4th session the applications read with their own buffer size (1-23 bytes or 4096) and may close their sending end right after a last short command'
RULE += '; also an init accept the terminal keeps showing for 0-4 cycles while it already works, and cyclic datagrams it does not process (2-6 %)'
COMPONENTS = {
    "real": ["ebpfcat.serial.Serial.update", "ebpfcat.terminals.EL6002.Channel descriptors",
             "ebpfcat.ebpfcat.SyncGroup cycle, PacketVar ('23p' and bit access)",
             "OS pipes of the Serial device (real, non-blocking, single reader/writer)"],
    "stub": ["event loop", "socket", "wire", "EL6002 channel application (handshake model)"]}
ASSUMPTIONS = ["the handshake model: a new chunk is announced by one toggle of the request bit "
               "and must stay unchanged until the accept bit toggles; the terminal accepts "
               "after 0..4 cycles and never announces a new chunk before the last one was "
               "acknowledged"]


class Channel:
    """EL6002 channel application (terminal side)"""

    def __init__(self, tape, name, viol, world):
        self.tape, self.name, self.viol, self.world = tape, name, viol, world
        # the handshake is edge based: after a master restart the terminal's toggle bits
        # may be at any level, with the last chunk of the old session still in the image
        self.ta = bool(tape.draw(f"c28/{name}/ta0", 2))
        self.rr = bool(tape.draw(f"c28/{name}/rr0", 2))
        self.ia = False
        self.last_tr = self.last_ra = False
        self.pending = None       # (chunk, cycles left) being accepted
        self.accepted = bytearray()
        self.chunks_accepted = 0
        self.announced = bytearray()
        self.chunks_announced = 0
        self.wait_ack = False
        self.in_string = b"OLD-SESSION" if tape.draw(f"c28/{name}/stale", 2) else b""
        self.inited = False
        self.active = True
        self.maxdelay = tape.draw(f"c28/{name}/maxdelay", 5)
        self.linger = tape.pick(f"c28/{name}/init-accept-lingers", [0, 0, 1, 2, 4])
        self.ia_linger = 0
        # in few runs the terminal sits on one chunk for hundreds of cycles (line busy,
        # flow control): the chunk has to stay presented, announced once
        self.long_at = tape.draw(f"c28/{name}/long-accept-at", 6) \
            if tape.chance(f"c28/{name}/long-accept", 6) else None
        self.patience = 60 + (340 if self.long_at is not None else 0)
        self.tx_rate = [0, 10, 30, 60][tape.draw(f"c28/{name}/rxrate", 4)]
        self.ack_wait = 0

    def cycle(self, out):
        """`out` = the channel's 24 output bytes as received; returns 24 input bytes"""
        tape = self.tape
        tr, ra, ir = bool(out[0] & 1), bool(out[0] & 2), bool(out[0] & 4)
        n = out[1]
        data = bytes(out[2:2 + min(n, 22)])
        # init handshake: accept follows the request; once the request is dropped the
        # terminal may take a few cycles to drop its accept (it works again meanwhile)
        if ir:
            self.ia = True
            self.ia_linger = self.linger
            self.inited = True
            self.last_tr, self.last_ra = tr, ra
        elif self.ia:
            if self.ia_linger > 0:
                self.ia_linger -= 1
                self.world.count("c28/init-accept-still-shown-while-working")
            else:
                self.ia = False
        # ---- master -> terminal
        if self.pending is not None:
            chunk, left = self.pending
            if tr != self.last_tr:
                self.viol("request-toggled-before-accept",
                          f"{self.name}: transmit_request toggled again before the terminal "
                          f"accepted {chunk!r}")
            elif data != chunk:
                self.viol("chunk-changed-before-accept",
                          f"{self.name}: out_string changed from {chunk!r} to {data!r} before "
                          f"transmit_accept toggled")
            if left <= 0:
                self.accepted += chunk
                self.chunks_accepted += 1
                self.ta = not self.ta
                self.pending = None
            else:
                self.pending = (chunk, left - 1)
        elif tr != self.last_tr and not ir:
            self.last_tr = tr
            if n > 22:
                self.viol("chunk-too-long", f"{self.name}: length byte {n}")
            d = tape.draw(f"c28/{self.name}/accept-delay", self.maxdelay + 1)
            if self.long_at is not None and self.chunks_accepted == self.long_at:
                d = 257 + tape.draw(f"c28/{self.name}/long-accept-cycles", 60)
                self.world.count("c28/accept-delayed-over-256-cycles")
            if d == 0:
                self.accepted += data
                self.chunks_accepted += 1
                self.ta = not self.ta
            else:
                self.pending = (data, d - 1)
        # ---- terminal -> master
        if self.wait_ack:
            if ra != self.last_ra:
                self.last_ra = ra
                self.wait_ack = False
                self.ack_wait = tape.draw(f"c28/{self.name}/next-delay", self.maxdelay + 1)
        elif ra != self.last_ra and not ir:
            self.viol("spurious-receive-accept",
                      f"{self.name}: receive_accept toggled although nothing was announced")
            self.last_ra = ra
        elif self.inited and not ir and self.active and self.tx_rate:
            if self.ack_wait > 0:
                self.ack_wait -= 1
            elif tape.chance(f"c28/{self.name}/announce", self.tx_rate):
                k = 1 + tape.draw(f"c28/{self.name}/rxlen", 22)
                chunk = bytes((self.chunks_announced * 7 + i * 3 + 65) & 0xff for i in range(k))
                self.in_string = chunk
                self.announced += chunk
                self.chunks_announced += 1
                self.rr = not self.rr
                self.wait_ack = True
        status = (1 if self.ta else 0) | (2 if self.rr else 0) | (4 if self.ia else 0)
        body = bytes([len(self.in_string)]) + self.in_string
        return bytes([status]) + body + bytes(23 - len(body))


def run(tape, scenario):
    from ebpfcat.ebpfcat import SyncGroup
    from ebpfcat.ethercat import EtherCat
    from ebpfcat.serial import Serial
    from ebpfcat.terminals import EL6002

    wf = WireFaults(delay_buckets=(50e-6, 20e-6, 200e-6))
    env = Env(tape, faults=wf)
    # in some runs a cyclic frame is lost now and then: the group re-sends after its 20 ms
    # timeout, which must not disturb the handshake (no loss during start-up: no retry there)
    loss_rate = tape.pick("cfg/loss", [0, 0, 0, 3, 10])
    unprocessed = tape.pick("cfg/unprocessed-datagrams", [0, 0, 0, 2, 6])
    # (frames that come back later than that timeout are not injected: a stale input image
    # arriving after a newer one makes the unchanged Serial deliver a received chunk twice;
    # that is a bus fault outside this property's quantifier, see DESIGN.md 11.6, C28-i)
    world, bus = env.world, env.bus
    ec = EtherCat("sim0")
    nch = 1 if scenario == "one-channel" else 2
    violations = []

    def viol(rule, detail, **params):
        if not violations:
            violations.append({"rule": rule, "params": params, "detail": detail})

    st = PDTerminal(bus, "EL6002", 1001, 48, 48, n_fmmu=3)
    bus.add_terminal(st)
    install_cycle_hook(bus)
    term = ebpf_terminal(ec, st, not tape.chance("c28/direct", 30), cls=EL6002)
    channels = [Channel(tape, f"ch{i + 1}", viol, world) for i in range(nch)]

    def inputs(t, cycle):
        out = bytes(st.mem[OUT_OFF:OUT_OFF + 48])
        data = b""
        for i in range(2):
            data += channels[i].cycle(out[24 * i:24 * i + 24]) if i < nch else bytes(24)
        return data
    st.input_fn = inputs

    devices = [Serial(getattr(term, f"channel{i + 1}")) for i in range(nch)]
    # each application reads its receive pipe with its own buffer size (a byte at a time,
    # a fixed telegram length, or plenty), and may close its sending end once it has
    # written its last command
    app = [dict(written=bytearray(), read=bytearray(), active=True, closed=False,
                rate=[0, 15, 40, 80][tape.draw(f"c28/app{i}/rate", 4)],
                bufsize=tape.pick(f"c28/app{i}/read-size", [4096, 4096, 4096, 1, 7, 8, 22, 23]),
                closes=tape.chance(f"c28/app{i}/closes-its-sending-end", 35))
           for i in range(nch)]
    sg = SyncGroup(ec, devices)
    ncycles = 60 + tape.draw("c28/cycles", 240)
    cycles = [0]
    progress = [None, 0]
    finishing = [False]
    orig_update = sg.update_devices

    def drain(i):
        try:
            while True:
                got = os.read(devices[i].in_read, app[i]["bufsize"])
                if not got:
                    break
                app[i]["read"] += got
        except BlockingIOError:
            pass

    def update_devices(data):
        cycles[0] += 1
        wf.loss = loss_rate if not finishing[0] else 0
        if unprocessed and cycles[0] == 3:
            # from now on the terminal now and then lets a cyclic datagram pass unprocessed
            # (working counter 0): what comes back is what was sent, the handshake bits
            # of the last image included
            st.skip_datagram = lambda d: not finishing[0] and tape.chance(
                "fault/cyclic-datagram-not-processed", unprocessed)
        for i in range(nch):
            a = app[i]
            if a["active"] and a["rate"] and tape.chance(f"c28/app{i}/write", a["rate"]):
                k = 1 + tape.draw(f"c28/app{i}/len", 60)
                chunk = bytes((len(a["written"]) + j * 11 + 32 + i) & 0xff for j in range(k))
                try:
                    os.write(devices[i].out_write, chunk)
                    a["written"] += chunk
                except BlockingIOError:
                    pass
            if cycles[0] == ncycles and a["closes"] and not a["closed"]:
                # the last command (shorter than a chunk) and the end of the stream arrive
                # in the same cycle
                k = 1 + tape.draw(f"c28/app{i}/last-len", 21)
                chunk = bytes((len(a["written"]) + j * 11 + 32 + i) & 0xff for j in range(k))
                try:
                    os.write(devices[i].out_write, chunk)
                    a["written"] += chunk
                except BlockingIOError:
                    pass
                os.close(devices[i].out_write)
                devices[i].out_write = -1     # (not closed a second time at the end)
                a["closed"] = True
                world.count("c28/application-closed-its-sending-end")
        out = orig_update(data)
        for i in range(nch):
            drain(i)
        if cycles[0] == ncycles:
            for a in app:
                a["active"] = False
            for c in channels:
                c.active = False
        if cycles[0] > ncycles:
            # drain phase: until both directions are through, or nothing moved for 60 cycles
            state = tuple((len(c.accepted), len(a["read"])) for c, a in zip(channels, app))
            if state != progress[0]:
                progress[0], progress[1] = state, cycles[0]
            through = all(bytes(c.accepted) == bytes(a["written"])
                          and len(a["read"]) == len(c.announced) + 1 and not c.wait_ack
                          for c, a in zip(channels, app))
            if (through or cycles[0] - progress[1] > max(c.patience for c in channels)
                    or cycles[0] > ncycles + 4000) \
                    and not finishing[0]:
                finishing[0] = True
                asyncio.get_event_loop().call_soon(sg.task.cancel)
        return out
    sg.update_devices = update_devices

    async def main(loop):
        await ec.connect()
        task = sg.start()
        await asyncio.wait([task], timeout=120)
        if not task.done():
            task.cancel()
        elif not task.cancelled() and task.exception() is not None:
            e = task.exception()
            viol("group-task-failed", f"{type(e).__name__}: {e}", exception=type(e).__name__)
        await asyncio.sleep(0.01)

    try:
        with env:
            try:
                env.run(main, max_iterations=400_000)
            except SimStall as e:
                viol("did-not-finish", str(e))
            for m, tn, txt in env.loop_exceptions():
                if tn != "CancelledError":
                    viol("library-task-died", f"{m}: {tn}: {txt}", exception=tn)
        for i in range(nch):
            drain(i)
            ch, a = channels[i], app[i]
            if bytes(ch.accepted) != bytes(a["written"]):
                w, g = bytes(a["written"]), bytes(ch.accepted)
                k = next((j for j in range(min(len(w), len(g))) if w[j] != g[j]), min(len(w), len(g)))
                viol("transmit-stream-differs",
                     f"channel {i + 1}: the application wrote {len(w)} bytes, the terminal "
                     f"accepted {len(g)} in {ch.chunks_accepted} chunks; first difference at "
                     f"byte {k}: wrote {w[k:k + 12].hex()} accepted {g[k:k + 12].hex()}")
            rd = bytes(a["read"])
            if ch.inited and not rd.startswith(b"A"):
                viol("no-init-marker", f"channel {i + 1}: receive pipe starts with {rd[:4]!r}")
            rd = rd[1:]
            if rd != bytes(ch.announced):
                g, w = rd, bytes(ch.announced)
                k = next((j for j in range(min(len(w), len(g))) if w[j] != g[j]), min(len(w), len(g)))
                viol("receive-stream-differs",
                     f"channel {i + 1}: the terminal announced {len(w)} bytes in "
                     f"{ch.chunks_announced} chunks, the application read {len(g)}; first "
                     f"difference at byte {k}: announced {w[k:k + 12].hex()} read {g[k:k + 12].hex()}")
            if ch.wait_ack and finishing[0]:
                # the drain phase ended because nothing moved for 60 cycles (or everything
                # else was through): the last announced chunk was never acknowledged
                viol("announced-chunk-not-acknowledged",
                     f"channel {i + 1}: chunk {ch.chunks_announced} was announced by a toggle "
                     f"of receive_request (now {ch.rr}) but receive_accept never toggled "
                     f"(still {ch.last_ra}) during {cycles[0] - progress[1]} further cycles")
    finally:
        for d in devices:
            for fd in (d.in_read, d.in_write, d.out_read, d.out_write):
                try:
                    os.close(fd)
                except OSError:
                    pass
    world.count("c28/chunks-accepted", sum(c.chunks_accepted for c in channels))
    world.count("c28/chunks-announced", sum(c.chunks_announced for c in channels))
    return {
        "violations": violations, "stats": dict(world.counters),
        "digest": world.digest.hexdigest(), "sim_time": world.now,
        "schedule": world.digest.hexdigest(),
        "nontrivial": all(c.chunks_accepted >= 3 and c.chunks_announced >= 3 for c in channels),
        "sample": {"channels": nch, "cycles": cycles[0], "per_channel": [
            dict(accept_delay_max=c.maxdelay, accepted=c.chunks_accepted,
                 announced=c.chunks_announced, app_bytes=len(a["written"]))
            for c, a in zip(channels, app)]},
    }
