"""C15 Mailbox exchanges with a terminal are serialised and counted"""
import asyncio
import struct

from sim.bus import WireFaults
from sim.coe import ObjectDictionary
from sim.fixtures import make_terminal, preinit
from sim.loop import SimStall
from sim.seams import Env

PROPERTY = "C15"
LEVEL = "exploration"
SCENARIOS = {"tasks-plain": 2, "tasks-parallel": 2, "processes": 3, "run-sessions": 2}
TIERS = {"quick": {"runs": 4000, "chunk": 10}, "thorough": {"runs": 50000000, "wall_s": 600, "chunk": 50, "recheck": 16}}
RULE = ("one run = 2-4 mailbox users of 1-2 simulated terminals, each doing 1-5 operations: "
        "expedited SDO reads/writes of its own object, segmented uploads/downloads of a long "
        "object (several request/response pairs under one lock hold), SDO-information "
        "requests through coe_request (read_object_entry, read_ODlist: fragmented answers, "
        "dozens of exchanges); every request carries its user in the source-address field of "
        "the mailbox header, so every message is attributable; "
        "answers delayed 0..4 polls so that exchanges overlap in time; 'tasks-plain': tasks "
        "of one process on an EtherCat (MailboxLock); 'tasks-parallel': tasks of one process "
        "on a ParallelEtherCat (ParallelMailboxLock on the shared lock file); 'processes': "
        "2-3 simulated OS processes (baton-passing threads), each with its own "
        "ParallelEtherCat, socket and ethertype, opening the shared LockFile as run() does, "
        "pre-empted before every open/write/pread/pwrite/close/lockf and every loop "
        "iteration, including between the creator's O_EXCL create and its first write; "
        "'run-sessions': 2-3 processes come and go through the real ParallelEtherCat.run() "
        "(lock directory, dispatcher, lock files created by the first and removed by the "
        "last) and take the mailbox locks of two terminals while inside, judged at the lock; "
        "oracle at the terminal (mailbox writes/reads in order, counter fields) and on the "
        "participants' outcomes; distinct = distinct schedules (sequence of process switches "
        "+ mailbox event order); non-trivial = at least two users had exchanges overlapping "
        "in time")
RULE += "; since the 4th session 'run-sessions' also has a second participant of the same process joining and leaving during the exchanges, and 'processes' attaches terminals found in INIT (with a stale station address) through Terminal.gentle_initialize in 30 % of the runs"
RULE += '; also a preset with two processes that each have a user at each of two terminals (cancel faults on)'
COMPONENTS = {
    "real": ["ebpfcat.lock.MailboxLock/ParallelMailboxLock/LockFile", "ebpfcat.ethercat."
             "Terminal.mbx_send/mbx_recv/coe_recv/coe_request/sdo_read/sdo_write/"
             "read_object_entry/read_ODlist holding mbx_lock",
             "ebpfcat.ebpfcat.ParallelEtherCat.get_mbx_lock", "EtherCat.roundtrip path"],
    "stub": ["event loops (one per simulated process)", "process scheduler (baton-passing "
             "threads, tape-driven pre-emption)", "in-memory file system + fcntl record "
             "locks", "sockets, wire (answers routed by the ethertype of the identification "
             "datagram, which is all the dispatcher adds here)", "ESC mailbox + CoE server"]}
ASSUMPTIONS = ["tasks of one process share one Terminal object (and thus one lock object)",
               "POSIX record-lock semantics: owned by the process, no exclusion inside it"]


LOCKDIR = "/run/lock/ebpf.sim0.lock"
LOCKFILE = "/run/ebpf/sim0"
PIN = "/sys/fs/bpf/sim0/programs"


def run_sessions(tape):
    """the mailbox lock as processes really get it: 2-3 simulated processes come and go
    through the real ParallelEtherCat.run() (lock directory, dispatcher, pinned table, lock
    files created by the first and removed by the last one) and, while inside, their tasks
    take the ParallelMailboxLock of one of two terminals, draw the next counter and hold
    the lock for a while. Judged at the lock: holders of one terminal's lock never overlap,
    and the counters drawn for a terminal are successors in 1..7 (0 only first) as long as
    the lock file lives. No bus traffic: what is judged is exclusion and counting"""
    from ebpfcat.ebpfcat import ParallelEtherCat

    env = Env(tape, with_kernel=True, with_fs=True, faults=WireFaults(delay_buckets=(50e-6,)))
    world, fs = env.world, env.fs
    sched = env.use_scheduler(preempt_bound=tape.draw("sched/bound", 7),
                              preempt_den=[3, 6, 12][tape.draw("sched/den", 3)])
    sched.stall_rate = [0, 20, 50][tape.draw("cfg/stall-rate", 3)]
    sched.stall_anywhere = tape.pick("cfg/stall-anywhere", [0, 0, 10, 30])
    if tape.chance("cfg/long-stalls", 35):
        sched.stall_times = (1e-3, 30e-3, 150e-3, 400e-3)
    # (a waiter polls the file lock once per loop iteration, ~30 us of virtual time each:
    # seconds of stalls of the holder are tens of thousands of iterations, not a hang)
    env.loop_max_iterations = 600_000
    nproc = 2 + tape.draw("c15/nprocs", 2)
    violations = []
    holder = {}          # terminal number -> (participant, task) inside its lock
    drawn = {}           # terminal number -> [(generation, counter, participant)]
    generation = [0]
    seen_ops = [0]
    outcomes = {}
    overlap = [0]
    exchanges = [0]

    def viol(rule, detail, **params):
        if not violations:
            violations.append({"rule": rule, "params": params, "detail": detail})

    def teardown_race():
        """did somebody become installer between another one's successful rmdir of the
        lock directory and that one's removal of the mailbox lock file? (the open finding
        C23-detach-after-reinstall: the last leaver cleans up after the directory is free)"""
        pending = {}
        for pid, op, *args in fs.oplog:
            if op == "rmdir" and args[0] == LOCKDIR:
                pending[pid] = True
            elif op == "remove" and args[0] == LOCKFILE and pid in pending:
                del pending[pid]
            elif op == "rename" and args[1:] == [LOCKDIR] and any(q != pid for q in pending):
                return True
        return False

    def note_generation():
        for pid, op, *args in fs.oplog[seen_ops[0]:]:
            if op == "remove" and args[0] == LOCKFILE:
                generation[0] += 1
        seen_ops[0] = len(fs.oplog)

    def participant(u):
        rounds = 1 + tape.draw("c15/rounds", 3)
        start = [0, 0, 1e-3, 20e-3, 60e-3][tape.draw("c15/start", 5)]

        async def exchanges_of(ec, locks, who, n):
            for _ in range(n):
                no = ec.terminal_addr_range[0] + 5 + tape.draw("c15/terminal", 2)
                lock = locks.setdefault(no, ec.get_mbx_lock(no))
                await asyncio.sleep([0, 0, 40e-6, 300e-6][tape.draw("c15/pause", 4)])
                async with lock:
                    note_generation()
                    c = lock.next_counter()
                    if holder.get(no) is not None:
                        viol("exchanges-interleaved",
                             f"terminal {no}: {who} got the mailbox lock while {holder[no]} "
                             f"holds it (last fs ops {fs.oplog[-6:]})",
                             scenario="run-sessions", teardown_race=teardown_race())
                    holder[no] = who
                    drawn.setdefault(no, []).append((generation[0], c, who))
                    exchanges[0] += 1
                    await asyncio.sleep([0, 30e-6, 200e-6, 2e-3][tape.draw("c15/hold", 4)])
                    if holder.get(no) == who:
                        holder[no] = None

        async def sibling(u, attempt):
            await asyncio.sleep([0, 100e-6, 1e-3][tape.draw("c15/sibling-start", 3)])
            ec2 = ParallelEtherCat("sim0")
            ec2.ethertype = 0x3000 + 16 * u + 8 + attempt
            try:
                async with ec2.run():
                    world.count("c15/sibling-participant-in-one-process")
                    await asyncio.sleep([0, 200e-6, 2e-3][tape.draw("c15/sibling-stay", 3)])
            except FileNotFoundError:
                world.count("c15/join-retried")

        async def main(loop):
            await asyncio.sleep(start)
            for r in range(rounds):
                stay = [1e-3, 5e-3, 30e-3][tape.draw("c15/stay", 3)]
                ntasks = 1 + tape.draw("c15/ntasks", 2)
                nops = [1 + tape.draw("c15/nops", 4) for _ in range(ntasks)]
                # a second participant of the same process (a helper master that uses
                # no mailbox) joins and leaves while this one's exchanges go on
                with_sibling = tape.chance("c15/sibling-participant", 25)
                for attempt in range(4):
                    ec = ParallelEtherCat("sim0")
                    ec.ethertype = 0x3000 + 16 * u + attempt
                    try:
                        async with ec.run():
                            locks = {}
                            await asyncio.gather(*[
                                exchanges_of(ec, locks, (u, r, k), nops[k])
                                for k in range(ntasks)], *(
                                [sibling(u, attempt)] if with_sibling else []))
                            await asyncio.sleep(stay)
                        outcomes[(u, r)] = "ok"
                        break
                    except FileNotFoundError as e:
                        # cannot join: the installer has not pinned the table yet, or the
                        # last one is just leaving - an availability matter; try again
                        world.count("c15/join-retried")
                        outcomes[(u, r)] = f"FileNotFoundError: {e}"
                        await asyncio.sleep(0.03)
                    except Exception as e:
                        outcomes[(u, r)] = f"{type(e).__name__}: {e}"
                        break
                await asyncio.sleep([0, 1e-3, 15e-3][tape.draw("c15/gap", 3)])
        return main

    procs = {}
    aborted = None
    with env:
        try:
            for u in range(nproc):
                procs[u] = sched.spawn(f"part{u}", participant(u))
            aborted = sched.run()
        except SimStall as e:
            viol("did-not-finish", str(e), scenario="run-sessions")
        for m, tn, txt in env.loop_exceptions():
            if tn != "CancelledError":
                viol("library-task-died", f"{m}: {tn}: {txt}", exception=tn,
                     scenario="run-sessions")
    if aborted:
        viol("did-not-finish", aborted, scenario="run-sessions")
    race = teardown_race()
    for no, seq in sorted(drawn.items()):
        for i, (gen, c, who) in enumerate(seq):
            if i == 0 or seq[i - 1][0] != gen:
                ok = 0 <= c <= 7          # a new lock file starts counting anew
            else:
                ok = c == seq[i - 1][1] % 7 + 1
            if not ok:
                viol("counter-sequence",
                     f"terminal {no}: counters drawn (lock-file generation, counter, who) "
                     f"{seq[max(0, i - 4):i + 2]}: position {i} is not the successor in 1..7",
                     scenario="run-sessions", teardown_race=race)
                break
    for p in procs.values():
        if p.exc is not None and type(p.exc).__name__ not in ("SimKilled",):
            viol("participant-failed", f"{p.name}: {type(p.exc).__name__}: {p.exc}",
                 scenario="run-sessions", exception=type(p.exc).__name__)
    for (u, r), v in sorted(outcomes.items()):
        if v != "ok" and not v.startswith("FileNotFoundError"):
            viol("participant-failed", f"participant {u} round {r}: {v}",
                 scenario="run-sessions", exception=v.split(":")[0], teardown_race=race)
    trace = tuple(sched.trace)
    world.count("c15/lock-level-exchanges", exchanges[0])
    return {
        "violations": violations, "stats": dict(world.counters),
        "digest": world.digest.hexdigest(), "sim_time": world.now,
        "schedule": repr(trace), "nontrivial": exchanges[0] >= 4 and len(trace) > 4,
        "sample": {"scenario": "run-sessions", "participants": nproc,
                   "outcomes": {f"{u}.{r}": v for (u, r), v in outcomes.items()},
                   "counters": {str(no): [(g, c) for g, c, w in seq][:16]
                                for no, seq in drawn.items()},
                   "process_switches": len(trace)},
    }


def run(tape, scenario):
    if scenario == "run-sessions":
        return run_sessions(tape)
    from ebpfcat.ebpfcat import ParallelEtherCat
    from ebpfcat.ethercat import EtherCat
    from ebpfcat.lock import LockFile

    multi = scenario == "processes"
    parallel = scenario != "tasks-plain"
    cancel_faults = tape.chance("cfg/cancel-faults", 50)
    env = Env(tape, faults=WireFaults(delay_buckets=(50e-6, 20e-6, 150e-6)), with_fs=parallel)
    world, bus = env.world, env.bus
    bus.route_by_data0 = parallel
    od = ObjectDictionary()
    nusers = 2 + tape.draw("c15/nusers", 3)
    mbx = tape.pick("c15/mbxsz", [48, 64, 128])
    # per user: a 4-byte object (expedited transfers) and a long one (segmented transfers:
    # several request/response pairs under one lock hold); names long enough to make the
    # SDO-information answers of small mailboxes come in fragments
    long_len = 2 * mbx + 5
    long_value = {}
    for u in range(nusers):
        od.set(0x2000 + u, 1, struct.pack("<I", 0x1000 + u), name=f"user {u} counter " + "c" * 30)
        long_value[u] = bytes((u * 37 + i) & 0xff for i in range(long_len))
        od.set(0x3000 + u, 1, long_value[u], name=f"user {u} blob")
    nterm = 1 + tape.draw("c15/nterm", 2)
    sterms = []
    for k in range(nterm):
        st, srv = make_terminal(bus, f"T{k}", 1005 + k, mbx_out=(0x1000, mbx),
                                mbx_in=(0x1400, mbx), od=od)
        maxd = tape.draw("c15/maxdelay", 5)
        st.mbx_delay = lambda maxd=maxd: tape.draw("c15/answer-delay", maxd + 1)
        st.mbx_busy = lambda srv=srv: srv.transfer is not None
        sterms.append((st, srv))
    # user u talks to terminal user_term[u]; users 0 and 1 always share terminal 0
    user_term = [0, 0] + [tape.draw("c15/user-term", nterm) for _ in range(nusers - 2)]
    # in 'processes': user u lives in process user_proc[u] (a process may have several tasks)
    nprocs = 2 + tape.draw("c15/nprocs", 2) if scenario == "processes" else 1
    user_proc = [0, 1] + [tape.draw("c15/user-proc", nprocs) for _ in range(nusers - 2)]
    if scenario == "processes" and nusers >= 4 and nterm == 2 \
            and tape.chance("c15/crossed-users", 50):
        # two processes with one user at each of the two terminals: whatever one task
        # of a process does about terminal 0 (waits, is cancelled, fails) happens while
        # its other task is in the middle of an exchange with terminal 1
        user_term[:4] = [0, 0, 1, 1]
        user_proc[:4] = [0, 1, 0, 1]
        cancel_faults = True
        world.count("c15/two-processes-with-a-user-at-each-terminal")
    violations = []
    outcomes = {}

    def viol(rule, detail, **params):
        if not violations:
            violations.append({"rule": rule, "params": params, "detail": detail})

    sched = None
    if multi:
        # (lock waiters poll once per loop iteration while the holder may be stalled, and
        # the harness' own barrier polls too: a generous budget, a real hang still ends)
        env.loop_max_iterations = 600_000
        sched = env.use_scheduler(preempt_bound=tape.draw("sched/bound", 7),
                                  preempt_den=[3, 6, 12][tape.draw("sched/den", 3)])
        sched.stall_rate = [0, 30, 60][tape.draw("cfg/stall-rate", 3)]

    def make_ec(u):
        if not parallel:
            return EtherCat("sim0")
        ec = ParallelEtherCat("sim0")
        ec.ethertype = 0x3000 + 16 * u + 1
        return ec

    done_ops = {}
    busy = {}            # user -> has a request out whose answer it has not read yet
    task_user = {}

    def instrument(tobj):
        """mark the span mbx_send .. mbx_recv of every user of this Terminal object"""
        orig_send, orig_recv = tobj.mbx_send, tobj.mbx_recv

        async def mbx_send(*a, **k):
            u = task_user.get(asyncio.current_task())
            busy[u] = True
            if u is not None:
                # tag the message with its user in the (otherwise unused) source address
                # field of the mailbox header, so that the terminal knows who wrote it
                k.setdefault("address", 0x100 + u)
            return await orig_send(*a, **k)

        async def mbx_recv(*a, **k):
            u = task_user.get(asyncio.current_task())
            busy[u] = True       # also while waiting for a further fragment
            ret = await orig_recv(*a, **k)
            busy[u] = False
            return ret
        tobj.mbx_send, tobj.mbx_recv = mbx_send, mbx_recv
        return tobj

    async def user_ops(u, t, nops):
        task_user[asyncio.current_task()] = u
        while done_ops.get(u, 0) < nops:
            k = done_ops.get(u, 0)
            pause = tape.draw("c15/pause", 4)
            if pause:
                await asyncio.sleep([0, 0, 40e-6, 300e-6][pause])
            kind = tape.draw("c15/op-kind", 11)
            tno = user_term[u]
            if kind == 10:
                # an exchange that ends with an exception inside the lock: the terminal
                # aborts the upload of an object it does not have; the counter of the
                # message sent still counts
                from ebpfcat.ethercat import EtherCatError
                try:
                    await t.sdo_read(0x2f00 + u, 1)
                    viol("wrong-answer", f"user {u}: upload of a missing object succeeded")
                except EtherCatError:
                    world.count("c15/aborted-exchange")
            elif kind < 3:
                await t.sdo_write(struct.pack("<I", 0x5000 + 16 * u + k), 0x2000 + u, 1)
            elif kind < 6:
                got = await t.sdo_read(0x2000 + u, 1)
                if len(got) != 4:
                    viol("wrong-answer", f"user {u} read {got!r}")
            elif kind == 6:      # segmented upload: several exchanges under one lock hold
                got = await t.sdo_read(0x3000 + u, 1)
                if got != long_value[u]:
                    viol("wrong-answer", f"user {u}: segmented upload returned {len(got)} "
                         f"bytes, differing from its {len(long_value[u])}-byte object")
                world.count("c15/segmented-upload")
            elif kind == 7:      # segmented download
                val = bytes((u * 41 + k * 7 + i) & 0xff for i in range(long_len))
                await t.sdo_write(val, 0x3000 + u, 1)
                long_value[u] = val
                world.count("c15/segmented-download")
            elif kind == 8:      # SDO information: answers may come in fragments
                oe = await t.read_object_entry(0x2000 + u, 1)
                if oe.bitLength != 32 or not oe.name.startswith(f"user {u} counter"):
                    viol("wrong-answer", f"user {u}: entry description {oe.bitLength} bits, "
                         f"name {oe.name!r}")
                world.count("c15/sdo-info-entry")
            else:                # the whole object dictionary: dozens of exchanges
                if tape.chance("c15/odlist", 40):
                    odl = await t.read_ODlist()
                    if sorted(odl) != sorted(od.indexes()):
                        viol("wrong-answer", f"user {u}: OD list {sorted(odl)}, the terminal "
                             f"has {od.indexes()}")
                    world.count("c15/sdo-info-odlist")
                else:
                    await t.sdo_read(0x2000 + u, 1)
            done_ops[u] = k + 1

    async def user(u, t, nops):
        """one mailbox user: `nops` exchanges on terminal object `t`; with the cancel
        fault its task is cancelled (a timeout of the caller) at a drawn moment at which
        it has no request out, e.g. while it waits for the lock, and then retries"""
        cancels = tape.draw("fault/cancel-user", 4) if cancel_faults else 0
        cancels = cancels if cancels < 3 else 0
        try:
            while True:
                task = asyncio.ensure_future(user_ops(u, t, nops))
                while cancels and not task.done():
                    await asyncio.sleep([15e-6, 60e-6, 250e-6, 900e-6][tape.draw("c15/cancel-at", 4)])
                    if not task.done() and not busy.get(u):
                        task.cancel()
                        cancels -= 1
                        world.count("fault/user-cancelled-while-idle-or-waiting")
                        break
                try:
                    await task
                    break
                except asyncio.CancelledError:
                    if not task.cancelled() or asyncio.current_task().cancelling():
                        raise
            outcomes[u] = "ok"
        except asyncio.CancelledError:
            outcomes[u] = "cancelled"
            raise
        except Exception as e:
            outcomes[u] = f"{type(e).__name__}: {e}"

    nops = [1 + tape.draw("c15/nops", 5) for _ in range(nusers)]

    async def single_process(loop):
        ec = make_ec(0)
        if parallel:
            ec.mbx_lock_file = LockFile("/run/ebpf/sim0", ec.terminal_addr_range[0],
                                          ec.terminal_addr_range[1] + 1)   # as ParallelEtherCat.run makes it
        await EtherCat.connect(ec)
        tobj = [instrument(preinit(ec, st)) for st, _ in sterms]
        tasks = [asyncio.ensure_future(user(u, tobj[user_term[u]], nops[u]))
                 for u in range(nusers)]
        await asyncio.wait(tasks, timeout=5)
        for x in tasks:
            x.cancel()

    def process_main(pno):
        mine = [u for u in range(nusers) if user_proc[u] == pno]

        async def main(loop):
            try:
                await asyncio.sleep([0, 0, 30e-6, 200e-6][tape.draw("c15/start", 4)])
                ec = make_ec(pno)
                ec.mbx_lock_file = LockFile("/run/ebpf/sim0", ec.terminal_addr_range[0],
                                          ec.terminal_addr_range[1] + 1)   # as ParallelEtherCat.run makes it
                await EtherCat.connect(ec)
                if gentle:
                    tobj = await asyncio.wait_for(attach(pno, ec), 8)
                else:
                    tobj = [instrument(preinit(ec, st)) for st, _ in sterms]
                await asyncio.wait_for(asyncio.gather(
                    *[user(u, tobj[user_term[u]], nops[u]) for u in mine]), 5)
            except asyncio.TimeoutError:
                for u in mine:
                    outcomes.setdefault(u, "timeout")
            except Exception as e:
                for u in mine:
                    outcomes.setdefault(u, f"{type(e).__name__}: {e}")
        return main

    # in some 'processes' runs the terminals are attached the way the documentation asks
    # parallel users to: Terminal.gentle_initialize. The terminals are found in INIT (with
    # the station address an earlier session left, or none); the first process initialises
    # them (new address) and brings them to PRE-OPERATIONAL, the others then find them so
    gentle = multi and tape.chance("c15/attach-gently", 30)
    attached = [0]
    if gentle:
        for k, (st, srv) in enumerate(sterms):
            st.al_state = 1
            struct.pack_into("<H", st.mem, 0x10,
                             0 if tape.chance("c15/no-stale-address", 30) else 1005 + k)
        first_proc = min(user_proc)

    async def attach(pno, ec):
        from ebpfcat.ethercat import MachineState, Terminal
        tobj = []
        # one process at a time: the EEPROM interface of a terminal is one set of registers
        # without any lock, two processes reading it at once get each other's bytes
        order = sorted(set(user_proc))
        while attached[0] < order.index(pno):
            await asyncio.sleep(2e-3)
        for k, (st, srv) in enumerate(sterms):
            t = Terminal(ec)
            t.name = st.name
            await t.gentle_initialize(relative=-k)
            if pno == first_proc:
                await t.to_operational(MachineState.PRE_OPERATIONAL)
            tobj.append(instrument(t))
        attached[0] += 1
        if pno == first_proc:
            world.count("c15/attached-by-gentle-initialize")
        return tobj

    aborted = None
    with env:
        try:
            if multi:
                for pno in range(nprocs):
                    if any(user_proc[u] == pno for u in range(nusers)):
                        sched.spawn(f"proc{pno}", process_main(pno))
                aborted = sched.run()
            else:
                env.run(single_process)
        except SimStall as e:
            viol("did-not-finish", str(e), scenario=scenario)
        for m, tn, txt in env.loop_exceptions():
            if tn != "CancelledError":
                viol("library-task-died", f"{m}: {tn}: {txt}", exception=tn, scenario=scenario)
    if aborted:
        viol("did-not-finish", aborted, scenario=scenario)

    # ---- oracle at the terminal
    def who(k, raw):
        if k == "w":           # requests carry their user in the source address field
            adr, = struct.unpack_from("<H", raw, 2)
            return adr - 0x100 if 0x100 <= adr < 0x200 else None
        if len(raw) >= 12 and raw[5] & 0xf == 3 and raw[7] >> 4 == 3:
            idx, = struct.unpack_from("<H", raw, 9)       # SDO responses echo the index
            if 0x2000 <= idx < 0x2100 or 0x3000 <= idx < 0x3100:
                return idx & 0xff
        return None
    all_events = []
    overlap_users = 0
    for tno, (st, server) in enumerate(sterms):
        events = [(k, who(k, raw), (raw[5] >> 4) & 7, more) for k, raw, more in st.mbx_log]
        all_events.append([e[:3] for e in events])
        open_req = None        # ("user", u) while an exchange is open at this terminal
        for pos, (k, u, cnt, more) in enumerate(events):
            if k == "w":
                # one exchange may consist of several request/response pairs (segmented
                # transfer) or several responses (fragmented SDO information): only a
                # request of *another* user inside it is an interleaving
                if open_req is not None and open_req[1] != u:
                    viol("exchanges-interleaved",
                         f"terminal {tno}: user {u} wrote a request while user {open_req[1]}'s "
                         f"exchange was open (mailbox events "
                         f"{[(a, b) for a, b, c, d in events][max(0, pos - 12):pos + 2]})",
                         scenario=scenario)
                    break
                open_req = ("user", u)
            else:
                if open_req is not None and u is not None and u != open_req[1]:
                    viol("foreign-answer-read", f"terminal {tno}: answer for user {u} read "
                         f"while user {open_req[1]}'s exchange was open", scenario=scenario)
                if not more:   # no further fragment queued, no segmented transfer going on
                    open_req = None
        counters = [cnt for k, u, cnt, more in events if k == "w"]
        for i, c in enumerate(counters):
            ok = 0 <= c <= 7 if i == 0 else c == counters[i - 1] % 7 + 1
            if not ok:
                viol("counter-sequence", f"terminal {tno}: request counters {counters}: "
                     f"position {i} is not the successor in 1..7", scenario=scenario)
                break
        for d in server.deviations:
            if d.rule.startswith("counter"):
                viol("counter-sequence", f"terminal {tno} server: {d.rule}: {d.detail}; "
                     f"counters {counters}", scenario=scenario)
        users_seen = [u for k, u, c, more in events if k == "w"]
        overlap_users += sum(1 for a, b in zip(users_seen, users_seen[1:]) if a != b)
    events = [e for ev in all_events for e in ev]
    for u in range(nusers):
        o = outcomes.get(u)
        if o not in ("ok",):
            viol("participant-failed", f"user {u}: {o}", scenario=scenario,
                 exception=(o or "none").split(":")[0])
    # exchanges overlapped in time if some user had to wait for the lock
    users_seen = [u for k, u, c in events if k == "w"]
    switches = overlap_users
    trace = tuple(sched.trace) if sched is not None else ()
    return {
        "violations": violations, "stats": dict(world.counters),
        "digest": world.digest.hexdigest(), "sim_time": world.now,
        "schedule": repr((trace, [(a, b) for a, b, c in events])),
        "nontrivial": switches >= 1 and len(set(users_seen)) >= 2,
        "sample": {"scenario": scenario, "users": nusers, "exchanges": nops,
                   "mailbox_events": [(a, b, c) for a, b, c in events][:24],
                   "outcomes": {str(k): v for k, v in outcomes.items()},
                   "process_switches": len(trace)},
    }
