"""C24 Cancelling a sync group releases its resources and ends cancelled"""
import asyncio

from sim.bus import OP, SAFEOP, WireFaults
from sim.loop import SimStall
from sim.seams import Env
from sim.tape import Tape

from . import wl_groups as wl
from .c21 import build_devices

PROPERTY = "C24"
LEVEL = "fault_enumeration"
LEVEL_TEXT = ("for every drawn configuration the cancellation point is enumerated, not "
              "sampled: one simulation per step n = 1..S of the group task (S = steps through "
              "start-up and the first three cycles), plus drawn cancellation times while the "
              "task is suspended; configurations (layout, jitter, terminal delays) are sampled")
SCENARIOS = {"slow": 2, "fast": 2, "process": 1}
TIERS = {"quick": {"runs": 640, "chunk": 4, "recheck": 2},
         "thorough": {"runs": 50000000, "wall_s": 600, "chunk": 8, "recheck": 16}}
RULE = ("one run = one drawn configuration (1-3 terminals, read-write or read-only, FMMU or "
        "direct, wire jitter, AL transition delays 0..2 polls, terminals found in any AL state "
        "with or without a pending error) of a slow SyncGroup or a "
        "FastSyncGroup on the simulated bus; a reference simulation counts the S steps of "
        "the group task up to its third cycle; then S simulations cancel the task before "
        "step n (n = 1..S, exhaustive) and 8 more cancel it at drawn times while it is "
        "suspended, and 6 cancel it before a drawn step while a terminal the group only reads "
        "stops answering at that moment; evaluations = cancelled simulations; distinct = distinct (kind, "
        "configuration digest, n); non-trivial = the cancel landed after the group had "
        "started to talk to its terminals")
RULE += '; since the 4th session also 3 simulations per configuration in which the cyclic frames are lost from a drawn cycle on and the cancellation is placed 0.2 ns before or after the timer of the 20 ms wait (same loop iteration)'
RULE += '; also up to 2 simulations per configuration in which the frame with the OPERATIONAL requests is lost, the task is cancelled 0-90 ms later and the bus is watched for another 0.45 s'
COMPONENTS = {
    "real": ["ebpfcat.ebpfcat.SyncGroupBase.run/map_fmmu", "SyncGroup.start",
             "FastSyncGroup.run", "FastEtherCat.register_sync_group", "Terminal.map_fmmu/"
             "to_operational/set_state", "asyncio gather/wait_for/cancellation (CPython)"],
    "stub": ["event loop with per-task step hook", "socket", "wire", "ESC AL/FMMU model",
             "bpf() kernel side + interpreter (fast kind)"]}
ASSUMPTIONS = ["process-based kind: parent and spawned child are simulated processes "
               "(threads under the tape-driven scheduler); the child is observed through its "
               "unpickled copy of the group",
               "cancellation is injected into the group task only (as SyncGroup users do)"]


def simulate(kind, values, cancel_step=None, cancel_time=None, silent=False,
             timeout_cancel=None, lost_op_request=None):
    """one simulation of one configuration; returns a dict of observations

    silent: at the moment of the cancellation a terminal the group only reads (if there
    is one) stops answering - unplugged or switched off - so that nothing the clean-up does
    may depend on it"""
    from ebpfcat.ebpfcat import FastEtherCat, FastSyncGroup, SyncGroup
    from ebpfcat.ethercat import EtherCat

    tape = values if isinstance(values, Tape) else Tape(replay=values)
    if tape.replay is not None and tape.tail is None:
        import random
        tape.tail = random.Random(len(tape.replay))    # (a run that outlasts the reference)
    fast = kind == "fast"
    env = Env(tape, with_kernel=fast,
              faults=WireFaults(delay_buckets=(50e-6, 20e-6, 150e-6, 600e-6)))
    world, bus = env.world, env.bus
    ec = FastEtherCat("sim0") if fast else EtherCat("sim0")
    many = tape.chance("c24/many-terminals", 3)
    if many:
        # a group with more read-write terminals than one frame has datagrams (they share
        # the two FMMU datagrams): 16-19 small output terminals
        specs = [dict(in_sz=0 if tape.chance("c24/many-no-input", 60) else 1, out_sz=1,
                      n_fmmu=2, use_fmmu=True) for _ in range(16 + tape.draw("c24/nmany", 4))]
        world.count("c24/group-with-more-than-15-read-write-terminals")
    else:
        specs = wl.gen_specs(tape, "c24", max_terms=3, max_sz=6)
    sims, terms = wl.build(env, ec, specs)
    for st in sims:
        maxd = tape.draw("c24/al-maxdelay", 3)
        st.al_delay = lambda frm, to, maxd=maxd: tape.draw("c24/al-delay", maxd + 1)
        # what an earlier master (or a watchdog trip) left behind: any state, maybe an error
        st.al_state = [1, 1, 1, 2, 4, 8][tape.draw("c24/al-start", 6)]
        st.al_error = tape.chance("c24/al-start-error", 20)
    if many:
        links = [dict(term=k, sm="out", pos=0, size="B") for k in range(len(specs))]
    else:
        links = wl.gen_links(tape, specs, "c24", max_vars=2)
    if not links:
        links = [dict(term=0, sm="in" if specs[0]["in_sz"] else "out", pos=0, size="B")]
    devices = build_devices(tape, terms, links, "c24")
    obs = dict(steps=0, cycles=0, outcome=None, ref_time=None, started=False, many=many)
    cfg_draws = len(tape.values)
    rw_terms = {ln["term"] for ln in links if ln["sm"] == "out"}
    readonly = [k for k in range(len(specs)) if k not in rw_terms
                and any(ln["term"] == k for ln in links)]

    def go_silent():
        if silent and readonly:
            k = readonly[0]
            sims[k].skip_datagram = lambda d: True
            obs["silent_terminal"] = k
            world.count("fault/read-only-terminal-silent-at-cancel")

    async def main(loop):
        await ec.connect()
        sg = (FastSyncGroup if fast else SyncGroup)(ec, devices)
        orig_update = sg.update_devices

        def update_devices(data):
            obs["cycles"] += 1
            if timeout_cancel is not None and obs["cycles"] == timeout_cancel[0]:
                # from now on the frames are lost, and the cancellation arrives in the very
                # loop iteration in which the wait for the response times out (just before
                # or just after the timer, as drawn); then the bus works again
                bus.delay_for = lambda no, frame: 1e7
                world.count("fault/frames-lost-from-a-cycle-on")

                def arm():
                    pend = [h for h in loop._scheduled if not h._cancelled
                            and 0.005 < h._when - loop.time() <= 0.0201]
                    if not pend:
                        obs["cancel_injected_at"] = loop.time() - t0
                        bus.delay_for = None
                        task.cancel()
                        return
                    when = min(h._when for h in pend)
                    obs["cancel_with_timer_at"] = when - t0
                    world.count("c24/cancel-in-the-iteration-of-a-timeout")

                    def cancel_now():
                        obs["cancel_injected_at"] = loop.time() - t0
                        obs["started"] = True
                        bus.delay_for = None      # (the clean-up gets its answers)
                        task.cancel()
                    loop.call_at(when + (-2e-10 if timeout_cancel[1] else 2e-10), cancel_now)
                loop.call_later(0.0125, arm)    # (past the 10 ms pacing sleep of the cycle)
            if obs["cycles"] == 3 and cancel_step is None and cancel_time is None \
                    and timeout_cancel is None:
                obs["ref_steps"] = obs["steps"]
                obs["ref_time"] = loop.time() - t0
                loop.call_soon(task.cancel)
            return orig_update(data)
        sg.update_devices = update_devices
        t0 = loop.time()
        task = sg.start()
        obs["sg"] = sg
        if lost_op_request is not None:
            # the frame that carries the OPERATIONAL requests is lost; the group (which
            # waits for its answer) is cancelled a little later; the bus is then watched
            # for longer than any resend of that frame would take
            from sim.bus import parse_ecat

            def lose_it(no, frame):
                if "op_frame_lost" in obs or len(frame) < 30:
                    return None
                try:
                    _, _, dg = parse_ecat(bytes(frame[14:]), strict=False)
                except Exception:
                    return None
                if any(d.cmd == 5 and d.ado == 0x120 and frame[14 + d.data_pos] & 0xf == 8
                       for d in dg):
                    obs["op_frame_lost"] = loop.time() - t0
                    world.count("fault/frame-with-the-operational-requests-lost")

                    def cancel_now():
                        obs["cancel_injected_at"] = loop.time() - t0
                        obs["started"] = True
                        bus.delay_for = None
                        task.cancel()
                    loop.call_later(lost_op_request, cancel_now)
                    return 1e7
                return None
            bus.delay_for = lose_it

        def hook(t):
            if t is task:
                obs["steps"] += 1
                if cancel_step is not None and obs["steps"] == cancel_step:
                    obs["cancel_injected_at"] = loop.time() - t0
                    obs["started"] = any(st.al_log for st in sims)
                    go_silent()
                    t.cancel()
        loop.step_hook = hook
        if cancel_time is not None:
            def cancel_now():
                obs["cancel_injected_at"] = loop.time() - t0
                obs["started"] = any(st.al_log for st in sims)
                go_silent()
                task.cancel()
            loop.call_later(cancel_time, cancel_now)
        done, pending = await asyncio.wait([task], timeout=2.0)
        loop.step_hook = None
        if pending:
            obs["outcome"] = "still-running"
            task.cancel()
            await asyncio.wait([task], timeout=0.5)
        elif task.cancelled():
            obs["outcome"] = "cancelled"
        else:
            e = task.exception()
            obs["outcome"] = "returned" if e is None else f"{type(e).__name__}: {e}"
        await asyncio.sleep(0.05)       # let everything that was sent reach the terminals
        if lost_op_request is not None:
            await asyncio.sleep(0.4)
        obs["fmmu_used"] = [list(t.fmmu_used) for t in terms]
        obs["al_logs"] = [list(st.al_log) for st in sims]
        obs["al_states"] = [st.al_state for st in sims]
        if fast:
            obs["sync_groups"] = dict(ec.sync_groups)
            pa = env.kernel.obj(ec.programs)
            obs["prog_slots"] = [i for i in range(64) if pa.prog_at(i) is not None]

    with env:
        try:
            env.run(main)
        except SimStall as e:
            obs["outcome"] = f"SimStall: {e}"
        except Exception as e:
            obs["outcome"] = f"harness/{type(e).__name__}: {e}"
        obs["loop_exceptions"] = [x for x in env.loop_exceptions() if x[1] != "CancelledError"]
    obs["digest"] = world.digest.hexdigest()
    obs["sim_time"] = world.now
    obs["specs"] = specs
    obs["links"] = links
    obs["counters"] = dict(world.counters)
    obs.pop("sg", None)
    return obs


def judge(kind, obs, where):
    """oracle on one cancelled simulation -> (rule, detail, params) or None"""
    out = obs["outcome"]
    if out != "cancelled":
        return ("task-did-not-end-cancelled",
                f"{where}: the group task ended as {out!r}", {"kind": kind, "ended": out.split(":")[0]})
    for k, log in enumerate(obs["al_logs"]):
        writes = [v & 0xf for t, v in log if t == "w"]
        if OP in writes:
            last_op = len(writes) - 1 - writes[::-1].index(OP)
            if SAFEOP not in writes[last_op + 1:]:
                return ("terminal-left-operational",
                        f"{where}: terminal {k} was asked to go OPERATIONAL and never asked "
                        f"back to SAFE-OPERATIONAL (AL control writes {writes}, final state "
                        f"{obs['al_states'][k]})", {"kind": kind})
    for k, used in enumerate(obs["fmmu_used"]):
        if any(x is not None for x in used):
            return ("fmmu-not-freed", f"{where}: terminal {k} table {used}", {"kind": kind})
    if kind == "process" and obs.get("child_state") not in ("exited", "never-started"):
        return ("child-process-not-stopped",
                f"{where}: the spawned process is {obs.get('child_state')}", {"kind": kind})
    if kind == "fast":
        if obs.get("sync_groups"):
            return ("group-still-registered", f"{where}: ec.sync_groups = "
                    f"{sorted(obs['sync_groups'])}", {"kind": kind})
        if obs.get("prog_slots"):
            return ("program-still-in-table", f"{where}: program table slots "
                    f"{obs['prog_slots']} still hold a program", {"kind": kind})
    if obs["loop_exceptions"]:
        m, tn, txt = obs["loop_exceptions"][0]
        return ("library-task-died", f"{where}: {m}: {tn}: {txt}", {"kind": kind, "exception": tn})
    return None


def simulate_process(values, cancel_step=None, cancel_time=None):
    """process-based kind: the parent's task is ProcessSyncGroup.wait_for_process"""
    from ebpfcat.ebpfcat import ParallelEtherCat, ProcessSyncGroup

    tape = values if isinstance(values, Tape) else Tape(replay=values)
    if tape.replay is not None and tape.tail is None:
        import random
        tape.tail = random.Random(len(tape.replay))
    if tape.replay is not None and tape.tail is None:
        import random
        tape.tail = random.Random(len(tape.replay))    # (a run that outlasts the reference)
    env = Env(tape, with_kernel=True, with_fs=True,
              faults=WireFaults(delay_buckets=(50e-6, 20e-6, 150e-6)))
    world = env.world
    sched = env.use_scheduler(preempt_bound=tape.draw("sched/bound", 3), preempt_den=6)
    specs = wl.gen_specs(tape, "c24", max_terms=2, max_sz=6)
    links = wl.gen_links(tape, specs, "c24", max_vars=2)
    if not links:
        links = [dict(term=0, sm="in" if specs[0]["in_sz"] else "out", pos=0, size="B")]
    obs = dict(steps=0, cycles=0, outcome=None, ref_time=None, started=False)
    holder = {}

    async def parent(loop):
        ec = ParallelEtherCat("sim0")
        async with ec.run():
            sims, terms = wl.build(env, ec, specs)
            holder["sims"] = sims
            for st in sims:
                maxd = tape.draw("c24/al-maxdelay", 3)
                st.al_delay = lambda frm, to, maxd=maxd: tape.draw("c24/al-delay", maxd + 1)
            for t in terms:
                t.mbx_lock = None
            devices = build_devices_picklable(tape, terms, links)
            sg = ProcessSyncGroup(ec, devices)
            t0 = loop.time()
            task = sg.start()

            def hook(t):
                if t is task:
                    obs["steps"] += 1
                    if cancel_step is not None and obs["steps"] == cancel_step:
                        obs["started"] = any(st.al_log for st in sims)
                        t.cancel()
            loop.step_hook = hook
            if cancel_time is not None:
                def cancel_now():
                    obs["started"] = any(st.al_log for st in sims)
                    task.cancel()
                loop.call_later(cancel_time, cancel_now)
            if cancel_step is None and cancel_time is None:
                # reference: let the child cycle a few times, then cancel
                def child_cycles():
                    return sum(1 for st in sims for k, v in st.al_log if k == "w" and v & 0xf == 8)
                for _ in range(400):
                    await asyncio.sleep(0.005)
                    if task.done() or (child_cycles() and loop.time() - t0 > 0.08):
                        break
                obs["ref_steps"] = obs["steps"]
                obs["ref_time"] = loop.time() - t0
                obs["cycles"] = 3
                task.cancel()
            done, pending = await asyncio.wait([task], timeout=3.0)
            loop.step_hook = None
            if pending:
                obs["outcome"] = "still-running"
            elif task.cancelled():
                obs["outcome"] = "cancelled"
            else:
                e = task.exception()
                obs["outcome"] = "returned" if e is None else f"{type(e).__name__}: {e}"
            await asyncio.sleep(0.1)
            child = sg.process.proc if getattr(sg, "process", None) is not None else None
            obs["child_state"] = child.state if child is not None else "never-started"
            obs["al_logs"] = [list(st.al_log) for st in sims]
            obs["al_states"] = [st.al_state for st in sims]
            kids = env.spawn_ctx.children_objects
            obs["fmmu_used"] = [list(t.fmmu_used) for g in kids for t in g.terminals] \
                + [list(t.fmmu_used) for t in terms]
            if pending:
                sg.runningValue.value = False
                await asyncio.sleep(0.2)

    aborted = None
    with env:
        try:
            sched.spawn("parent", parent)
            aborted = sched.run()
        except SimStall as e:
            obs["outcome"] = f"SimStall: {e}"
        obs["loop_exceptions"] = [x for x in env.loop_exceptions() if x[1] != "CancelledError"]
        for p in sched.procs:
            if p.exc is not None and type(p.exc).__name__ != "SimKilled" and obs["outcome"] is None:
                obs["outcome"] = f"harness/{p.name}: {type(p.exc).__name__}: {p.exc}"
    if aborted and obs["outcome"] is None:
        obs["outcome"] = "harness/" + aborted
    obs.setdefault("al_logs", [])
    obs.setdefault("al_states", [])
    obs.setdefault("fmmu_used", [])
    obs["digest"] = world.digest.hexdigest()
    obs["sim_time"] = world.now
    obs["specs"] = specs
    obs["links"] = links
    return obs


class ProcDev:
    """module-level (picklable) device for the process kind"""


def build_devices_picklable(tape, terms, links):
    from ebpfcat.ebpfcat import Device, PacketVar, TerminalVar
    from ebpfcat.ethercat import SyncManager
    global PDev
    if "PDev" not in globals():
        ns = {f"i{i}": TerminalVar() for i in range(4)}
        ns.update({f"o{i}": TerminalVar() for i in range(4)})

        def update(self):
            for i in range(self.nin):
                getattr(self, f"i{i}")
            for j in range(self.nout):
                setattr(self, f"o{j}", self.outvals[j])
        ns["update"] = update
        PDev = type("PDev", (Device,), ns)
        PDev.__module__ = __name__
        PDev.__qualname__ = "PDev"
    d = PDev()
    ins = [ln for ln in links if ln["sm"] == "in"][:4]
    outs = [ln for ln in links if ln["sm"] == "out"][:4]
    d.nin, d.nout = len(ins), len(outs)
    d.outvals = [wl.draw_value(tape, ln, "c24") for ln in outs]
    for i, ln in enumerate(ins):
        setattr(d, f"i{i}", PacketVar(terms[ln["term"]], SyncManager.IN, ln["pos"], ln["size"]))
    for j, ln in enumerate(outs):
        setattr(d, f"o{j}", PacketVar(terms[ln["term"]], SyncManager.OUT, ln["pos"], ln["size"]))
    return [d]


def run(tape, scenario):
    kind = scenario
    # the configuration is whatever the first simulation draws; record it by
    # running the reference simulation on the live tape
    probe = Tape(seed=tape.draw("c24/config-seed", 1 << 30))
    sim = (lambda k, v, **kw: simulate_process(v, **kw)) if kind == "process" else simulate
    ref = sim(kind, probe)
    values = list(probe.values)
    violations = []
    stats = {"c24/simulations": 1}
    sim_time = ref["sim_time"]
    nontrivial = 0
    distinct = set()
    if "ref_steps" in ref and ref["outcome"] != "cancelled":
        r = judge(kind, ref, "cancel after the group had cycled")
        violations.append({"rule": r[0], "params": r[2], "detail": r[1]})
        S = 0
    elif ref["outcome"] != "cancelled" or "ref_steps" not in ref:
        violations.append({"rule": "reference-run-failed", "params": {"kind": kind},
                           "detail": f"reference run: outcome {ref['outcome']!r} after "
                                     f"{ref['cycles']} cycles; specs {ref['specs']}"})
        S = 0
    else:
        r = judge(kind, ref, "cancel after the third cycle")
        if r is not None:
            violations.append({"rule": r[0], "params": r[2], "detail": r[1]})
        S = ref["ref_steps"]
    stats["c24/steps-max"] = S
    steps = range(1, S + 1)
    if ref.get("many"):
        # (a big configuration: every third step and the last ones instead of all of them)
        steps = sorted(set(range(1, S + 1, 3)) | set(range(max(1, S - 3), S + 1)))
    for n in steps:
        if violations:
            break
        obs = sim(kind, values, cancel_step=n)
        stats["c24/simulations"] += 1
        sim_time += obs["sim_time"]
        nontrivial += bool(obs.get("started"))
        distinct.add((kind, n))
        r = judge(kind, obs, f"cancel before step {n} of {S}")
        if r is not None:
            violations.append({"rule": r[0], "params": r[2], "detail": r[1]})
    if not violations and kind != "process" and S:
        # cancellation together with a fault: a terminal the group only reads has stopped
        # answering when the cancellation arrives (6 drawn steps per configuration)
        for j in range(6):
            n = 1 + tape.draw("c24/silent-cancel-step", S)
            obs = sim(kind, values, cancel_step=n, silent=True)
            if "silent_terminal" not in obs:
                break
            stats["c24/simulations"] += 1
            stats["c24/cancels-with-silent-terminal"] = \
                stats.get("c24/cancels-with-silent-terminal", 0) + 1
            sim_time += obs["sim_time"]
            r = judge(kind, obs, f"cancel before step {n} of {S} with read-only terminal "
                                 f"{obs['silent_terminal']} silent from then on")
            if r is not None:
                r[2]["silent"] = True
                violations.append({"rule": r[0], "params": r[2], "detail": r[1]})
                break
    if not violations and ref.get("ref_time"):
        for j in range(4 if kind == "process" else 8):
            t = ref["ref_time"] * (1 + tape.draw("c24/cancel-time", 1000)) / 1000.0
            obs = sim(kind, values, cancel_time=t)
            stats["c24/simulations"] += 1
            stats["c24/timed-cancels"] = stats.get("c24/timed-cancels", 0) + 1
            sim_time += obs["sim_time"]
            nontrivial += bool(obs.get("started"))
            r = judge(kind, obs, f"cancel at t={t * 1e3:.3f} ms")
            if r is not None:
                violations.append({"rule": r[0], "params": r[2], "detail": r[1]})
                break
    if not violations and kind != "process" and ref.get("ref_time"):
        # cancellation in the same loop iteration as the time-out of a lost cyclic frame
        for j in range(3):
            cyc = 1 + tape.draw("c24/lost-from-cycle", 3)
            before = bool(tape.draw("c24/cancel-before-the-timer", 2))
            obs = sim(kind, values, timeout_cancel=(cyc, before))
            stats["c24/simulations"] += 1
            stats["c24/cancels-with-a-timeout"] = stats.get("c24/cancels-with-a-timeout", 0) \
                + ("cancel_with_timer_at" in obs)
            sim_time += obs["sim_time"]
            nontrivial += bool(obs.get("started"))
            r = judge(kind, obs, f"all frames lost from cycle {cyc} on, cancel just "
                                 f"{'before' if before else 'after'} the time-out fires")
            if r is not None:
                r[2]["with_timeout"] = True
                violations.append({"rule": r[0], "params": r[2], "detail": r[1]})
                break
    if not violations and kind != "process" and ref.get("ref_time"):
        # the frame with the OPERATIONAL requests lost, the cancellation 0-90 ms later
        for j in range(2):
            dt = [0.0, 0.002, 0.03, 0.09][tape.draw("c24/cancel-after-the-lost-frame", 4)]
            obs = sim(kind, values, lost_op_request=dt)
            if "op_frame_lost" not in obs:
                break           # (a group that writes no terminal requests nothing)
            stats["c24/simulations"] += 1
            stats["c24/cancels-after-a-lost-op-request"] = \
                stats.get("c24/cancels-after-a-lost-op-request", 0) + 1
            sim_time += obs["sim_time"]
            nontrivial += bool(obs.get("started"))
            r = judge(kind, obs, f"frame with the OPERATIONAL requests lost, cancel "
                                 f"{dt * 1e3:.0f} ms later, bus watched for 0.45 s")
            if r is not None:
                r[2]["lost_op_request"] = True
                violations.append({"rule": r[0], "params": r[2], "detail": r[1]})
                break
    stats["c24/cancelled-simulations"] = stats["c24/simulations"] - 1
    stats["c24/cancels-after-start"] = nontrivial
    return {
        "violations": violations, "stats": stats, "digest": ref["digest"],
        "sim_time": sim_time, "schedule": (kind, ref["digest"]),
        "nontrivial": nontrivial > 0,
        "evaluations": stats["c24/cancelled-simulations"],
        "items": [(kind, ref["digest"], n) for _, n in sorted(distinct)],
        "sample": {"kind": kind, "terminals": ref["specs"], "steps_enumerated": S,
                   "reference_cycles": ref["cycles"]},
    }


