"""C08 Array-map variables read back the same on both sides"""
import struct
from decimal import Decimal

from sim.bufmon import BufferMonitor
from sim.seams import Env

PROPERTY = "C08"
LEVEL = "exploration"
SCENARIOS = {"flat": 2, "hierarchy": 3, "percpu": 2}
TIERS = {"quick": {"runs": 8000, "chunk": 30}, "thorough": {"runs": 50000000, "wall_s": 600, "chunk": 150, "recheck": 16}}
RULE = ("one run = a tape-generated class hierarchy (program, 0-2 base classes - in "
        "'hierarchy' possibly overriding a name with another format - and 0-3 sub-program "
        "instances of 1-2 classes) declaring 1-12 variables with formats B H I Q b h i q x "
        "and multi-element formats (3B 4H 16I 5s) in one array map, in 'percpu' also a "
        "per-CPU map with possible CPUs > online CPUs; a generated program body copies "
        "variables and stores constants; a history of up to 30 operations (Python write - 40 % "
        "of them a value Python wrote to that variable before, so that values recur -, "
        "program run on CPU k by the interpreter, Python read, per-CPU read) is checked "
        "against a reference model after every operation, and the variables' byte ranges "
        "must be disjoint and inside the map; a two-party history, no timing dimension; "
        "distinct = distinct (declarations, history) digests; non-trivial = at least 3 "
        "variables and one program run")
RULE += '; since the 4th session also per-CPU variables in sub-program classes, a second instance of the program class with another list of sub-programs, sub-program/program classes with __eq__/__hash__/__len__, refused out-of-range writes, and an unusable possible-CPU file with a pinned process (all CPUs online)'
RULE += "; also Python stores during which a running program instance executes between the lines of the library's store, and (2 %) the layout computed in a second interpreter with another string hash seed"
COMPONENTS = {
    "real": ["ebpfcat.arraymap.ArrayMap.collect/init/create_map, ArrayGlobalVarDesc (both "
             "branches), PerCPUArrayMap, PerCPUVar, PerCPUReader", "code generator",
             "ebpfcat.bpf wrappers"],
    "stub": ["bpf() kernel side (maps, mmap, per-CPU values)", "eBPF interpreter"]}
ASSUMPTIONS = ["values written are inside the declared format's range (what an out-of-range "
               "value becomes is C01's subject; here such a write is only made to see that, "
               "when it is refused, the variable keeps its value)", "fixed-point values with at most 5 fractional digits"]

SCALAR = ["B", "H", "I", "Q", "b", "h", "i", "q", "x"]
MULTI = ["3B", "4H", "16I", "5s", "2q", "BI", "HQ", "BHI"]   # the last three with native padding


def fsize(fmt):
    return 8 if fmt == "x" else struct.calcsize(fmt)


def draw_scalar(tape, fmt):
    if fmt == "x":
        return float(Decimal(tape.draw("c08/xint", 2000001) - 1000000) / Decimal(100))
    bits = 8 * struct.calcsize(fmt)
    v = tape.draw("c08/val", 1 << min(bits, 31))
    if bits > 31 and tape.chance("c08/wide", 50):
        v |= tape.draw("c08/valhi", 1 << (bits - 31)) << 31
    v &= (1 << bits) - 1
    if fmt.islower():
        v -= (v >> (bits - 1)) << bits
    return v


def draw_value(tape, fmt):
    if fmt in SCALAR:
        return draw_scalar(tape, fmt)
    if fmt.endswith("s"):
        return tape.bytes("c08/bytes", int(fmt[:-1]))
    if not fmt[0].isdigit():      # heterogeneous: one element per letter
        return tuple(draw_scalar(tape, f) for f in fmt)
    n, f = int(fmt[:-1]), fmt[-1]
    return tuple(draw_scalar(tape, f) for _ in range(n))


def layout_elsewhere(values, scenario, hashseed):
    """the positions the same declarations get in another interpreter with another string
    hash seed (a second session that opens the first one's pinned maps lays its
    variables out on its own): {holder.name: position} or an error string"""
    import json, os, subprocess, sys
    verif = os.path.dirname(os.path.dirname(os.path.abspath(__file__)))
    code = ("import sys, json, os\n"
            f"sys.path.insert(0, {verif!r}); sys.path.insert(0, os.environ.get('VERIF_REPO', '/repo'))\n"
            "from sim.tape import Tape\n"
            "from checks import c08\n"
            "d = json.load(sys.stdin)\n"
            "print('LAYOUT', json.dumps(c08.run(Tape(replay=d['values']), d['scenario'], "
            "layout_only=True)))\n")
    env = dict(os.environ, PYTHONHASHSEED=str(hashseed), PYTHONDONTWRITEBYTECODE="1")
    try:
        r = subprocess.run([sys.executable, "-c", code], env=env, capture_output=True, text=True,
                           input=json.dumps({"values": values, "scenario": scenario}),
                           timeout=120)
    except Exception as e:
        return f"{type(e).__name__}: {e}"
    for line in r.stdout.splitlines():
        if line.startswith("LAYOUT "):
            return json.loads(line[7:])
    return (r.stderr or r.stdout)[-300:]


def run(tape, scenario, want_c10=False, layout_only=False):
    import hashlib
    from ebpfcat.arraymap import ArrayMap, PerCPUArrayMap
    from ebpfcat.ebpf import SubProgram
    from ebpfcat.xdp import XDP, XDPExitCode

    online = 2 + tape.draw("c08/online", 3)
    possible = online + [0, 0, 1, online, 124][tape.draw("cfg/possible-cpus", 5)] \
        if scenario == "percpu" else online
    monitor = BufferMonitor()
    # the possible-CPU list as the kernel prints it (%*pbl): ranges and lone CPUs
    shape = tape.draw("cfg/cpulist-shape", 4) if possible >= 3 else 0
    if shape == 1:
        cpulist = f"0,2-{possible}"                     # lone first CPU, hole at 1
    elif shape == 2:
        cpulist = f"0-{possible - 2},{possible + 3}"    # lone last CPU
    elif shape == 3:
        k = possible // 2
        cpulist = f"0-{k - 1},{k + 4}-{possible + 3}"   # two ranges
    else:
        cpulist = f"0-{possible - 1}"
    env = Env(tape, with_kernel=True, possible_cpus=possible, online_cpus=online,
              monitor=monitor, cpulist=cpulist)
    world, kernel = env.world, env.kernel
    if possible == online and scenario == "percpu" and tape.chance("fault/cpu-mask-file", 20):
        # no usable sysfs (all CPUs are online, so counting those is right), and the
        # process itself is pinned to a single CPU
        env.cpulist_fault = tape.pick("fault/cpu-mask-file-how", ["unreadable", "garbage"])
        env.affinity_cpus = 1
    violations = []

    def viol(rule, detail, **params):
        if not violations:
            violations.append({"rule": rule, "params": params, "detail": detail})

    amap = ArrayMap()
    pmap = PerCPUArrayMap() if scenario == "percpu" else None
    decls = []          # (holder key, name, fmt, map kind)
    counter = [0]

    def new_name():
        counter[0] += 1
        return f"v{counter[0]}"

    def declare(ns, holder, nvars, allow_multi=True, percpu_ok=True):
        for _ in range(nvars):
            multi = allow_multi and tape.chance("c08/multi", 20)
            fmt = tape.pick("c08/mfmt", MULTI) if multi else tape.pick("c08/fmt", SCALAR)
            # (multi-element per-CPU variables can only be read from Python: a tuple per CPU)
            pc = pmap is not None and percpu_ok and (fmt in SCALAR or fmt in ("3B", "4H", "2q")) \
                and tape.chance("c08/percpu-var", 40)
            name = new_name()
            ns[name] = (pmap if pc else amap).globalVar(fmt)
            decls.append((holder, name, fmt, "percpu" if pc else "array"))

    # base classes
    bases = []
    nbase = tape.draw("c08/nbase", 3) if scenario == "hierarchy" else 0
    for b in range(nbase):
        ns = {}
        declare(ns, "prog", 1 + tape.draw("c08/nbasevars", 3), percpu_ok=False)
        bases.append(type(f"Base{b}", (XDP,) if b == 0 else (bases[-1],), ns))
    ns = {"license": "GPL", "minimumPacketSize": 20, "amap": amap}
    if pmap is not None:
        ns["pmap"] = pmap
    declare(ns, "prog", 1 + tape.draw("c08/nvars", 6))
    overridden = None
    if scenario == "hierarchy" and bases and tape.chance("c08/override", 60):
        cands = [(n, f) for h, n, f, k in decls if n not in ns and h == "prog"]
        if cands:
            name, oldfmt = tape.pick("c08/override-which", cands)
            newfmt = tape.pick("c08/override-fmt", [f for f in SCALAR if f != oldfmt])
            ns[name] = amap.globalVar(newfmt)
            decls[:] = [(h, n, (newfmt if n == name else f), k) for h, n, f, k in decls]
            overridden = (name, oldfmt, newfmt)
            world.count("c08/override-declared")
    # sub-programs
    subclasses = []
    for s in range(tape.draw("c08/nsubcls", 3) if scenario != "flat" else 0):
        sns = {}
        names_before = len(decls)
        declare(sns, f"subcls{s}", 1 + tape.draw("c08/nsubvars", 3),
                percpu_ok=pmap is not None and tape.chance("c08/percpu-in-subprogram", 50))
        # user classes bring their own special methods: sub-programs that compare equal
        # by value (all instances of the class here), or that are empty containers
        if tape.chance("c08/subprograms-equal-by-value", 20):
            sns["__eq__"] = lambda self, other: type(self) is type(other)
            sns["__hash__"] = lambda self: 17
            world.count("c08/sub-program-class-with-value-equality")
        if tape.chance("c08/falsy-subprograms", 15):
            sns["__len__"] = lambda self: 0
            world.count("c08/sub-program-class-with-len-0")
        subclasses.append((type(f"Sub{s}", (SubProgram,), sns), decls[names_before:]))
        del decls[names_before:]
    subs = []
    for i in range(tape.draw("c08/nsubs", 4) if subclasses else 0):
        cls, cdecls = tape.pick("c08/subcls", subclasses)
        inst = cls()
        subs.append(inst)
        for h, n, f, k in cdecls:
            decls.append((f"sub{i}", n, f, k))

    # program body: statements over scalar variables, interpreted by the model too
    scalars = [(h, n, f, k) for h, n, f, k in decls if f in SCALAR]
    stmts = []
    for _ in range(tape.draw("c08/nstmts", 6)):
        if not scalars:
            break
        dst = tape.pick("c08/dst", scalars)
        if tape.chance("c08/copy", 50):
            same = [s for s in scalars if s[2] == dst[2] and s is not dst]
            if same:
                stmts.append(("copy", dst, tape.pick("c08/src", same)))
                continue
        stmts.append(("const", dst, draw_scalar(tape, dst[2])))

    holders = {}

    def program(self):
        def obj(h):
            return self if h == "prog" else self.subprograms[int(h[3:])]
        # (a second instance of the class has other sub-programs: its body is empty)
        for kind, dst, src in ([] if holders.get("building-second") else stmts):
            if kind == "copy":
                setattr(obj(dst[0]), dst[1], getattr(obj(src[0]), src[1]))
            else:
                setattr(obj(dst[0]), dst[1], src)
        self.exit(XDPExitCode.PASS)
    ns["program"] = program
    if tape.chance("c08/falsy-program", 15):
        ns["__len__"] = lambda self: len(self.subprograms)   # no sub-programs: falsy
    P = type("P", (bases[-1],) if bases else (XDP,), ns)

    log = hashlib.sha256(repr((decls, stmts, possible, online)).encode())
    history = []
    with env:
        if subs and tape.chance("c08/subprograms-used-before", 30):
            # the same sub-program instances were part of another program before (other
            # variables around them, so another layout): nothing of that may stick to them
            try:
                pre_ns = {"license": "GPL", "minimumPacketSize": 20, "amap": amap,
                          "program": lambda self: self.exit(XDPExitCode.PASS)}
                for j in range(1 + tape.draw("c08/pre-vars", 3)):
                    pre_ns[f"pre{j}"] = amap.globalVar(tape.pick("c08/pre-fmt", ["Q", "I", "H", "3B"]))
                if pmap is not None:
                    pre_ns["pmap"] = pmap
                P0 = type("P0", (XDP,), pre_ns)
                subset = tuple(subs[::-1]) if tape.chance("c08/pre-reversed", 50) else tuple(subs)
                P0(subprograms=subset).load()
                world.count("c08/subprograms-laid-out-in-an-earlier-program")
            except Exception as e:
                viol("program-cannot-be-generated", f"earlier program: {type(e).__name__}: {e}",
                     exception=type(e).__name__)
        try:
            p = P(subprograms=tuple(subs))
            p.load()
        except Exception as e:
            viol("program-cannot-be-generated", f"{type(e).__name__}: {e}; decls={decls}",
                 exception=type(e).__name__)
            p = None
        elsewhere = p is not None and not want_c10 \
            and tape.chance("c08/layout-in-another-interpreter", 2)
        if p is not None and (layout_only or elsewhere):
            def holder_of(h):
                return p if h == "prog" else p.subprograms[int(h[3:])]
            mine = {f"{h}.{n}": holder_of(h).__dict__.get(n) for h, n, f, k in decls}
            if layout_only:
                return mine
            theirs = layout_elsewhere(list(tape.values), scenario,
                                      1 + tape.draw("c08/other-hash-seed", 100000))
            world.count("c08/layout-compared-with-another-interpreter")
            if not isinstance(theirs, dict):
                raise RuntimeError(f"layout child failed: {theirs}")
            if theirs != mine:
                diff = sorted(k for k in mine if theirs.get(k) != mine[k])
                viol("layout-differs-between-interpreters",
                     f"variables {diff[:6]} sit at {[mine[k] for k in diff[:6]]} here and at "
                     f"{[theirs.get(k) for k in diff[:6]]} in an interpreter with another "
                     f"string hash seed: two sessions sharing a pinned map disagree")
        if p is not None and subclasses and tape.chance("c08/second-instance", 30):
            # another instance of the same program class, with another list of
            # sub-programs (so its maps have other sizes), is generated and loaded
            # while the first one is in use: nothing of it may show in the first
            try:
                others = [tape.pick("c08/subcls2", subclasses)[0]()
                          for _ in range(tape.draw("c08/nsubs2", 5))]
                holders["building-second"] = True
                p2 = P(subprograms=tuple(others))
                p2.load()
                holders["building-second"] = False
                holders["second"] = p2
                world.count("c08/second-instance-of-the-program-class")
                if getattr(pmap, "size", None) is not None and \
                        pmap.collect(p2) != pmap.collect(p):
                    world.count("c08/second-instance-with-another-per-cpu-map-size")
                if amap.collect(p2) != amap.collect(p):
                    world.count("c08/second-instance-with-another-array-map-size")
            except Exception as e:
                viol("program-cannot-be-generated", f"second instance: {type(e).__name__}: {e}",
                     exception=type(e).__name__)
        if p is not None:
            prog = kernel.obj(p.file_descriptor)

            def obj(h):
                return p if h == "prog" else p.subprograms[int(h[3:])]
            # layout: disjoint byte ranges inside the map
            for kind, themap in (("array", amap), ("percpu", pmap)):
                if themap is None:
                    continue
                ranges = []
                for h, n, f, k in decls:
                    if k == kind:
                        pos = obj(h).__dict__[n]
                        ranges.append((pos, pos + fsize(f), h, n, f))
                ranges.sort()
                # (the size of this program's own map, as the kernel has it)
                own = p.__dict__.get(themap.name)
                if own is None:
                    size = 0
                elif kind == "array":
                    size = len(own)
                else:
                    size = kernel.obj(own.fd).value_size
                for r in ranges:
                    if r[1] > size:
                        viol("variable-outside-map", f"{r[2]}.{r[3]} ({r[4]}) occupies "
                             f"{r[0]}:{r[1]} of a {size}-byte map",
                             overridden=bool(overridden and r[3] == overridden[0]))
                for a, b in zip(ranges, ranges[1:]):
                    if b[0] < a[1]:
                        viol("variables-overlap", f"{a[2]}.{a[3]} ({a[4]}) at {a[0]}:{a[1]} "
                             f"and {b[2]}.{b[3]} ({b[4]}) at {b[0]}:{b[1]}",
                             overridden=bool(overridden and overridden[0] in (a[3], b[3])))
            # reference model
            model = {}
            for h, n, f, k in decls:
                zero = 0 if f in SCALAR else (bytes(int(f[:-1])) if f.endswith("s")
                                              else tuple([0] * (int(f[:-1]) if f[0].isdigit()
                                                                else len(f))))
                if k == "array":
                    model[(h, n)] = zero
                else:
                    model[(h, n)] = [zero] * possible

            def same(f, a, b):
                if f == "x":
                    return abs(Decimal(str(a)) - Decimal(str(b))) < Decimal("0.000011")
                return a == b

            def check_all(when):
                for h, n, f, k in decls:
                    if k != "array":
                        continue
                    got = getattr(obj(h), n)
                    if not same(f, got, model[(h, n)]):
                        viol("python-read-differs",
                             f"{when}: {h}.{n} ({f}) reads {got!r}, model {model[(h, n)]!r}",
                             overridden=bool(overridden and n == overridden[0]),
                             fmt=f if f in SCALAR else "multi")
                        return

            array_vars = [d for d in decls if d[3] == "array"]
            pc_vars = [d for d in decls if d[3] == "percpu"]
            nops = 4 + tape.draw("c08/nops", 26)
            runs = 0
            py_values = {}
            kept_views = {}
            for step in range(nops):
                if violations:
                    break
                op = tape.draw("c08/op", 4)
                if op == 0 and array_vars:
                    h, n, f, k = tape.pick("c08/wvar", array_vars)
                    earlier = py_values.setdefault((h, n), [])
                    if earlier and tape.chance("c08/recurring-value", 40):
                        # the value Python wrote before, possibly overwritten by the
                        # program in between
                        v = tape.pick("c08/which-earlier", earlier)
                        world.count("c08/python-wrote-an-earlier-value-again")
                    else:
                        v = draw_value(tape, f)
                        earlier.append(v)
                    setattr(obj(h), n, v)
                    model[(h, n)] = v
                    history.append(("py_write", h, n, f))
                    if f != "x" and not f.endswith("s") and tape.chance("c08/refused-write", 10):
                        # a value the format cannot hold is refused (struct.error): the
                        # variable keeps what was written before, all of it
                        last = f[-1]
                        bad = 1 << (8 * struct.calcsize(last) + 1)
                        bad = tuple(list(v[:-1]) + [bad]) if isinstance(v, tuple) else bad
                        try:
                            setattr(obj(h), n, bad)
                        except Exception:
                            world.count("c08/out-of-range-write-refused")
                        else:
                            model[(h, n)] = None      # (accepted: not judged any further)
                            array_vars = [d for d in array_vars if (d[0], d[1]) != (h, n)]
                            decls[:] = [d for d in decls if (d[0], d[1]) != (h, n)]
                elif op == 1:
                    cpu = tape.draw("c08/cpu", online)      # programs run on online CPUs
                    try:
                        kernel.run_xdp(prog, bytearray(64), cpu=cpu)
                    except Exception as e:
                        viol("interpreter-fault", f"{type(e).__name__}: {e}")
                        break
                    runs += 1
                    for kind, dst, src in stmts:
                        val = src if kind == "const" else (
                            model[(src[0], src[1])] if src[3] == "array"
                            else model[(src[0], src[1])][cpu])
                        if dst[3] == "array":
                            model[(dst[0], dst[1])] = val
                        else:
                            lst = list(model[(dst[0], dst[1])])
                            lst[cpu] = val
                            model[(dst[0], dst[1])] = lst
                    history.append(("run", cpu))
                elif op == 3 and array_vars:
                    # a Python-side write while the program runs on another CPU: instructions
                    # of a program instance are executed between the lines of the library's
                    # store. The written variable is one the program does
                    # not touch; its neighbours in the map are what the program stores into
                    touched = {(d[0], d[1]) for kind, dst, src in stmts
                               for d in ((dst, src) if kind == "copy" else (dst,))}
                    free = [d for d in array_vars if (d[0], d[1]) not in touched
                            and d[2] != "x" and not d[2].endswith("s")]
                    if not free or not stmts:
                        continue
                    import sys
                    from ebpfcat.arraymap import ArrayGlobalVarDesc
                    h, n, f, k = tape.pick("c08/racing-var", free)
                    v = draw_value(tape, f)
                    cpu = tape.draw("c08/cpu", online)
                    inst = kernel.new_instance(prog, bytearray(64), cpu=cpu)
                    done = [False]
                    code = ArrayGlobalVarDesc.__set__.__code__

                    def between(frame, event, arg):
                        if event == "line" and not done[0] \
                                and tape.chance("c08/program-steps-in-between", 40):
                            for _ in range(1 + tape.draw("c08/steps-in-between", 6)):
                                if inst.step():
                                    done[0] = True
                                    break
                        return between

                    def tracer(frame, event, arg):
                        if frame.f_code is code:
                            return between      # (line events: their number does not
                            #                      depend on how warm the byte code is)
                        return None
                    sys.settrace(tracer)
                    try:
                        setattr(obj(h), n, v)
                    finally:
                        sys.settrace(None)
                    try:
                        for _ in range(20000):
                            if done[0] or inst.step():
                                break
                    except Exception as e:
                        viol("interpreter-fault", f"{type(e).__name__}: {e}")
                        break
                    model[(h, n)] = v
                    for kind, dst, src in stmts:
                        val = src if kind == "const" else (
                            model[(src[0], src[1])] if src[3] == "array"
                            else model[(src[0], src[1])][cpu])
                        if dst[3] == "array":
                            model[(dst[0], dst[1])] = val
                        else:
                            lst = list(model[(dst[0], dst[1])])
                            lst[cpu] = val
                            model[(dst[0], dst[1])] = lst
                    runs += 1
                    world.count("c08/python-write-while-the-program-runs")
                    history.append(("py_write_racing", h, n, f, cpu))
                elif op == 2 and pc_vars:
                    try:
                        p.pmap.read()
                    except Exception as e:
                        viol("percpu-read-failed", f"{type(e).__name__}: {e}",
                             more_possible_than_online=possible > online)
                        break
                    h, n, f, k = tape.pick("c08/pcvar", pc_vars)
                    seq = getattr(obj(h), n)
                    # the object an application fetched earlier and kept (outside its
                    # polling loop) shows the values of this read as well
                    kept = kept_views.get((h, n))
                    if kept is not None and tape.chance("c08/use-kept-view", 50):
                        world.count("c08/per-cpu-view-kept-across-reads")
                        try:
                            stale = [c for c in range(online)
                                     if not same(f, kept[c], seq[c])]
                        except Exception as e:
                            viol("percpu-read-failed", f"{n}: kept view: {type(e).__name__}: {e}",
                                 more_possible_than_online=possible > online)
                            break
                        if stale:
                            viol("percpu-read-differs", f"{n} ({f}): the view fetched before "
                                 f"an earlier read() shows {kept[stale[0]]!r} for CPU "
                                 f"{stale[0]}, a fresh one {seq[stale[0]]!r}",
                                 more_possible_than_online=possible > online)
                            break
                    kept_views[(h, n)] = seq
                    try:
                        ncpu = len(seq)
                    except Exception as e:
                        viol("percpu-read-failed", f"{n}: what the variable gives is no "
                             f"sequence of per-CPU values: {type(e).__name__}: {e}",
                             more_possible_than_online=possible > online)
                        break
                    if ncpu < online:
                        viol("percpu-cpu-count", f"{n}: Python sees {ncpu} CPUs, {online} are "
                             f"online ({possible} possible)")
                        break
                    if tape.chance("c08/percpu-by-iteration", 40):
                        # the same values by iterating over the variable (sum(), list())
                        try:
                            listed = list(seq)
                        except Exception as e:
                            viol("percpu-read-failed", f"{n}: list(): {type(e).__name__}: {e}",
                                 more_possible_than_online=possible > online)
                            break
                        try:
                            indexed = [seq[c] for c in range(len(listed))]
                        except Exception:
                            indexed = None
                        if indexed is not None and not all(
                                same(f, a, b) for a, b in zip(listed, indexed)):
                            viol("percpu-read-differs", f"{n} ({f}): iterating gives "
                                 f"{listed[:4]!r}, indexing {indexed[:4]!r}",
                                 more_possible_than_online=possible > online)
                            break
                    for c in range(online):
                        try:
                            got = seq[c]
                        except Exception as e:
                            viol("percpu-read-failed", f"{n} CPU {c}: {type(e).__name__}: {e}",
                                 more_possible_than_online=possible > online)
                            break
                        if not same(f, got, model[(h, n)][c]):
                            viol("percpu-read-differs", f"{n} ({f}) CPU {c}: reads {got!r}, "
                                 f"model {model[(h, n)][c]!r}",
                                 more_possible_than_online=possible > online)
                            break
                    history.append(("percpu_read", n))
                check_all(f"after op {step} {history[-1:]}")
            world.count("c08/program-runs", runs)
        overruns = [{"rule": "buffer-overrun", "params": {"role": bv["role"], "cmd": bv["cmd"],
                                                          "map": bv["map"].split()[0].strip("<")},
                     "detail": f"{bv}"} for bv in monitor.violations[:1]]
        if want_c10:
            violations[:] = overruns
        elif overruns:
            world.count("other-property/C10-buffer-overrun")
        world.count("c10/judged", monitor.judged)
        world.count("c10/unjudged", monitor.unjudged)
    log.update(repr(history).encode())
    return {
        "violations": violations, "stats": dict(world.counters), "digest": log.hexdigest(),
        "sim_time": 0.0, "schedule": log.hexdigest(),
        "nontrivial": len(decls) >= 3 and any(h[0] == "run" for h in history),
        "sample": {"scenario": scenario, "possible_cpus": possible, "online": online,
                   "cpulist": cpulist,
                   "declarations": [(h, n, f, k) for h, n, f, k in decls],
                   "overridden": overridden, "statements": [
                       (k, d[:3], (s[:3] if k == "copy" else s)) for k, d, s in stmts],
                   "history": history[:20]},
    }
