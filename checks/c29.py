"""C29 Process-based sync groups share device variables correctly"""
import asyncio
import struct
import sys
from decimal import Decimal

from sim.bus import WireFaults
from sim.loop import SimStall
from sim.seams import Env

PROPERTY = "C29"
LEVEL = "exploration"
SCENARIOS = {"alternate": 1}
TIERS = {"quick": {"runs": 1600, "chunk": 5}, "thorough": {"runs": 50000000, "wall_s": 600, "chunk": 25, "recheck": 16}}
RULE = ("one run = 1-4 instances of 1-2 tape-generated device classes with device variables "
        "of drawn formats (B H I Q b h i q x ? and the multi-element 3B 3H 2H 3I 5b), in a ProcessSyncGroup whose start() spawns "
        "the child through the simulated 'spawn' context (the group really goes through "
        "pickle; shared arrays/values travel by identity); parent and child then alternate "
        "strictly through a command/acknowledge pair of device variables: the parent writes "
        "drawn values, the child's Device.update copies them into echo variables and writes "
        "its own values, the parent reads both; a further variable per format is written by "
        "both sides in turn from two-value pools, so that a value recurs after the other side "
        "overwrote it; 3-10 rounds; all variables' byte ranges must "
        "be disjoint; strict alternation, no race is part of the property; distinct = "
        "distinct (declarations, values) digests; non-trivial = at least 2 rounds completed")
RULE += '; since the 4th session device classes may compare equal by value and a refused out-of-range write follows a good one in 12 % of the writes'
RULE += "; also parent-only variables stored while the child updates (the child runs between the lines of the library's store) and a first attempt to make the group that finds no shared memory"
COMPONENTS = {
    "real": ["ebpfcat.ebpfcat.ProcessSyncGroup.start/subprocess_run/subprocess_loop/"
             "wait_for_process/get_array", "SimulatedEBPF.__init__, DeviceVar, "
             "ArrayMap.collect", "ParallelEtherCat.run in the child, SyncGroupBase.run",
             "pickle of the whole group object graph (CPython pickle)"],
    "stub": ["multiprocessing spawn context (SimContext: Array/Value/Process)", "process "
             "scheduler", "file system, bpf() kernel side, bus"]}
ASSUMPTIONS = ["spawn contract: everything travels by value through pickle except Array/"
               "Value, which are the same memory in both processes",
               "if the spawn stub cannot be made faithful this claim is withdrawn, not weakened"]

FMTS = ["B", "H", "I", "Q", "b", "h", "i", "q", "x", "?", "3B", "3H", "2H", "3I", "5b",
        "l", "L", "d", "f"]      # native long (8 bytes here), double, float
_MOD = sys.modules[__name__]


def gen_update(self):
    """Device.update of the generated devices; runs in the child process"""
    cmd = self.cmd
    if cmd == self.ack:
        return
    for k in range(self.nvars):
        setattr(self, f"echo{k}", getattr(self, f"pw{k}"))
        setattr(self, f"cw{k}", child_value(self.fmts[k], cmd, k, self.seed))
        # a variable both sides write in turn: report what the parent left there, then
        # overwrite it with one of two values (so that values recur across rounds)
        setattr(self, f"esh{k}", getattr(self, f"sh{k}"))
        setattr(self, f"sh{k}", child_shared(self.fmts[k], cmd, k, self.seed))
    self.ack = cmd


def child_value(fmt, cmd, k, seed):
    x = (cmd * 2654435761 + k * 40503 + seed * 97) & 0xffffffffffffffff
    return shape(fmt, x)


def child_shared(fmt, cmd, k, seed):
    return shape(fmt, ((cmd // 2 + k) % 2 * 0x5bd1e995 + seed * 131 + k * 7 + 3)
                 & 0xffffffffffffffff)


def parent_shared(fmt, choice, k, seed):
    return shape(fmt, (choice * 0x85ebca6b + seed * 257 + k * 11 + 1) & 0xffffffffffffffff)


def shape(fmt, x):
    if fmt[0].isdigit():
        # several elements: the variable is a tuple
        return tuple(shape(fmt[-1], (x >> (5 * i)) ^ (i * 0x9e3779b1)) for i in range(int(fmt[:-1])))
    if fmt == "?":
        return bool(x & 1)
    if fmt in "df":
        return float((x % 4000001) - 2000000) / 8     # exactly representable in both
    if fmt == "x":
        # multiples of 1/4: exactly representable, so the decimal->fixed conversion
        # (C02's subject: it truncates instead of rounding) cannot interfere
        return ((x % 8000001) - 4000000) / 4
    bits = 8 * struct.calcsize(fmt)
    v = x & ((1 << bits) - 1)
    if fmt.islower():
        v -= (v >> (bits - 1)) << bits
    return v


def same(fmt, a, b):
    if fmt == "x":
        return abs(Decimal(str(a)) - Decimal(str(b))) < Decimal("0.000011")
    return a == b


def _equal_by_value(self, other):
    return type(self) is type(other)


def _hash_by_value(self):
    return 29


def make_class(name, fmts, seed, base_fmts=None, by_value=False):
    """device class; with `base_fmts` it derives from a base class that declares the
    same variable names with those (other) formats, i.e. the subclass overrides them"""
    from ebpfcat.ebpfcat import Device, DeviceVar
    bases = (Device,)
    if base_fmts is not None:
        bns = {}
        for k, f in enumerate(base_fmts):
            if f is not None:
                bns[f"pw{k}"] = DeviceVar(f, write=True)
                bns[f"cw{k}"] = DeviceVar(f)
        base = type(name + "Base", (Device,), bns)
        base.__module__ = __name__
        base.__qualname__ = name + "Base"
        setattr(_MOD, name + "Base", base)
        bases = (base,)
    ns = {"nvars": len(fmts), "fmts": tuple(fmts), "seed": seed, "update": gen_update,
          "cmd": DeviceVar("I", write=True), "ack": DeviceVar("I")}
    if by_value:
        # a device class with value semantics: all its instances compare equal
        ns["__eq__"] = _equal_by_value
        ns["__hash__"] = _hash_by_value
    for k, f in enumerate(fmts):
        ns[f"pw{k}"] = DeviceVar(f, write=True)
        ns[f"echo{k}"] = DeviceVar(f)
        ns[f"cw{k}"] = DeviceVar(f)
        ns[f"sh{k}"] = DeviceVar(f, write=True)
        ns[f"esh{k}"] = DeviceVar(f)
        ns[f"late{k}"] = DeviceVar(f, write=True)      # written by the parent at any time
    cls = type(name, bases, ns)
    cls.__module__ = __name__
    cls.__qualname__ = name
    setattr(_MOD, name, cls)          # so that pickle finds it by reference
    return cls


def run(tape, scenario):
    import hashlib
    from ebpfcat.ebpfcat import ParallelEtherCat, ProcessSyncGroup

    env = Env(tape, with_kernel=True, with_fs=True,
              faults=WireFaults(delay_buckets=(50e-6, 20e-6, 150e-6)))
    world = env.world
    sched = env.use_scheduler(preempt_bound=tape.draw("sched/bound", 4),
                              preempt_den=[4, 8][tape.draw("sched/den", 2)])
    ncls = 1 + tape.draw("c29/ncls", 2)
    classes = []
    for c in range(ncls):
        fmts = [tape.pick("c29/fmt", FMTS) for _ in range(1 + tape.draw("c29/nvars", 4))]
        base_fmts = None
        if tape.chance("c29/inherit", 40):
            # a base class declaring some of the names with another (often narrower) format
            base_fmts = [tape.pick("c29/basefmt", ["B", "H", "I", "b", "h", "i"])
                         if tape.chance("c29/override-this", 60) else None for _ in fmts]
        by_value = tape.chance("c29/devices-equal-by-value", 20)
        if by_value:
            world.count("c29/device-class-with-value-equality")
        classes.append(make_class(f"GenDev{c}", fmts, tape.draw("c29/seed", 1000), base_fmts,
                                  by_value))
    ninst = 1 + tape.draw("c29/ninst", 4)
    which = [tape.draw("c29/cls", ncls) for _ in range(ninst)]
    rounds = 3 + tape.draw("c29/rounds", 8)
    violations = []
    done_rounds = [0]
    log = hashlib.sha256(repr([(c.fmts, c.seed) for c in classes] + which).encode())

    def viol(rule, detail, **params):
        if not violations:
            violations.append({"rule": rule, "params": params, "detail": detail})

    async def parent(loop):
        ec = ParallelEtherCat("sim0")
        try:
            async with ec.run():
                await inner(loop, ec)
        except Exception as e:
            viol("parent-failed", f"{type(e).__name__}: {e}", exception=type(e).__name__)

    async def inner(loop, ec):
        devices = [classes[w]() for w in which]
        if tape.chance("c29/devices-used-before", 30):
            # the same device objects were in another group before (with another device in
            # front of them, without the first of them): another layout that must not stick
            try:
                other = [classes[0]()] + devices[1:][::-1]
                ProcessSyncGroup(ec, other)
                world.count("c29/devices-laid-out-in-an-earlier-group")
            except Exception as e:
                viol("group-cannot-be-created", f"earlier group: {type(e).__name__}: {e}",
                     exception=type(e).__name__)
                return
        sg = None
        if tape.chance("fault/no-shared-memory-at-first", 15):
            # the first attempt to make the group finds no shared memory (too many open
            # files, /dev/shm full): it fails, the application tries again
            fired = []
            env.spawn_ctx.array_fault = lambda: (
                0 if fired else fired.append(1) or tape.pick("fault/shm-errno", [24, 28, 12]))
            try:
                sg = ProcessSyncGroup(ec, devices)
                world.count("c29/group-made-although-shared-memory-failed")
            except OSError:
                sg = None
                world.count("c29/group-creation-failed-without-shared-memory")
            env.spawn_ctx.array_fault = None
        try:
            if sg is None:
                sg = ProcessSyncGroup(ec, devices)
        except Exception as e:
            viol("group-cannot-be-created", f"{type(e).__name__}: {e}", exception=type(e).__name__)
            return
        # layout: all variables of all device instances occupy disjoint bytes
        try:
            ranges = []
            for di, d in enumerate(devices):
                for name in ["cmd", "ack"] + [f"{p}{k}" for k in range(d.nvars)
                                              for p in ("pw", "echo", "cw", "sh", "esh", "late")]:
                    fmt = type(d).__dict__[name].fmt
                    pos = d.__dict__[name]
                    ranges.append((pos, pos + (8 if fmt == "x" else struct.calcsize(fmt)),
                                   di, name))
            ranges.sort()
            for a, b in zip(ranges, ranges[1:]):
                if b[0] < a[1]:
                    viol("variables-share-storage", f"device {a[2]}.{a[3]} {a[0]}:{a[1]} and "
                         f"device {b[2]}.{b[3]} {b[0]}:{b[1]}")
        except KeyError as e:
            viol("variable-not-laid-out", f"device variable {e} has no position in the "
                 f"process group's shared array", exception="KeyError")
            return
        try:
            task = sg.start()
        except Exception as e:
            viol("group-start-failed", f"{type(e).__name__}: {e}", exception=type(e).__name__)
            return
        try:
            for r in range(1, rounds + 1):
                written = {}
                shared = {}
                for di, d in enumerate(devices):
                    for k, f in enumerate(d.fmts):
                        v = shape(f, tape.draw("c29/value", 1 << 30) * 2654435761
                                  + tape.draw("c29/value2", 1 << 30))
                        setattr(d, f"pw{k}", v)
                        written[(di, k)] = v
                        if f[-1] in "BHIQbhiq" and tape.chance("c29/refused-write", 12):
                            # a value the format cannot hold is refused: the variable
                            # keeps what was written before
                            bad = 1 << (8 * struct.calcsize(f[-1]) + 1)
                            bad = tuple(list(v[:-1]) + [bad]) if isinstance(v, tuple) else bad
                            try:
                                setattr(d, f"pw{k}", bad)
                                viol("out-of-range-write-accepted", f"device {di} var {k} "
                                     f"({f}) = {bad!r} was accepted", fmt=f)
                            except Exception:
                                world.count("c29/out-of-range-write-refused")
                        log.update(repr((di, k, v)).encode())
                        sv = parent_shared(f, tape.draw("c29/shared-choice", 2), k, d.seed)
                        setattr(d, f"sh{k}", sv)
                        shared[(di, k)] = sv
                for d in devices:
                    d.cmd = r
                t0 = loop.time()
                late = {}
                racing = tape.chance("c29/parent-writes-while-the-child-updates", 50)

                def write_late():
                    # the parent stores into variables of its own while the child is at
                    # work: the child gets to run between the lines of the library's store
                    import sys
                    from ebpfcat.arraymap import ArrayGlobalVarDesc
                    code = ArrayGlobalVarDesc.__set__.__code__

                    def between(frame, event, arg):
                        if event == "line":
                            sched.yield_point("mem/store", hot=True)
                        return between

                    def tracer(frame, event, arg):
                        return between if frame.f_code is code else None
                    for di, d in enumerate(devices):
                        for k, f in enumerate(d.fmts):
                            if f == "x" or not tape.chance("c29/late-write", 40):
                                continue
                            v = shape(f, tape.draw("c29/late-value", 1 << 30) * 40503 + 1)
                            sys.settrace(tracer)
                            try:
                                setattr(d, f"late{k}", v)
                            finally:
                                sys.settrace(None)
                            late[(di, k)] = v
                            world.count("c29/parent-write-while-the-child-may-update")
                while not all(d.ack == r for d in devices):
                    if racing:
                        write_late()
                    if task.done():
                        e = None if task.cancelled() else task.exception()
                        viol("child-ended-early", f"round {r}: wait_for_process ended: {e!r}",
                             exception=type(e).__name__ if e else "none")
                        return
                    if loop.time() - t0 > 2.0:
                        viol("child-does-not-answer", f"round {r}: no acknowledge within 2 s")
                        return
                    await asyncio.sleep(0.004)
                for di, d in enumerate(devices):
                    for k, f in enumerate(d.fmts):
                        echo = getattr(d, f"echo{k}")
                        if not same(f, echo, written[(di, k)]):
                            viol("child-read-differs",
                                 f"round {r} device {di} var {k} ({f}): parent wrote "
                                 f"{written[(di, k)]!r}, the child read {echo!r}", fmt=f)
                        cw = getattr(d, f"cw{k}")
                        want = child_value(f, r, k, d.seed)
                        if not same(f, cw, want):
                            viol("parent-read-differs",
                                 f"round {r} device {di} var {k} ({f}): child wrote {want!r}, "
                                 f"the parent reads {cw!r}", fmt=f)
                        esh = getattr(d, f"esh{k}")
                        if not same(f, esh, shared[(di, k)]):
                            viol("child-read-differs",
                                 f"round {r} device {di} shared var {k} ({f}): parent wrote "
                                 f"{shared[(di, k)]!r} (after the child's "
                                 f"{child_shared(f, r - 1, k, d.seed)!r}), the child read {esh!r}",
                                 fmt=f, shared=True)
                        sh = getattr(d, f"sh{k}")
                        want = child_shared(f, r, k, d.seed)
                        if not same(f, sh, want):
                            viol("parent-read-differs",
                                 f"round {r} device {di} shared var {k} ({f}): child wrote "
                                 f"{want!r} over the parent's {shared[(di, k)]!r}, the parent "
                                 f"reads {sh!r}", fmt=f, shared=True)
                        if (di, k) in late and not same(f, getattr(d, f"late{k}"), late[(di, k)]):
                            viol("own-write-changed", f"round {r} device {di} late var {k} ({f}): "
                                 f"{late[(di, k)]!r} became {getattr(d, f'late{k}')!r}", fmt=f)
                        back = getattr(d, f"pw{k}")
                        if not same(f, back, written[(di, k)]):
                            viol("own-write-changed", f"round {r} device {di} var {k} ({f}): "
                                 f"{written[(di, k)]!r} became {back!r}", fmt=f)
                done_rounds[0] = r
                if violations:
                    break
        finally:
            task.cancel()
            await asyncio.wait([task], timeout=1.0)

    aborted = None
    with env:
        try:
            sched.spawn("parent", parent)
            aborted = sched.run()
        except SimStall as e:
            viol("did-not-finish", str(e))
        for p in sched.procs:
            if p.exc is not None and type(p.exc).__name__ != "SimKilled":
                viol("process-died", f"{p.name}: {type(p.exc).__name__}: {p.exc}",
                     exception=type(p.exc).__name__, who=p.name.split("-")[0])
    if aborted:
        viol("did-not-finish", aborted)
    for c in classes:
        for nm in (c.__name__, c.__name__ + "Base"):
            if hasattr(_MOD, nm):
                delattr(_MOD, nm)
    return {
        "violations": violations, "stats": dict(world.counters), "digest": log.hexdigest(),
        "sim_time": world.now, "schedule": log.hexdigest(), "nontrivial": done_rounds[0] >= 2,
        "sample": {"classes": [list(c.fmts) for c in classes], "instances": which,
                   "rounds_done": done_rounds[0], "rounds": rounds},
    }
