"""Workload pieces shared by the sync-group checks (C18, C19, C21, C24, C30):
tape-generated terminal sets, PacketVar links and recording devices."""
import struct

from sim.pdfix import IN_OFF, OUT_OFF, PDTerminal, ebpf_terminal, install_cycle_hook

FMTS = ["B", "H", "I", "Q", "b", "h", "i", "q"]


def gen_specs(tape, label="grp", max_terms=5, max_sz=12, allow_direct=True, allow_aero=False):
    """allow_aero: some terminals use the Aerotech-style allocator (AerotechBase): inputs
    through the FMMU over `decl_in` bytes plus a one-byte FPRD, outputs through an FPWR of
    `decl_out` bytes plus - if that is less than the sync manager - a one-byte FPWR"""
    n = 1 + tape.draw(f"{label}/nterm", max_terms)
    specs = []
    for k in range(n):
        in_sz = tape.draw(f"{label}/in_sz", max_sz + 1)
        out_sz = tape.draw(f"{label}/out_sz", max_sz + 1)
        if in_sz == 0 and out_sz == 0:
            in_sz = 1 + tape.draw(f"{label}/in_sz2", max_sz)
        sp = dict(in_sz=in_sz, out_sz=out_sz, n_fmmu=2 + tape.draw(f"{label}/nfmmu", 3),
                  use_fmmu=not (allow_direct and tape.chance(f"{label}/direct", 30)))
        if allow_aero and tape.chance(f"{label}/aerotech", 25):
            sp["aero"] = True
            sp["use_fmmu"] = True
            sp["decl_in"] = max(1, in_sz - tape.draw(f"{label}/aero-in-less", 3)) if in_sz else 0
            sp["decl_out"] = max(1, out_sz - tape.draw(f"{label}/aero-out-less", 3)) if out_sz else 0
        specs.append(sp)
    return specs


def out_via_fmmu(sp):
    """are the terminal's outputs transported by the group's LWR datagram?"""
    return sp["use_fmmu"] and not sp.get("aero")


def link_size(sp, sm):
    """number of bytes of the terminal's area a process variable may lie in"""
    if sp.get("aero"):
        return sp["decl_in"] if sm == "in" else sp["decl_out"]
    return sp[f"{sm}_sz"]


def build(env, ec, specs):
    sims, terms = [], []
    for k, sp in enumerate(specs):
        st = PDTerminal(env.bus, f"T{k}", 1001 + k, sp["in_sz"], sp["out_sz"],
                        n_fmmu=sp["n_fmmu"])
        st.index = k
        st.refresh_inputs()
        env.bus.add_terminal(st)
        sims.append(st)
        cls = None
        if sp.get("aero"):
            from ebpfcat.terminals import AerotechBase
            cls = type("Aero", (AerotechBase,), dict(in_size=sp["decl_in"],
                                                     out_size=sp["decl_out"]))
        terms.append(ebpf_terminal(ec, st, sp["use_fmmu"], cls))
    install_cycle_hook(env.bus)
    return sims, terms


def gen_links(tape, specs, label="grp", max_vars=4):
    """-> list of dict(term, sm ('in'/'out'), pos, size (fmt str or bit int));
    output variables never overlap each other (inputs may)"""
    links = []
    for k, sp in enumerate(specs):
        for sm, sz in (("in", link_size(sp, "in")), ("out", link_size(sp, "out"))):
            if not sz:
                continue
            taken_bytes, bit_bytes, taken_bits = set(), set(), set()
            for _ in range(tape.draw(f"{label}/nvars", max_vars + 1)):
                if tape.chance(f"{label}/bitvar", 30):
                    pos = tape.draw(f"{label}/pos", sz)
                    bit = tape.draw(f"{label}/bit", 8)
                    if (pos, bit) in taken_bits or (sm == "out" and pos in taken_bytes):
                        continue
                    taken_bits.add((pos, bit))
                    bit_bytes.add(pos)
                    links.append(dict(term=k, sm=sm, pos=pos, size=bit))
                else:
                    fmt = tape.pick(f"{label}/fmt", FMTS)
                    w = struct.calcsize(fmt)
                    if w > sz:
                        continue
                    pos = tape.draw(f"{label}/pos", sz - w + 1)
                    span = set(range(pos, pos + w))
                    if sm == "out" and span & (taken_bytes | bit_bytes):
                        continue
                    taken_bytes |= span
                    links.append(dict(term=k, sm=sm, pos=pos, size=fmt))
    return links


def expected_value(link, area):
    """independent decoding of a linked variable from the terminal's area bytes"""
    if isinstance(link["size"], int):
        return bool(area[link["pos"]] & (1 << link["size"]))
    return struct.unpack_from("<" + link["size"], area, link["pos"])[0]


def apply_output(link, area, value):
    """independent encoding of an output variable into the model of the area"""
    if isinstance(link["size"], int):
        if value:
            area[link["pos"]] |= 1 << link["size"]
        else:
            area[link["pos"]] &= ~(1 << link["size"]) & 0xff
    else:
        struct.pack_into("<" + link["size"], area, link["pos"], value)


def draw_value(tape, link, label="grp", truthy=False):
    """a value for the linked variable; a quarter of the multi-byte values sit at the
    boundaries of the 8/16/32/64-bit ranges. truthy: a bit may also be set with a true
    value other than 1 (what an integer DeviceVar holds)"""
    if isinstance(link["size"], int):
        if truthy and tape.chance(f"{label}/bit-truthy", 25):
            return tape.pick(f"{label}/bit-truthy-value", [2, 4, 6, 0x80, 255])
        return bool(tape.draw(f"{label}/bitval", 2))
    fmt = link["size"]
    bits = 8 * struct.calcsize(fmt)
    lo, hi = (-(1 << (bits - 1)), (1 << (bits - 1)) - 1) if fmt.islower() else (0, (1 << bits) - 1)
    if tape.chance(f"{label}/boundary-value", 25):
        cands = [x for x in (0, 1, -1, 127, 128, 255, 256, 0x7fff, 0x8000, 0xffff, 0x10000,
                             0x7fffffff, 0x80000000, 0xffffffff, 0x100000000, -0x80000000,
                             -0x80000001, lo, hi, hi - 1, lo + 1) if lo <= x <= hi]
        return tape.pick(f"{label}/boundary", cands)
    v = tape.draw(f"{label}/val", 1 << min(bits, 32))
    if bits > 32:
        v |= tape.draw(f"{label}/valhi", 1 << (bits - 32)) << 32
    if fmt.islower():
        v -= 1 << (bits - 1)
    return v


def region_of(frame_payload_dgrams, payload, st, sm):
    """locate terminal `st`'s input or output bytes inside a parsed frame by
    emulating the addressing independently: direct FPRD/FPWR by station and
    offset, logical datagrams through the terminal's active FMMU registers.
    Returns (start, stop) positions in the payload or None."""
    from sim.bus import FPRD, FPWR, LRD, LRW, LWR
    phys0, size = (IN_OFF, st.in_sz) if sm == "in" else (OUT_OFF, st.out_sz)
    for d in frame_payload_dgrams:
        if d.cmd in (FPRD, FPWR) and d.adp == st.station and d.ado == phys0 \
                and d.length >= size:
            if (sm == "in") == (d.cmd == FPRD):
                return d.data_pos, d.data_pos + size
        if d.cmd in (LRD, LWR, LRW):
            for i, lstart, length, lsb, lstop, pstart, psb, typ in st.fmmus():
                if pstart != phys0:
                    continue
                if (sm == "in" and not typ & 1) or (sm == "out" and not typ & 2):
                    continue
                if (sm == "in" and d.cmd == LWR) or (sm == "out" and d.cmd == LRD):
                    continue
                if d.addr <= lstart and lstart + length <= d.addr + d.length:
                    a = d.data_pos + (lstart - d.addr)
                    return a, a + length
    return None
