"""C25 Terminal addresses assigned by the master are unique"""
import asyncio
import struct

from sim import sii
from sim.bus import SimTerminal, WireFaults
from sim.loop import SimStall
from sim.seams import Env

PROPERTY = "C25"
LEVEL = "exploration"
SCENARIOS = {"parallel": 1, "init": 2, "scan": 1, "mixed": 2}
TIERS = {"quick": {"runs": 8000, "chunk": 25}, "thorough": {"runs": 50000000, "wall_s": 600, "chunk": 100, "recheck": 16}}
RULE = ("one run = a simulated bus of 2-12 terminals, some with pre-assigned station "
        "addresses inside/outside a narrowed terminal_addr_range, the master's random "
        "address choices biased towards already used and pre-assigned values; "
        "Terminal.initialize(relative=...) of several terminals concurrently and/or "
        "scan_serial_numbers, with wire jitter; oracle at the terminals' station-address "
        "registers; distinct = distinct event-log digests; non-trivial = the master wrote "
        "at least two station addresses")
RULE += '; since the 4th session also station aliases in register 0x12, one Terminal object initialised for several positions, and a power cycle followed by a new master object with the kept Terminal objects'
RULE += '; also a range used up but for three addresses followed by two initialisations at once with 90-99 % colliding draws; a run that ends with an AssertionError of the library about an address is rule assigned-address-refused'
COMPONENTS = {
    "real": ["ebpfcat.ethercat.EtherCat.find_free_address/assigned_address/"
             "scan_serial_numbers/eeprom_read/count", "Terminal.initialize/read_eeprom",
             "roundtrip/sendloop/process_packet"],
    "stub": ["event loop", "socket", "wire (jitter)", "ESC registers incl. EEPROM interface"]}
ASSUMPTIONS = ["the address range always has at least three times as many values as "
               "terminals (an exhausted range makes find_free_address spin, which the "
               "property does not speak about)", "no frame loss (no retry in this code)"]


def run(tape, scenario):
    from ebpfcat.ethercat import EtherCat, Terminal

    # 'parallel': the master is a ParallelEtherCat inside its run() (real dispatcher, shared
    # lock files); the mailbox lock file may be a left-over of a master with another range
    parallel = scenario == "parallel"
    if parallel:
        scenario = tape.pick("c25/parallel-workload", ["init", "mixed", "scan"])
    env = Env(tape, faults=WireFaults(delay_buckets=(50e-6, 20e-6, 120e-6, 500e-6)),
              with_kernel=parallel, with_fs=parallel)
    world = env.world
    n = 2 + tape.draw("c25/nterm", 11)
    lo = 1000
    size = 3 * n + 4 + tape.draw("c25/range-extra", 8)
    # station addresses are 16 bit unsigned; the datagram header carries them in a signed
    # field, so a configured range that reaches 0x8000 is its own case (today a request for
    # such an address fails while the frame is assembled: nothing may be handed out wrongly)
    high_range = tape.chance("c25/range-reaches-0x8000", 8)
    if high_range:
        lo = 0x8000 - tape.draw("c25/range-below-0x8000", size)
    hi = lo + size - 1
    writes = []         # (terminal index, value, set of addresses held so far by anyone)
    held_ever = set()
    terms = []

    answered_probes = set()
    epoch = [0]          # counts the power cycles of the bus

    class AddrTerminal(SimTerminal):
        def write(self, ado, data):
            if ado == 0x10 and len(data) >= 2:
                v, = struct.unpack_from("<H", data, 0)
                holders = [t.index for t in terms if t.station == v and t is not self]
                writes.append((self.index, v, holders, v in answered_probes, epoch[0]))
                held_ever.add(v)
            return super().write(ado, data)

        def process(self, d, data):
            if d.cmd == 4 and d.ado == 0x10 and d.adp == self.station and d.adp:
                answered_probes.add(d.adp)      # FPRD probe of the station register
            return super().process(d, data)

    pre_in = set()
    for k in range(n):
        kind = tape.draw("c25/preassigned", 6)     # 0-2: none
        if kind == 3:
            st = lo + tape.draw("c25/pre-in", size)
            while st in pre_in:
                st = lo + (st - lo + 1) % size
            if len(pre_in) >= size // 4:
                st = 0
            else:
                pre_in.add(st)
        elif kind == 4:
            st = [50, 900, hi + 100, 40000][tape.draw("c25/pre-out", 4)] + k
        else:
            st = 0
        t = AddrTerminal(env.bus, f"T{k}", station=st,
                         eeprom=sii.build(serial=100 + k if tape.chance("c25/serial", 80) else 0),
                         eeprom_8byte=not tape.chance("c25/ee4", 30))
        t.index = k
        t.ee_delay = lambda: tape.draw("c25/ee-busy", 3)
        # the configured station alias (register 0x12, loaded from the EEPROM): mostly
        # none, else any number - also one outside the range or one another terminal has
        if tape.chance("c25/station-alias", 35):
            alias = tape.pick("c25/alias", [lo + 1, lo + size // 2, hi, 7, hi + 50, 0xfffe]
                              + sorted(pre_in)[:3])
            struct.pack_into("<H", t.mem, 0x12, alias)
            world.count("c25/terminal-with-station-alias")
        env.bus.add_terminal(t)
        terms.append(t)
        if st:
            held_ever.add(st)
    preassigned = [t.station for t in terms]

    # bias the master's address draws towards collisions: with addresses some terminal
    # holds or held, and with addresses drawn before (reserved, maybe not yet written)
    drawn = []
    collide_rate = [40]

    def collide(a, b):
        if (a, b) != (lo, hi):
            return None
        pool = sorted({x for x in held_ever if a <= x <= b} | set(drawn))
        if pool and tape.chance("c25/collide", collide_rate[0]):
            return tape.pick("c25/collide-which", pool)
        v = a + tape.draw("c25/address", b - a + 1)
        drawn.append(v)
        return v
    env.collide["rand/ethercat"] = collide
    # in some runs a send now and then fails with ENOBUFS (the caller gets OSError; whatever
    # fails, no address may be handed out wrongly)
    truncation = tape.chance("cfg/truncated-frames", 15)
    send_faults = tape.chance("cfg/sendto-fails", 20) or truncation
    connected = [False]
    if send_faults and not truncation:
        env.bus.send_fault = lambda: connected[0] and tape.chance("fault/sendto-enobufs", 4)

    if parallel:
        from ebpfcat.ebpfcat import ParallelEtherCat
        ec = ParallelEtherCat("sim0")
    else:
        ec = EtherCat("sim0")
    ec.terminal_addr_range = (lo, hi)
    results = {}

    late = scenario == "mixed" and tape.chance("c25/late-inits", 50)

    async def main(loop):
        if parallel:
            if tape.chance("c25/leftover-lock-file", 60):
                # what a master with the default range (or one that crashed) left behind
                from ebpfcat.lock import LockFile
                LockFile("/run/ebpf/sim0", 1000, 30000).close()
                world.count("c25/leftover-lock-file-of-another-range")
            async with ec.run():
                await body()
        else:
            await ec.connect()
            await body()

    async def body():
        connected[0] = True
        if truncation:
            # ... or a response comes back cut short now and then (the callers of that
            # frame get the decoding error)
            env.bus.faults.truncate = 4
        jobs = []
        objects = {}
        if scenario in ("init", "mixed"):
            which = [k for k in range(n) if scenario == "init" or tape.chance("c25/init-this", 60)]
            if which and not late and tape.chance("c25/one-object-for-all", 20):
                # a scanning loop that uses one Terminal object for one position after
                # the other
                world.count("c25/one-terminal-object-initialised-for-several-positions")

                async def one_by_one():
                    t = Terminal(ec)
                    for k in which:
                        t.name = f"T{k}"
                        await t.initialize(relative=-k)
                        results[k] = t.position
                jobs.append(one_by_one())
            else:
                async def init_kept(k):
                    t = objects[k] = Terminal(ec)
                    t.name = f"T{k}"
                    await asyncio.sleep([0, 0, 40e-6, 300e-6][tape.draw("c25/stagger", 4)])
                    if late:
                        await asyncio.sleep(tape.draw("c25/late-start", 120) * 100e-6)
                    await t.initialize(relative=-k)
                    results[k] = t.position
                jobs += [init_kept(k) for k in which]
        if scenario in ("scan", "mixed"):
            async def scan():
                await asyncio.sleep([0, 100e-6, 1e-3][tape.draw("c25/scan-delay", 3)])
                results["scan"] = await ec.scan_serial_numbers()
            jobs.append(scan())
        # (with send faults single jobs fail with OSError: the others go on)
        await asyncio.wait_for(asyncio.gather(*jobs, return_exceptions=send_faults), 20)
        if len(objects) >= 2 and not parallel and not send_faults and not high_range \
                and tape.chance("c25/range-nearly-used-up", 15):
            # a long-lived master: its terminals are initialised again and again (each time
            # a new address; the old ones stay reserved) until the range is used up but
            # for a few addresses; then two of them are initialised at once, with draws
            # that keep hitting reserved addresses
            ks = sorted(objects)
            for _ in range(200):
                if size - len(ec.used_addresses) <= 3:
                    break
                k = tape.pick("c25/again-which", ks)
                await asyncio.wait_for(objects[k].initialize(relative=-k), 5)
            if size - len(ec.used_addresses) <= 3:
                world.count("c25/two-initialisations-with-the-range-nearly-used-up")
                collide_rate[0] = tape.pick("c25/collide-rate-when-full", [90, 97, 99])
                two = tape.shuffle("c25/last-two", ks)[:2]
                await asyncio.wait_for(asyncio.gather(
                    *[objects[k].initialize(relative=-k) for k in two]), 20)
                collide_rate[0] = 40
        if objects and not parallel and not send_faults and tape.chance("c25/power-cycle", 20):
            # the bus is power-cycled (all station addresses are gone), the program
            # connects again with a new master object and initialises the Terminal
            # objects it has kept
            world.count("c25/power-cycle-and-new-master-object")
            for st in terms:
                struct.pack_into("<H", st.mem, 0x10, 0)
            epoch[0] += 1
            answered_probes.clear()
            held_ever.clear()
            del drawn[:]
            ec2 = EtherCat("sim0")
            ec2.terminal_addr_range = (lo, hi)
            await ec2.connect()

            async def again(k, t):
                t.ec = ec2
                await asyncio.sleep([0, 0, 40e-6, 300e-6][tape.draw("c25/stagger", 4)])
                await t.initialize(relative=-k)
            await asyncio.wait_for(asyncio.gather(*[again(k, t) for k, t in objects.items()]), 20)

    violations = []
    failure = None
    refused = []
    with env:
        try:
            env.run(main)
        except asyncio.TimeoutError:
            failure = "timeout"
        except (SimStall, BaseExceptionGroup, Exception) as e:
            failure = f"{type(e).__name__}: {e}"
            if isinstance(e, AssertionError) or (
                    isinstance(e, BaseExceptionGroup) and e.subgroup(AssertionError) is not None):
                refused.append(failure)
        if env.stall is not None and env.stall.fired and failure is None:
            failure = f"stall in {env.stall.fired}"
        loop_exc = env.loop_exceptions()

    def viol(rule, detail, **params):
        violations.append({"rule": rule, "params": params, "detail": detail})

    if refused:
        # an assertion of the library about an address: the master drew an address inside
        # the configured range and then refused to work with it
        viol("assigned-address-refused",
             f"range ({lo},{hi}); writes so far {[(k, v) for k, v, *_ in writes][-4:]}: "
             f"{refused[0][:200]}", parallel=parallel)
    elif failure is not None:
        # e.g. scan_serial_numbers and initialize racing on the same terminal, or the
        # (probability-zero) constant-PRNG spin: nothing the property speaks about
        world.count("c25/run-ended-with-" + failure.split(":")[0])
    seen_values = {}
    seen_epoch = 0
    for k, v, holders, probe_answered, ep in writes:
        if ep != seen_epoch:
            seen_values, seen_epoch = {}, ep
        if not lo <= v <= hi:
            viol("address-out-of-range", f"terminal {k} was given {v}, range ({lo},{hi})")
        if v in seen_values:
            viol("address-handed-out-twice",
                 f"{v} written to terminal {seen_values[v]} and again to terminal {k}")
        if holders:
            viol("address-in-use-at-write",
                 f"terminal {k} was given {v} while terminal(s) {holders} answered at it "
                 f"(pre-assigned: {preassigned})")
        elif probe_answered:
            viol("address-handed-out-after-answered-probe",
                 f"terminal {k} was given {v} although a terminal answered the probe at {v}")
        seen_values.setdefault(v, k)
    written = {k for k, *_ in writes if _[-1] == epoch[0]}
    for k in sorted(written):
        others = [t.index for t in terms if t.index != k and t.station == terms[k].station]
        if others and not violations:
            viol("final-addresses-collide",
                 f"terminal {k} ends at {terms[k].station}, so do terminals {others}")
    for m, tn, txt in loop_exc:
        if send_faults and tn in ("OSError", "error"):
            continue        # process_packet passes the failed send/decoding on to its callers
        if high_range and tn == "error":
            world.count("c25/master-cannot-encode-address-above-0x7fff")
            continue
        viol("library-task-died", f"{m}: {tn}: {txt}", exception=tn)
        break
    world.count("c25/address-writes", len(writes))
    return {
        "violations": violations[:1], "stats": dict(world.counters),
        "digest": world.digest.hexdigest(), "sim_time": world.now,
        "schedule": world.digest.hexdigest(), "nontrivial": len(writes) >= 2,
        "sample": {"terminals": n, "range": [lo, hi], "preassigned": preassigned,
                   "writes": [(k, v) for k, v, *_ in writes][:12],
                   "final": [t.station for t in terms]},
    }
