"""C19 Process variables access their own bits and bytes on both paths"""
import struct

from sim.bus import NOP, parse_ecat
from sim.seams import Env

from . import wl_groups as wl
from .c21 import build_devices

PROPERTY = "C19"
LEVEL = "exploration"
SCENARIOS = {"two-paths": 1}
TIERS = {"quick": {"runs": 8000, "chunk": 15}, "thorough": {"runs": 50000000, "wall_s": 600, "chunk": 80, "recheck": 16}}
RULE = ("one run = a tape-generated terminal set (1-4 terminals, FMMU/direct) with bit and "
        "byte variables of all formats linked into 1-3 generated devices, instantiated once "
        "in a slow SyncGroup (Python path: Device.update on current_data) and once in a "
        "FastSyncGroup (program path: the real generated group program executed by the eBPF "
        "interpreter, entered as the dispatcher's tail call would); 2-5 frames with drawn "
        "contents and drawn DeviceVar values are put through both paths (the slow group's "
        "frame buffer is updated in place or replaced by a fresh one, as a restart of the "
        "group does); outputs may be written twice and inputs read twice in a program; in half "
        "of the runs another terminal of the same class with a different PDO map is looked at "
        "first; a comparison of "
        "two paths on the same data, no schedule matters; distinct = distinct (layout, "
        "links, frame contents) digests; non-trivial = at least two linked variables")
RULE += '; since the 4th session bits are given any truthy value and Struct channels are declared with one, two or three offsets'
RULE += '; also device objects that were part of another fast group (one more terminal in front) before'
COMPONENTS = {
    "real": ["ebpfcat.ebpfcat.PacketVar.get/set/_start/fmt_addr", "TerminalVar, DeviceVar",
             "SyncGroupBase.allocate", "FastSyncGroup.program, SterilePacket.activate",
             "code generator (bit fields, all integer formats)"],
    "stub": ["bpf() kernel side + eBPF interpreter (no verifier)"]}
ASSUMPTIONS = ["region bases come from pdo_assign, which C18 checks end-to-end; this check is "
               "about the variable's own bytes/bit inside the region"]


def run(tape, scenario):
    import hashlib
    from ebpfcat.ebpfcat import FastEtherCat, FastSyncGroup, SyncGroup
    from ebpfcat.ethercat import EtherCat, SyncManager
    from sim.pdfix import PDTerminal, ebpf_terminal

    env = Env(tape, with_kernel=True)
    world = env.world
    specs = wl.gen_specs(tape, "c19", max_terms=4, max_sz=12)
    links = wl.gen_links(tape, specs, "c19", max_vars=4)
    if not links:
        links = [dict(term=0, sm="in" if specs[0]["in_sz"] else "out", pos=0, size="B")]
    violations = []
    log = hashlib.sha256()

    def viol(rule, detail, **params):
        if not violations:
            violations.append({"rule": rule, "params": params, "detail": detail})

    with env:
        sims = []
        for k, sp in enumerate(specs):
            st = PDTerminal(env.bus, f"T{k}", 1001 + k, sp["in_sz"], sp["out_sz"],
                            n_fmmu=sp["n_fmmu"])
            env.bus.add_terminal(st)
            sims.append(st)
        ec_s, ec_f = EtherCat("sim0"), FastEtherCat("sim0")
        # how each linked variable is declared: directly, or through the terminal-side
        # descriptors (ProcessDesc from the PDO map with/without size override, PacketDesc,
        # Struct channels with offsets)
        from ebpfcat.ebpfcat import (EBPFTerminal, PacketDesc, PacketVar, ProcessDesc, Struct)
        SMS = {"in": SyncManager.IN, "out": SyncManager.OUT}
        attrs = [dict() for _ in specs]
        pdos = [dict() for _ in specs]
        for n, ln in enumerate(links):
            k, sm, pos, size = ln["term"], SMS[ln["sm"]], ln["pos"], ln["size"]
            how = tape.draw("c19/declared-as", 6)
            ln["how"] = ["direct", "process", "process-override", "packet", "struct-packet",
                         "struct-process"][how]
            idx, sub = 0x6000 + 0x10 * n, 1 + (n % 5)
            if how == 1:
                attrs[k][f"v{n}"] = ProcessDesc(idx, sub)
                pdos[k][(idx, sub)] = (sm, pos, size)
            elif how == 2:
                # the PDO map says something else, the explicit size (a format, or a bit
                # number 0..7) must win
                other = "B" if isinstance(size, int) or size != "B" else 3
                if isinstance(size, int):
                    other = tape.pick("c19/mapped-as", ["B", (size + 1) % 8, (size + 5) % 8])
                attrs[k][f"v{n}"] = ProcessDesc(idx, sub, size)
                pdos[k][(idx, sub)] = (sm, pos, other)
            elif how == 3:
                attrs[k][f"v{n}"] = PacketDesc(sm, pos, size)
            elif how in (4, 5):
                off = tape.draw("c19/struct-offset", pos + 1)
                coe = 0x100 * (1 + tape.draw("c19/coe-offset", 3))
                # a channel is declared with one offset (for everything), two (inputs,
                # outputs; the object index moves with the inputs) or all three
                arity = tape.pick("c19/struct-arity", [3, 3, 2, 1])
                other = 0 if arity == 3 else 0x10 * (1 + tape.draw("c19/other-offset", 4))
                in_off = off if ln["sm"] == "in" else other
                out_off = off if ln["sm"] == "out" else other
                if arity == 1:
                    in_off = out_off = off
                coe_eff = coe if arity == 3 else in_off
                body = {"x": PacketDesc(sm, pos - off, size)} if how == 4 else \
                    {"x": ProcessDesc(idx - coe_eff, sub)}
                if how == 5:
                    pdos[k][(idx, sub)] = (sm, pos, size)
                    if arity == 2:
                        # (the object the outputs' offset would lead to exists as well)
                        pdos[k].setdefault((idx - in_off + out_off, sub),
                                           (sm, max(0, pos - 1), size))
                Ch = type(f"Ch{n}", (Struct,), body)
                attrs[k][f"ch{n}"] = Ch(*[in_off, out_off, coe][:arity])
                world.count(f"c19/struct-declared-with-{arity}-offsets")
        tclasses = [type(f"GenTerm{k}", (EBPFTerminal,), attrs[k]) for k in range(len(specs))]
        terms_s = [ebpf_terminal(ec_s, st, sp["use_fmmu"], tclasses[k])
                   for k, (st, sp) in enumerate(zip(sims, specs))]
        terms_f = [ebpf_terminal(ec_f, st, sp["use_fmmu"], tclasses[k])
                   for k, (st, sp) in enumerate(zip(sims, specs))]
        for k in range(len(specs)):
            terms_s[k].pdos = dict(pdos[k])
            terms_f[k].pdos = dict(pdos[k])
        index_of = {id(ln): n for n, ln in enumerate(links)}
        if tape.chance("c19/same-class-other-layout", 50):
            # another terminal of the same class whose PDO map puts the same objects
            # elsewhere (other firmware, other configured PDO assignment), looked at first:
            # nothing of its layout may stick to the class
            for k in range(len(specs)):
                decoy = ebpf_terminal(ec_s, sims[k], specs[k]["use_fmmu"], tclasses[k])
                decoy.pdos = {key: (SMS["out"] if sm == SMS["in"] else SMS["in"], pos + 3,
                                    "B" if size != "B" else 6)
                              for key, (sm, pos, size) in pdos[k].items()}
                for n, ln in enumerate(links):
                    if ln["term"] != k:
                        continue
                    try:
                        if ln["how"] in ("process", "process-override"):
                            getattr(decoy, f"v{n}")
                        elif ln["how"] == "struct-process":
                            getattr(decoy, f"ch{n}").x
                    except Exception as e:
                        viol("variable-cannot-be-created", f"decoy terminal {k} link {n}: "
                             f"{type(e).__name__}: {e}", exception=type(e).__name__)
            world.count("c19/decoy-terminal-of-the-same-class")

        def factory(terms):
            def mk(ln, sm):
                n = index_of[id(ln)]
                t = terms[ln["term"]]
                if ln["how"] == "direct":
                    return PacketVar(t, sm, ln["pos"], ln["size"])
                if ln["how"].startswith("struct"):
                    return getattr(t, f"ch{n}").x
                return getattr(t, f"v{n}")
            return mk

        # identical device layout on both paths: replay the same draws
        mark = len(tape.values)
        devs_s = build_devices(tape, terms_s, links, "c19", variants=True, var_factory=factory(terms_s))
        consumed = tape.values[mark:]
        sub = type(tape)(replay=consumed)
        devs_f = build_devices(sub, terms_f, links, "c19", variants=True, var_factory=factory(terms_f))

        if tape.chance("c19/devices-in-another-fast-group-before", 30):
            # the same device objects were part of another fast group before, whose frame
            # had one more terminal in front of theirs (another layout): its program was
            # generated, then the group was given up
            try:
                from sim.pdfix import PDTerminal
                from .c21 import make_fast_device
                st0 = PDTerminal(env.bus, "Tfront", 900, 3 + tape.draw("c19/front-size", 9), 0,
                                 n_fmmu=2)
                env.bus.add_terminal(st0)
                t0 = ebpf_terminal(ec_f, st0, True)
                front = make_fast_device([dict(term=0, sm="in", pos=0, size="B")], [])()
                front.ins, front.outs, front.consts = [], [], []
                front.i0 = PacketVar(t0, SyncManager.IN, 0, "B")
                pre = FastSyncGroup(ec_f, [front] + devs_f)
                pre.allocate()
                pre.packet_index = 6
                pre.load()
                ec_s.get_fmmu_addr()      # (the slow master has handed out a window as well)
                world.count("c19/devices-were-in-another-fast-group-before")
            except Exception as e:
                viol("fast-group-cannot-be-generated", f"earlier group: {type(e).__name__}: {e}",
                     exception=type(e).__name__)
        sg_s = SyncGroup(ec_s, devs_s)
        sg_s.allocate()
        payload0 = sg_s.packet.assemble(1000, 0x88A4)
        sg_s.current_data = bytearray(payload0)

        try:
            sg_f = FastSyncGroup(ec_f, devs_f)
            sg_f.allocate()
            sg_f.packet_index = 5
            sg_f.load()
        except Exception as e:
            viol("fast-group-cannot-be-generated", f"{type(e).__name__}: {e}",
                 exception=type(e).__name__)
            sg_f = None
        if sg_f is not None:
            prog = env.kernel.obj(sg_f.file_descriptor)
            same_layout = all(
                sg_s.pdo_assign[ts] == sg_f.pdo_assign[tf] for ts, tf in zip(terms_s, terms_f)
                if ts in sg_s.pdo_assign)
            if not same_layout or sg_f.packet.assemble(1000, 0x88A4) != payload0:
                viol("layout-differs-between-paths", "slow and fast group laid out differently")
            _, _, dgrams = parse_ecat(payload0)
            writer_bytes = set()
            for d in dgrams:
                if d.cmd in (2, 3, 5, 6, 8, 9, 11, 12, 13, 14):
                    writer_bytes |= {d.hdr_pos, d.wkc_pos, d.wkc_pos + 1}
            for cyc in range(2 + tape.draw("c19/frames", 4)):
                if violations:
                    break
                # a frame with arbitrary contents in every datagram's data area
                frame = bytearray(payload0)
                for d in dgrams[1:]:
                    frame[d.data_pos:d.wkc_pos] = tape.bytes("c19/content", d.length)
                log.update(bytes(frame))
                # drawn DeviceVar values for the outputs, the same on both paths
                for ds, df in zip(devs_s, devs_f):
                    for j, ln in enumerate(ds.outs):
                        # (a bit is given any truthy value, not only 1)
                        v = wl.draw_value(tape, ln, "c19") if not isinstance(ln["size"], int) \
                            else tape.pick("c19/bit", [0, 1, 1, 0, 2, 5, 0x80, 0x100])
                        setattr(ds, f"vo{j}", v)
                        setattr(df, f"vo{j}", v)
                        ln["value"] = v if ds.consts[j] is None else ds.consts[j]
                # ---- Python path
                if tape.chance("c19/fresh-buffer", 35):
                    # what SyncGroup.start() does when a stopped group is started again
                    sg_s.current_data = bytearray(frame)
                    world.count("c19/buffer-replaced-as-by-restart")
                else:
                    sg_s.current_data[:] = frame
                try:
                    for d in devs_s:
                        d.update()
                except Exception as e:
                    viol("python-path-raised", f"Device.update: {type(e).__name__}: {e}",
                         exception=type(e).__name__)
                    break
                after_s = bytes(sg_s.current_data)
                # ---- program path
                sg_f.wkc_errors = 1
                pkt = bytearray(b"\xff" * 6 + b"\x02\0\0\0\0\x01\x88\xa4" + bytes(frame))
                for d in dgrams:                      # user space sends it sterile
                    if d.hdr_pos + 14 in {w + 14 for w in writer_bytes}:
                        pass
                try:
                    action, inst = env.kernel.run_xdp(prog, pkt)
                except Exception as e:
                    viol("program-path-fault", f"{type(e).__name__}: {e}",
                         exception=type(e).__name__)
                    break
                after_f = bytes(pkt[14:])
                if action != 3:
                    viol("group-program-did-not-tx", f"action {action}")
                # ---- oracles
                for ds, df in zip(devs_s, devs_f):
                    for i, ln in enumerate(ds.ins):
                        a = sg_s.pdo_assign[terms_s[ln["term"]]].get(SyncManager.IN)
                        if a is None:
                            viol("no-region-for-variable", f"{ln}: the group reserved no "
                                 f"input region for its terminal")
                            continue
                        area = frame[a:a + specs[ln["term"]]["in_sz"]]
                        want = wl.expected_value(ln, area)
                        got_s = getattr(ds, f"vi{i}")
                        got_f = getattr(df, f"vi{i}")
                        if int(got_s) != int(want):
                            viol("python-path-read-wrong", f"{ln}: Python path read "
                                 f"{got_s!r}, the variable's bytes hold {want!r}",
                                 kind="bit" if isinstance(ln["size"], int) else ln["size"])
                        if int(got_f) != int(want):
                            viol("program-path-read-wrong", f"{ln}: program path read "
                                 f"{got_f!r}, the variable's bytes hold {want!r}",
                                 kind="bit" if isinstance(ln["size"], int) else ln["size"])
                model = bytearray(frame)
                for ds in devs_s:
                    for ln in ds.outs:
                        a = sg_s.pdo_assign[terms_s[ln["term"]]].get(SyncManager.OUT)
                        if a is None:
                            viol("no-region-for-variable", f"{ln}: the group reserved no "
                                 f"output region for its terminal")
                            continue
                        n = specs[ln["term"]]["out_sz"]
                        area = bytearray(model[a:a + n])
                        wl.apply_output(ln, area, ln["value"])
                        model[a:a + n] = area
                diff_s = [i for i in range(len(model)) if after_s[i] != model[i]]
                if diff_s:
                    viol("python-path-wrote-wrong", f"bytes {diff_s[:8]} of the frame differ "
                         f"from the independent encoding (links {[l for d in devs_s for l in d.outs]})")
                diff_f = [i for i in range(len(model)) if after_f[i] != model[i]
                          and i not in writer_bytes and i != 3]
                if diff_f:
                    viol("program-path-wrote-wrong", f"bytes {diff_f[:8]} of the frame differ "
                         f"from the independent encoding (links {[l for d in devs_s for l in d.outs]})")
                world.count("c19/frames")
    nlinks = len(links)
    return {
        "violations": violations, "stats": dict(world.counters),
        "digest": log.hexdigest(), "sim_time": 0.0, "schedule": log.hexdigest(),
        "nontrivial": nlinks >= 2,
        "sample": {"terminals": specs, "links": [
            {k: v for k, v in ln.items() if k != "value"} for ln in links]},
    }
