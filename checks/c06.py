"""C06 In-place addition on 4/8-byte variables never loses updates"""
import struct

from sim.seams import Env

PROPERTY = "C06"
LEVEL = "exploration"
SCENARIOS = {"shared": 3, "per-instance": 1, "devicevar": 1}
TIERS = {"quick": {"runs": 12000, "chunk": 30}, "thorough": {"runs": 50000000, "wall_s": 600, "chunk": 200, "recheck": 16}}
RULE = ("one run = one generated DSL program containing `var += amount` / `var -= amount` "
        "for a drawn 4/8-byte format (i I q Q x), memory kind (array-map variable of the "
        "program or of a sub-program, Dict.lookup() value member, mI/mQ on a map-value "
        "pointer; per-instance: local variable, per-CPU map variable) and amount kind "
        "(small/large constant, register, sub-expression, another variable, packet value, "
        "float for x), surrounded by unrelated statements; 2-3 instances of the loaded "
        "program run on different simulated CPUs over the same map memory, the scheduler "
        "picks which instance executes its next instruction (PCT-style forced switches or "
        "uniform); distinct = distinct (program bytes, schedule) pairs; non-trivial = the "
        "instances' instructions actually interleaved")
RULE += "; since the 4th session also a constant amount that is 0 in one of two branches taken per packet value, and a Dict entry increased by the Dict's own staging copy in one statement"
RULE += '; also the generating process pinned to one CPU and amounts that read their own target'
COMPONENTS = {
    "real": ["ebpfcat.ebpf.Memory.__iadd__/__isub__/IAdd/Memory._set (byte code from "
             "EBPF.assemble)", "ArrayMap/PerCPUArrayMap/Dict/LocalVar/SubProgram declarations"],
    "stub": ["eBPF interpreter, one instruction per step, several instances on shared map "
             "memory (atomic add is one step, as the ISA defines it)", "bpf() kernel side"]}
ASSUMPTIONS = ["helper calls are one step (the kernel helper is atomic w.r.t. the map bucket)",
               "hash-map *global* variables are excluded: they are not Memory, have no "
               "in-place form, and the documentation promises per-access locking only"]

WIDTH = {"i": 4, "I": 4, "q": 8, "Q": 8, "x": 8}


def run_devicevar(tape):
    """device variables of a fast sync group: a device whose program accumulates into a
    DeviceVar (read-only or writable from Python), in the real FastSyncGroup program; a fast
    group always has two frames on the wire, so two or three instances of the program run
    at once on the shared variable map"""
    import hashlib
    from ebpfcat.ebpfcat import Device, DeviceVar, FastEtherCat, FastSyncGroup

    fmt = tape.pick("c06/fmt", ["I", "i", "Q", "q"])
    w = WIDTH[fmt]
    mask = (1 << (8 * w)) - 1
    writable = tape.chance("c06/devicevar-writable", 50)
    amount_kind = tape.pick("c06/amount", ["small", "large", "var", "expr"])
    sub_op = tape.chance("c06/minus", 35)
    ninst = 2 + tape.draw("c06/ninst", 2)
    small = 1 + tape.draw("c06/small", 1000)
    large = (1 << 33) + tape.draw("c06/large", 1 << 30) if w == 8 else \
        0x7fff0000 + tape.draw("c06/large", 0xffff)
    varval = tape.draw("c06/varval", 1 << 20)
    pre = tape.draw("c06/pre", 3)

    class Acc(Device):
        acc = DeviceVar(fmt, write=writable)
        other = DeviceVar(fmt, write=True)
        scratch = DeviceVar("I")

        def program(self):
            for k in range(pre):
                self.scratch = self.scratch + (k + 1)
            amt = {"small": small, "large": large, "var": self.other,
                   "expr": None}[amount_kind]
            if amount_kind == "expr":
                amt = self.other * 3 + 7
            if sub_op:
                self.acc -= amt
            else:
                self.acc += amt

        def update(self):
            pass

    env = Env(tape, with_kernel=True, possible_cpus=4)
    # (the process that generates the program may itself be pinned to one CPU; the
    # program runs wherever the packets arrive)
    env.affinity_cpus = tape.pick("cfg/cpus-this-process-may-use", [None, None, 1])
    world, kernel = env.world, env.kernel
    violations = []
    params = dict(fmt=fmt, kind="devicevar", amount=amount_kind, minus=sub_op,
                  writable=writable)

    def viol(rule, detail, **kw):
        if not violations:
            violations.append({"rule": rule, "params": dict(params, **kw), "detail": detail})

    sched = []
    interleaved = False
    raw = b""
    with env:
        try:
            ec = FastEtherCat("sim0")
            dev = Acc()
            sg = FastSyncGroup(ec, [dev])
            sg.allocate()
            sg.packet_index = 5
            sg.load()
        except Exception as e:
            viol("program-cannot-be-generated", f"{params}: {type(e).__name__}: {e}",
                 exception=type(e).__name__)
            sg = None
        if sg is not None:
            prog = kernel.obj(sg.file_descriptor)
            raw = bytes(prog.raw) if hasattr(prog, "raw") else b""
            init = tape.pick("c06/init", [0, 1, mask, mask >> 1, (mask >> 1) + 1,
                                          tape.draw("c06/initrand", 1 << 30)])
            signed = fmt.islower()

            def as_fmt(v):
                v &= mask
                return v - (1 << (8 * w)) if signed and v >> (8 * w - 1) else v
            dev.acc = as_fmt(init)
            dev.other = varval
            sg.wkc_errors = 1            # outputs enabled: the devices' programs run
            frame = bytes(b"\xff" * 6 + b"\x02\0\0\0\0\x01\x88\xa4"
                          + sg.packet.assemble(5, 0x88A4))
            insts = [kernel.new_instance(prog, bytearray(frame), cpu=i) for i in range(ninst)]
            uniform = tape.chance("sched/uniform", 40)
            cur = 0
            live = list(range(ninst))
            steps = 0
            try:
                while live:
                    if uniform:
                        cur = live[tape.draw("sched/pick", len(live))]
                    elif cur not in live or tape.draw("sched/switch", 6) == 5:
                        cur = live[tape.draw("sched/pick", len(live))]
                    sched.append(cur)
                    if insts[cur].step():
                        live.remove(cur)
                    steps += 1
                    if steps > 20000:
                        viol("program-did-not-terminate", str(params))
                        break
            except Exception as e:
                viol("interpreter-fault", f"{params}: {type(e).__name__}: {e}")
            for inst in insts:
                kernel.discard(inst)
            interleaved = any(a != b for a, b in zip(sched, sched[1:])) and \
                len(set(sched)) > 1 and sched != sorted(sched)
            world.count("c06/instructions", steps)
            amount = {"small": small, "large": large, "var": varval,
                      "expr": varval * 3 + 7}[amount_kind]
            total = ninst * (-amount if sub_op else amount)
            if not violations:
                got = dev.acc & mask
                want = (init + total) & mask
                if got != want:
                    viol("update-lost",
                         f"{params}: {ninst} instances of the group program added "
                         f"{-amount if sub_op else amount} each to {init:#x}; final {got:#x}, "
                         f"expected {want:#x} (schedule {''.join(map(str, sched))[:120]})",
                         interleaved=interleaved)
                elif dev.other != varval:
                    viol("other-bytes-changed", f"{params}: the neighbouring device variable "
                         f"changed from {varval} to {dev.other}")
    norm = bytearray(raw)
    for i in range(0, len(norm), 8):
        if norm[i] == 0x18 and norm[i + 1] >> 4 == 1:
            norm[i + 4:i + 8] = b"\0\0\0\0"
    h = hashlib.sha256(bytes(norm) + bytes(sched)).hexdigest()
    return {
        "violations": violations, "stats": dict(world.counters), "digest": h,
        "sim_time": 0.0, "schedule": h, "nontrivial": interleaved,
        "sample": dict(params, instances=ninst, schedule="".join(map(str, sched))[:80],
                       program_bytes=len(raw)),
    }


def run(tape, scenario):
    if scenario == "devicevar":
        return run_devicevar(tape)
    import hashlib
    from ebpfcat.arraymap import ArrayMap, PerCPUArrayMap
    from ebpfcat.ebpf import LocalVar, Member, Structure, SubProgram
    from ebpfcat.hashmap import Dict
    from ebpfcat.xdp import XDP, XDPExitCode

    fmt = tape.pick("c06/fmt", ["I", "i", "Q", "q", "x"])
    w = WIDTH[fmt]
    shared = scenario == "shared"
    kind = tape.pick("c06/kind", ["array", "subprog", "dict", "mapptr"] if shared
                     else ["local", "percpu"])
    if kind == "mapptr" and fmt in "ix":
        fmt = "I" if w == 4 else "Q"
    if kind == "dict" and fmt == "x":
        fmt = "q"
    amount_kind = tape.pick("c06/amount", ["small", "large", "register", "expr", "var",
                                            "packet"] + (["float"] if fmt == "x" else [])
                            + (["staging", "staging"] if kind == "dict" else []))
    sub_op = tape.chance("c06/minus", 35)
    ninst = 2 + tape.draw("c06/ninst", 2)
    mask = (1 << (8 * w)) - 1
    small = 1 + tape.draw("c06/small", 1000)
    large = (1 << 33) + tape.draw("c06/large", 1 << 30) if w == 8 else \
        0x7fff0000 + tape.draw("c06/large", 0xffff)
    regval = tape.draw("c06/regval", 1 << 20)
    varval = tape.draw("c06/varval", 1 << 20)
    pkt_amounts = [tape.draw("c06/pktval", 1 << 30) for _ in range(ninst)]
    fval = [0.5, 1.25, 3.0, 1024.75][tape.draw("c06/float", 4)]   # exactly representable: constant exactness is C02's subject
    pre = tape.draw("c06/pre", 4)
    post = tape.draw("c06/post", 3)
    ptr_reg = tape.pick("c06/pointer-register", [7, 7, 6, 8, 9]) if kind == "mapptr" else 7

    class Key(Structure):
        k = Member("I")

    class Value(Structure):
        pad = Member("Q")
        count = Member(fmt if fmt != "x" else "q")

    class Sub(SubProgram):
        pass

    ns = {"license": "GPL", "minimumPacketSize": 40}
    amap = ArrayMap()
    ns["amap"] = amap
    ns["guard1"] = amap.globalVar("Q")
    ns["other"] = amap.globalVar(fmt)
    ns["scratch"] = amap.globalVar("I")
    ns["guard2"] = amap.globalVar("I")
    if kind == "array" or kind == "mapptr":
        ns["target"] = amap.globalVar(fmt)
        ns["target2"] = amap.globalVar(fmt)
    if kind == "subprog":
        Sub.target = amap.globalVar(fmt)
        Sub.target.__set_name__(Sub, "target")
    if kind == "percpu" or kind == "local":
        pmap = PerCPUArrayMap()
        ns["pmap"] = pmap
        ns["ptarget"] = pmap.globalVar(fmt)
    if kind == "local":
        ns["loc"] = LocalVar(fmt)
    if kind == "dict":
        ns["table"] = Dict(Key, Value, size=7)

    def amount_expr(p):
        """-> (expression or constant to add, per-instance numeric value function)"""
        if amount_kind == "small":
            return small, lambda i: small
        if amount_kind == "large":
            return large, lambda i: large
        if amount_kind == "float":
            return fval, lambda i: fval
        if amount_kind == "register":
            p.r3 = regval
            return p.r3, lambda i: regval
        if amount_kind == "expr":
            p.r3 = regval
            return p.r3 * 3 + 7, lambda i: regval * 3 + 7
        if amount_kind == "var":
            return p.other, lambda i: varval
        if amount_kind == "staging":
            # the upsert idiom: the entry found is increased by what the program has put
            # into the Dict's own (stack) copy of the value
            # (written in one statement, value.count += self.table.value.count: the
            # amount is only looked at after the target has been)
            p.table.value.count = small
            return (lambda: p.table.value.count), lambda i: small
        p.r3 = p.pI[20]
        return p.r3, lambda i: pkt_amounts[i]

    amount_fn = [None]

    def statements(p, target_get, target_iadd):
        for k in range(pre):
            p.scratch = p.scratch + (k + 1)
        amt, fn = amount_expr(p)
        amount_fn[0] = fn
        target_iadd(amt)
        for k in range(post):
            p.scratch = p.scratch * 3 + 1

    # the same constant added to another variable right before, as the last statement of a
    # conditional block that only some instances enter (packet value above the threshold)
    cond_prefix = kind == "array" and amount_kind in ("small", "large") \
        and tape.chance("c06/add-after-conditional-add", 35)
    cond_threshold = 1 << 29
    # the amount is a constant chosen by a branch, and in one branch it is 0 (a configured
    # penalty that happens to be nothing): instances that take different branches race
    zero_branch = kind in ("array", "subprog") and amount_kind in ("small", "large") \
        and not cond_prefix and tape.chance("c06/zero-amount-in-one-branch", 30)
    # the amount is an expression that reads the variable being updated, though what it
    # reads does not matter: target += (target & 0) + K
    reads_itself = kind == "array" and amount_kind in ("small", "large") and fmt != "x" \
        and not cond_prefix and not zero_branch and tape.chance("c06/amount-reads-the-target", 25)

    def branch_on_packet(p, target_iadd_of, a):
        with p.pI[20] > cond_threshold as Else:
            target_iadd_of(a)
        with Else:
            target_iadd_of(0)
        fn = amount_fn[0]
        amount_fn[0] = lambda i: fn(i) if pkt_amounts[i] > cond_threshold else 0
    # program types other than XDP can be interrupted by another instance on the same CPU
    # (a perf event in NMI context): then even a per-CPU variable sees interleaved updates
    same_cpu = kind == "percpu" and tape.chance("c06/instances-nested-on-one-cpu", 40)

    def program(self):
        if kind in ("array",):
            def plain(a):
                if reads_itself:
                    a = (self.target & 0) + a
                if sub_op:
                    self.target -= a
                else:
                    self.target += a

            def iadd(a):
                if cond_prefix:
                    with self.pI[20] > cond_threshold:
                        if sub_op:
                            self.target2 -= a
                        else:
                            self.target2 += a
                if zero_branch:
                    return branch_on_packet(self, plain, a)
                plain(a)
            statements(self, None, iadd)
        elif kind == "mapptr":
            off = type(self).__dict__["target"]
            addr = self.__dict__["target"]

            def iadd(a):
                mm = self.mI if w == 4 else self.mQ
                # the pointer to the map value sits in the array map's own register or in
                # a register the user copied it to (r9: the packet is not needed any more)
                base = self.r7
                if ptr_reg != 7:
                    self.r[ptr_reg] = self.r7
                    base = self.r[ptr_reg]
                if sub_op:
                    mm[base + addr] -= a
                else:
                    mm[base + addr] += a
            statements(self, None, iadd)
        elif kind == "subprog":
            self.subprograms[0].program()
        elif kind == "percpu":
            def iadd(a):
                if sub_op:
                    self.ptarget -= a
                else:
                    self.ptarget += a
            statements(self, None, iadd)
        elif kind == "local":
            self.loc = self.ptarget

            def iadd(a):
                if sub_op:
                    self.loc -= a
                else:
                    self.loc += a
            statements(self, None, iadd)
            self.ptarget = self.loc
        elif kind == "dict":
            self.table.key.k = 3
            with self.table.lookup() as (value, Else):
                def iadd(a):
                    if callable(a):
                        if sub_op:
                            value.count -= a()
                        else:
                            value.count += a()
                    elif sub_op:
                        value.count -= a
                    else:
                        value.count += a
                statements(self, None, iadd)
        self.exit(XDPExitCode.PASS)
    ns["program"] = program

    def sub_program(self):
        p = self.ebpf

        def plain(a):
            if sub_op:
                self.target -= a
            else:
                self.target += a

        def iadd(a):
            if zero_branch:
                return branch_on_packet(p, plain, a)
            plain(a)
        statements(p, None, iadd)
    Sub.program = sub_program

    P = type("P", (XDP,), ns)
    env = Env(tape, with_kernel=True, possible_cpus=4)
    # (the process that generates the program may itself be pinned to one CPU; the
    # program runs wherever the packets arrive)
    env.affinity_cpus = tape.pick("cfg/cpus-this-process-may-use", [None, None, 1])
    world, kernel = env.world, env.kernel
    violations = []

    def viol(rule, detail, **params):
        if not violations:
            violations.append({"rule": rule, "params": params, "detail": detail})

    params = dict(fmt=fmt, kind=kind, amount=amount_kind, minus=sub_op)
    if zero_branch:
        params["zero_branch"] = True
    if reads_itself:
        params["reads_itself"] = True
    sched = []
    interleaved = False
    raw = b""
    with env:
        try:
            subs = (Sub(),) if kind == "subprog" else ()
            p = P(subprograms=subs)
            p.load()
            raw = p.assemble() if False else b""
        except Exception as e:
            viol("program-cannot-be-generated", f"{params}: {type(e).__name__}: {e}",
                 exception=type(e).__name__, **params)
            p = None
        if p is not None:
            prog = kernel.obj(p.file_descriptor)
            raw = bytes(prog.raw) if hasattr(prog, "raw") else b""
            uses_xadd = any(raw[i] in (0xc3, 0xdb) for i in range(0, len(raw), 8))
            # initial values
            init = tape.pick("c06/init", [0, 1, mask, mask >> 1, (mask >> 1) + 1,
                                          tape.draw("c06/initrand", 1 << 30)])
            holder = p.subprograms[0] if kind == "subprog" else p

            def pack_val(v):
                return struct.pack("<Q" if w == 8 else "<I", v & mask)
            p.guard1 = 0x1122334455667788
            p.guard2 = 0xcafef00d
            p.scratch = 5
            scale = 100000 if fmt == "x" else 1
            if amount_kind == "var":
                if fmt == "x":
                    p.other = varval
                else:
                    p.other = varval if fmt.isupper() else varval
            inits = None
            if kind in ("array", "mapptr", "subprog"):
                addr = holder.__dict__["target"]
                p.amap[addr:addr + w] = pack_val(init)
            elif kind == "dict":
                k = Key()
                k.k = 3
                v = Value()
                v.pad = 0x0102030405060708
                v.count = 0
                v.data[8:8 + w] = pack_val(init)
                p.table[k] = v
            else:
                # per-CPU map: set each CPU's copy through the kernel object
                pm = kernel.obj(p.pmap.fd)
                addr = p.__dict__["ptarget"]
                inits = []
                for c in range(ninst):
                    iv = (init + 77 * c) & mask
                    inits.append(iv)
                    reg = pm.region(0, cpu=c)
                    reg.data[addr:addr + w] = pack_val(iv)
            before_map = bytes(p.amap)
            # run the instances interleaved
            insts = []
            for i in range(ninst):
                pkt = bytearray(64)
                struct.pack_into("<I", pkt, 20, pkt_amounts[i])
                insts.append(kernel.new_instance(prog, pkt, cpu=0 if same_cpu else i))
            uniform = tape.chance("sched/uniform", 40)
            cur = 0
            live = list(range(ninst))
            steps = 0
            try:
                while live:
                    if uniform:
                        cur = live[tape.draw("sched/pick", len(live))]
                    elif cur not in live or tape.draw("sched/switch", 6) == 5:
                        cur = live[tape.draw("sched/pick", len(live))]
                    sched.append(cur)
                    if insts[cur].step():
                        live.remove(cur)
                    steps += 1
                    if steps > 20000:
                        viol("program-did-not-terminate", str(params), **params)
                        break
            except Exception as e:
                viol("interpreter-fault", f"{params}: {type(e).__name__}: {e}", **params)
            for inst in insts:
                kernel.discard(inst)
            interleaved = any(a != b for a, b in zip(sched, sched[1:])) and \
                len(set(sched)) > 1 and sched != sorted(sched)
            world.count("c06/instructions", steps)
            if not uses_xadd:
                world.count("c06/no-atomic-instruction-in-program")
            # ---- oracle
            fn = amount_fn[0]
            amounts = []
            for i in range(ninst):
                a = fn(i)
                a = int(round(a * scale)) if fmt == "x" else int(a)
                amounts.append(-a if sub_op else a)
            if not violations:
                if kind in ("array", "mapptr", "subprog", "dict"):
                    if kind == "dict":
                        k = Key()
                        k.k = 3
                        got = int.from_bytes(bytes(p.table[k].data[8:8 + w]), "little")
                        padv = int.from_bytes(bytes(p.table[k].data[0:8]), "little")
                        if padv != 0x0102030405060708:
                            viol("other-bytes-changed", f"{params}: neighbouring member changed", **params)
                    else:
                        got = int.from_bytes(bytes(p.amap[addr:addr + w]), "little")
                    if cond_prefix:
                        a2 = p.__dict__["target2"]
                        got2 = int.from_bytes(bytes(p.amap[a2:a2 + w]), "little")
                        want2 = sum(amounts[i] for i in range(ninst)
                                    if pkt_amounts[i] > cond_threshold) & mask
                        if got2 != want2:
                            viol("update-lost",
                                 f"{params}: conditional add before the statement: the other "
                                 f"variable ended at {got2:#x}, expected {want2:#x} (packet "
                                 f"values {pkt_amounts}, threshold {cond_threshold:#x})",
                                 interleaved=interleaved, conditional=True, **params)
                    want = (init + sum(amounts)) & mask
                    if got != want:
                        viol("update-lost",
                             f"{params}: {ninst} instances added {amounts} to {init:#x}; "
                             f"final {got:#x}, expected {want:#x} "
                             f"(schedule {''.join(map(str, sched))[:120]})",
                             interleaved=interleaved, **params)
                    after = bytearray(p.amap)
                    bm = bytearray(before_map)
                    saddr = p.__dict__["scratch"]
                    extra = ((p.__dict__["target2"], w),) if "target2" in p.__dict__ else ()
                    for a0, n in ((saddr, 4),) + extra + (((addr, w),) if kind != "dict" else ()):
                        after[a0:a0 + n] = bytes(n)
                        bm[a0:a0 + n] = bytes(n)
                    if after != bm:
                        viol("other-bytes-changed", f"{params}: map bytes outside the target "
                             f"and the scratch variable changed", **params)
                else:
                    pm = kernel.obj(p.pmap.fd)
                    for c in range(ninst):
                        reg = pm.region(0, cpu=c)
                        got = int.from_bytes(bytes(reg.data[addr:addr + w]), "little")
                        want = (inits[c] + amounts[c]) & mask
                        if same_cpu:
                            want = (inits[c] + (sum(amounts) if c == 0 else 0)) & mask
                        if got != want:
                            viol("per-instance-update-wrong",
                                 f"{params}: CPU {c}: {inits[c]:#x} + {amounts[c]} gave "
                                 f"{got:#x}, expected {want:#x}", **params)
    norm = bytearray(raw)
    for i in range(0, len(norm), 8):          # map fds differ between processes
        if norm[i] == 0x18 and norm[i + 1] >> 4 == 1:
            norm[i + 4:i + 8] = b"\0\0\0\0"
    h = hashlib.sha256(bytes(norm) + bytes(sched)).hexdigest()
    return {
        "violations": violations, "stats": dict(world.counters), "digest": h,
        "sim_time": 0.0, "schedule": h, "nontrivial": interleaved,
        "sample": dict(params, instances=ninst, schedule="".join(map(str, sched))[:80],
                       program_bytes=len(raw)),
    }
