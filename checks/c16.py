"""C16 SDO transfers carry values byte-for-byte"""
import asyncio

from sim.bus import WireFaults
from sim.coe import ObjectDictionary
from sim.fixtures import make_terminal, preinit
from sim.loop import SimStall
from sim.seams import Env

PROPERTY = "C16"
LEVEL = "exploration"
SCENARIOS = {"up-expedited": 1, "up-normal": 2, "up-segmented": 2,
             "down-expedited": 1, "down-normal": 2, "down-segmented": 2}
TIERS = {"quick": {"runs": 12600, "chunk": 40}, "thorough": {"runs": 50000000, "wall_s": 600, "chunk": 200, "recheck": 16}}
RULE = ("one run = one simulated terminal with mailbox sizes drawn from "
        "{24,32,48,128,256} (write and read mailbox independently) behind an "
        "ETG.1000.6-conformant strict SDO server, 1-4 transfers of the scenario's class "
        "(direction x expedited/normal/segmented; sub-index or complete access, value "
        "length drawn around every boundary of the class), answers delayed 0..3 polls, "
        "optionally an EoE fragment or CoE emergency queued ahead of an answer; the master is "
        "an EtherCat or (30 %) a ParallelEtherCat with the counter in the shared lock file; "
        "15 % of the transfers are preceded by one the terminal aborts (missing object); "
        "real Terminal.sdo_read/sdo_write/mbx_send/mbx_recv over the simulated bus; "
        "distinct = distinct (mailbox sizes, transfers, delays, mail) histories; "
        "non-trivial = at least one transfer exchanged two or more mailbox messages")
RULE += "; since the 4th session also a transfer abandoned while its request is still unfetched in the terminal's mailbox before the judged one (12 %), and under the parallel master a terminal that remembers the mailbox counter of an earlier master session"
RULE += '; also a second user of the mailbox (own Terminal object) making 6/13/5/7/1 exchanges between two reads of one value'
COMPONENTS = {
    "real": ["ebpfcat.ethercat.Terminal.sdo_read/sdo_write/mbx_send/mbx_recv",
             "ebpfcat.lock.MailboxLock", "EtherCat.roundtrip path"],
    "stub": ["event loop", "socket", "wire", "ESC mailbox sync managers",
             "CoE SDO server (oracle, written from ETG.1000.6)"]}
ASSUMPTIONS = [
    "the SDO server model is the trusted oracle (selftest/coe_selftest.py: golden "
    "transfers + conformant reference client, 0 deviations)",
    "ESC mailbox rule: a buffer access must begin at the first byte and the buffer "
    "closes with the last byte (ET1100 datasheet, mailbox mode)"]

SIZES = [24, 32, 48, 128, 256]


def length_for(tape, cls, n):
    """value length for transfer class `cls` with first-message capacity n-16"""
    cap = n - 16
    seg = n - 9
    if cls == "expedited":
        return 1 + tape.draw("c16/len-exp", 4)
    if cls == "normal":
        opts = [0, 5, 6, cap - 1, cap, 7, 8, max(5, cap // 2)]
        return max(0, tape.pick("c16/len-normal", [o for o in opts if o == 0 or 5 <= o <= cap]))
    opts = [cap + 1, cap + 2, cap + 6, cap + 7, cap + 8, cap + seg - 1, cap + seg,
            cap + seg + 1, cap + seg + 7, cap + 2 * seg, cap + 2 * seg + 3,
            cap + 3 * seg + 1]
    return tape.pick("c16/len-seg", opts)


def run(tape, scenario):
    from ebpfcat.ethercat import EtherCatError

    direction, cls = scenario.split("-")
    # the master: a plain EtherCat (MailboxLock) or a ParallelEtherCat (mailbox counter kept
    # in the shared lock file)
    parallel = tape.chance("c16/parallel-master", 30)
    env = Env(tape, faults=WireFaults(delay_buckets=(50e-6, 20e-6, 150e-6)), with_fs=parallel)
    world = env.world
    n_out = tape.pick("c16/mbx-out", SIZES)
    n_in = tape.pick("c16/mbx-in", SIZES)
    od = ObjectDictionary()
    term, server = make_terminal(env.bus, "T0", 1001, mbx_out=(0x1000, n_out),
                                 mbx_in=(0x1400, n_in), od=od)
    if tape.chance("c16/short-segments", 25):
        # a terminal that does not fill its upload segments: any length from 1 byte on,
        # also fewer than 7 (padded, with the count in the command byte) in the middle
        server.segment_size = lambda room: tape.pick(
            "c16/segment-bytes", [room, room, 1, 3, 6, 7, 8, max(1, room - 1), max(1, room // 2)])
    if parallel and tape.chance("c16/terminal-kept-from-an-earlier-session", 40):
        # the terminal was not reset since an earlier session of masters (which has left
        # and taken its lock file along): it remembers the counter of the last mail it got
        server.rx_counter = 1 + tape.draw("c16/counter-of-the-earlier-session", 7)
        server.new_session = True
        world.count("c16/terminal-remembers-an-earlier-session")
    maxdelay = tape.draw("c16/maxdelay", 4)
    term.mbx_delay = lambda: tape.draw("c16/answer-delay", maxdelay + 1)
    mail_kind = tape.draw("c16/mail", 6)       # 0-3 none, 4 EoE, 5 emergency
    mail = {4: "eoe", 5: "emergency"}.get(mail_kind, "none")
    mail_used = [False]
    skip_mail = [0]
    if mail != "none":
        def before():
            if skip_mail[0]:
                skip_mail[0] -= 1       # (the answer to an abandoned request comes alone)
                return []
            if tape.chance("c16/mail-now", 50):
                mail_used[0] = True
                world.count(f"fault/unrelated-mail-{mail}")
                return [server.make_eoe_fragment(min(6 + tape.draw("c16/eoe-n", 10), n_in - 10))
                        if mail == "eoe" else server.make_emergency()]
            return []
        term.adapter.before_answer = before
    from ebpfcat.ethercat import EtherCat
    if parallel:
        from ebpfcat.ebpfcat import ParallelEtherCat
        ec = ParallelEtherCat("sim0")
        ec.ethertype = 0x3001
        env.bus.route_by_data0 = True
    else:
        ec = EtherCat("sim0")
    t = None
    t2 = [None]

    transfers = []
    violations = []
    ntr = 1 + tape.draw("c16/ntransfers", 4)

    def viol(rule, detail, **params):
        if not violations:
            violations.append({"rule": rule, "params": params, "detail": detail})

    def plan():
        ca = tape.chance("c16/complete-access", 35)
        if cls == "expedited" and direction == "down" and ca:
            ca = False        # the client has no expedited CA download; see "normal"
        n = n_in if direction == "up" else n_out
        length = length_for(tape, cls, n)
        index = 0x2000 + len(transfers)
        value = tape.bytes("c16/value", min(length, 8)) + bytes(
            (i * 37 + 11) & 0xff for i in range(max(0, length - 8)))
        value = value[:length]
        if ca:
            # record object: sub0 = number of entries, sub1.. hold the value split in two
            k = tape.draw("c16/ca-split", length + 1) if length else 0
            od.set(index, 0, b"\x02", readonly=True)
            od.set(index, 1, value[:k] if direction == "up" else bytes(k), fixed=True)
            od.set(index, 2, value[k:] if direction == "up" else b"")
            sub = None
        else:
            sub = tape.draw("c16/sub", 3) + (0 if tape.chance("c16/sub0", 20) else 1)
            od.set(index, sub, value if direction == "up" else b"old")
        return {"dir": direction, "class": cls, "access": "ca" if ca else "sub",
                "index": index, "sub": sub, "len": length, "value": value}

    async def main(loop):
        nonlocal t
        if parallel:
            from ebpfcat.lock import LockFile
            ec.mbx_lock_file = LockFile("/run/ebpf/sim0", ec.terminal_addr_range[0],
                                          ec.terminal_addr_range[1] + 1)   # as ParallelEtherCat.run makes it
            await EtherCat.connect(ec)
        else:
            await ec.connect()
        t = preinit(ec, term)
        for _ in range(ntr):
            if tape.chance("c16/aborted-transfer-before", 15):
                # a transfer the terminal aborts (no such object) ends with an exception
                # inside the mailbox lock; the next transfer has to work all the same
                try:
                    await asyncio.wait_for(t.sdo_read(0x2e00, 1), 2.0)
                    world.count("c16/abort-not-reported")
                except EtherCatError:
                    world.count("c16/aborted-transfer")
                except asyncio.TimeoutError:
                    viol("transfer-failed", "upload of a missing object: no answer within 2 s",
                         exception="TimeoutError", dir="up", **{"class": "abort"}, access="sub")
                    return
            if tape.chance("c16/abandoned-unfetched-request-before", 12):
                # a transfer given up (its caller timed out) while the slow terminal had
                # not even taken the request out of its mailbox: the next transfer finds
                # the mailbox full, waits for the answer nobody wants and goes on
                skip_mail[0] = 1
                term.mbx_fetch_delay = lambda: 4 + tape.draw("c16/fetch-delay", 12)
                task = asyncio.ensure_future(t.sdo_read(0x2e01, 1))
                for _ in range(200):
                    if term.mbx_unfetched is not None or task.done():
                        break
                    await asyncio.sleep(10e-6)
                term.mbx_fetch_delay = lambda: 0
                if term.mbx_unfetched is not None and not task.done():
                    term.mbx_unfetched[2] = max(term.mbx_unfetched[2], 2)
                    task.cancel()
                    world.count("c16/transfer-abandoned-with-request-unfetched")
                try:
                    await task
                except (asyncio.CancelledError, EtherCatError):
                    pass
            tr = plan()
            transfers.append(tr)
            params = {"dir": tr["dir"], "class": tr["class"], "access": tr["access"]}
            if parallel and direction == "up" and tape.chance("c16/second-user-in-between", 30):
                # the value was read a moment ago; then another user of this mailbox (a
                # tool with its own Terminal object, same lock file) made a few exchanges -
                # six of them bring the terminal's mail counter round to where it was -
                # and now the value is read again: the same answer, and still an answer
                try:
                    await asyncio.wait_for(t.sdo_read(tr["index"], tr["sub"]), 2.0)
                    if t2[0] is None:
                        t2[0] = preinit(ec, term)
                        od.set(0x2d00, 1, b"tool")
                    n_between = tape.pick("c16/exchanges-in-between", [6, 6, 13, 5, 7, 1])
                    skip_mail[0] = n_between
                    for _ in range(n_between):
                        await asyncio.wait_for(t2[0].sdo_read(0x2d00, 1), 2.0)
                    skip_mail[0] = 0
                    world.count("c16/value-read-again-after-another-users-exchanges")
                except (asyncio.TimeoutError, EtherCatError) as e:
                    viol("transfer-failed", f"{tr_desc(tr)}: reading it a first time, or the "
                         f"other user's exchanges: {type(e).__name__}: {e}",
                         exception=type(e).__name__, second_user=True, **params)
                    return
            mail_used[0] = False
            log_from = len(server.log)
            dev_from = len(server.deviations)
            try:
                if direction == "up":
                    got = await asyncio.wait_for(t.sdo_read(tr["index"], tr["sub"]), 2.0)
                else:
                    got = await asyncio.wait_for(
                        t.sdo_write(tr["value"], tr["index"], tr["sub"]), 2.0)
                tr["outcome"] = "returned"
            except asyncio.TimeoutError:
                tr["outcome"] = "timeout"
                got = None
            except Exception as e:
                tr["outcome"] = f"{type(e).__name__}: {e}"
                got = None
            tr["messages"] = len(server.log) - log_from
            if mail_used[0]:
                params["mail"] = mail
            # the server saw the master break the protocol
            devs = server.deviations[dev_from:]
            if devs:
                viol("protocol-deviation", f"{tr_desc(tr)}: server recorded {devs[0].rule}: "
                     f"{devs[0].detail}", deviation=devs[0].rule, **params)
            for rec in server.log[log_from:]:
                if rec.get("direction") == "rx" and not rec.get("fits", True):
                    viol("message-exceeds-mailbox", f"{tr_desc(tr)}: {rec}", **params)
            if tr["outcome"] != "returned":
                viol("transfer-failed", f"{tr_desc(tr)} mailboxes {n_out}/{n_in}: "
                     f"{tr['outcome']}", exception=tr["outcome"].split(":")[0], **params)
                return
            if direction == "up":
                if got != tr["value"]:
                    viol("upload-wrong-bytes",
                         f"{tr_desc(tr)}: returned {bytes(got)[:40].hex()} ({len(got)} bytes), "
                         f"terminal holds {tr['value'][:40].hex()} ({tr['len']} bytes)", **params)
            else:
                done = [d for d in server.downloads if d[0] == tr["index"]]
                if not done:
                    viol("download-not-completed",
                         f"{tr_desc(tr)}: sdo_write returned but the server completed no "
                         f"download", **params)
                elif bytes(done[-1][3]) != tr["value"]:
                    viol("download-wrong-bytes",
                         f"{tr_desc(tr)}: server received {bytes(done[-1][3])[:40].hex()} "
                         f"({len(done[-1][3])} bytes), given {tr['value'][:40].hex()} "
                         f"({tr['len']} bytes)", **params)
            # toggle bits of the segment requests alternate starting at 0
            toggles = [rec.get("toggle") for rec in server.log[log_from:]
                       if rec.get("direction") == "rx"
                       and rec.get("command") in ("upload-segment-req", "download-segment-req")]
            if toggles and toggles != [i % 2 for i in range(len(toggles))]:
                viol("toggle-sequence", f"{tr_desc(tr)}: toggles {toggles}", **params)
            if violations:
                return

    def tr_desc(tr):
        return (f"{tr['dir']}load {tr['class']} {tr['access']} {tr['index']:#x}:"
                f"{tr['sub']} len {tr['len']}")

    with env:
        try:
            env.run(main)
        except SimStall as e:
            viol("master-stalled", str(e))
        if env.stall is not None and env.stall.fired:
            viol("master-stalled", env.stall.fired)
        for m, tn, txt in env.loop_exceptions():
            viol("library-task-died", f"{m}: {tn}: {txt}", exception=tn)
    if term.denied:
        world.count("esc/mailbox-access-denied", term.denied)
    hist = [(tr["access"], tr["len"], tr.get("outcome", "?")[:20]) for tr in transfers]
    return {
        "violations": violations, "stats": dict(world.counters),
        "digest": world.digest.hexdigest(), "sim_time": world.now,
        "schedule": repr((n_out, n_in, maxdelay, mail, hist, world.digest.hexdigest()[:8])),
        "nontrivial": any(tr.get("messages", 0) >= 2 for tr in transfers),
        "sample": {"mailboxes": [n_out, n_in], "mail": mail, "transfers": [
            {k: (v.hex() if isinstance(v, bytes) else v) for k, v in tr.items()
             if k != "value"} for tr in transfers]},
    }
