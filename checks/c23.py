"""C23 Processes sharing an interface coordinate the dispatcher safely"""
import asyncio

from sim.bus import WireFaults
from sim.loop import SimStall
from sim.seams import Env

PROPERTY = "C23"
LEVEL = "exploration"
SCENARIOS = {"start-stop": 3, "churn": 2, "crash": 1, "fmmu-files": 3}
TIERS = {"quick": {"runs": 2700, "chunk": 8}, "thorough": {"runs": 50000000, "wall_s": 600, "chunk": 40, "recheck": 16}}
RULE = ("one run = 2-3 simulated OS processes (baton-passing threads) each doing `async with "
        "ParallelEtherCat(...).run(): take 1-8 FMMU windows; stay a drawn time` (in 'churn' "
        "several times in a row), with drawn start times, pre-emption before every file "
        "system, lock, bpf() and netlink operation (PCT bound 0-6 plus stalls of 1-30 ms, in a "
        "third of the runs up to 400 ms - longer than a joiner waits -, at hot points, and "
        "stalls anywhere with 0-3 %), in 'crash' one participant dies between two operations; "
        "'fmmu-files': 2-4 processes follow run()'s lock-directory protocol around the FMMU "
        "address map alone (create/open/fill/allocate/release, no bus); the real "
        "dispatcher is generated, loaded, attached and pinned in the kernel stub; "
        "invariants are evaluated at every yield point; distinct = distinct sequences of "
        "process switches; non-trivial = at least two participants were inside run() at the "
        "same time or one started while another was leaving")
RULE += "; since the 4th session the crash of a 'crash' run is in 35 % of the runs placed in the last leaver's clean-up (after its successful rmdir)"
COMPONENTS = {
    "real": ["ebpfcat.ebpfcat.ParallelEtherCat.run/get_ethertype/get_fmmu_addr",
             "ebpfcat.lock.FMMULock/LockFile", "EtherXDP generation, XDP.attach/detach, "
             "obj_pin/obj_get", "EtherCat.connect"],
    "stub": ["process scheduler (threads, tape-driven pre-emption, stalls, crash)",
             "in-memory POSIX file system incl. bpffs and record locks", "bpf() kernel side, "
             "netlink XDP attach", "event loops, sockets"]}
ASSUMPTIONS = ["rename(2)/rmdir(2)/O_EXCL semantics as on Linux (rename onto a non-empty "
               "directory fails, onto an empty one succeeds)",
               "a crashed process keeps nothing but what is on the file system / in the kernel"]

PIN = "/sys/fs/bpf/sim0/programs"
LOCKDIR = "/run/lock/ebpf.sim0.lock"


def run_fmmu_files(tape):
    """the FMMU address map alone: 2-4 processes come and go following run()'s own
    lock-directory protocol (register in the lock directory, open the map, take windows,
    unregister, and whoever empties the directory releases its window through
    FMMULock.remove()), without bus and dispatcher, so that thousands of runs go into the
    orderings of creating, opening, filling, allocating and releasing the map"""
    import ebpfcat.ebpfcat as em
    from ebpfcat.lock import FMMULock

    # (a crowded address map makes FMMULock.__init__ draw hundreds of times: the guard
    # against endless synchronous loops gets room for that)
    env = Env(tape, with_fs=True, faults=WireFaults(delay_buckets=(50e-6,)), stall_limit=400_000)
    world, fs = env.world, env.fs
    sched = env.use_scheduler(preempt_bound=tape.draw("sched/bound", 7),
                              preempt_den=[3, 6, 12][tape.draw("sched/den", 3)])
    sched.stall_rate = [0, 20, 50][tape.draw("cfg/stall-rate", 3)]
    sched.stall_anywhere = tape.pick("cfg/stall-anywhere", [0, 0, 10, 30])
    sched.stall_times = (1e-3, 5e-3, 30e-3, 100e-3)
    nproc = 2 + tape.draw("c23/nproc", 3)
    pool = tape.pick("cfg/fmmu-pool", [[1, 2, 3], [1, 2], [7, 8], [8, 9, 15], [6, 7, 8, 9]])
    pool_rate = tape.pick("cfg/fmmu-pool-rate", [50, 70, 85])
    env.collide["rand/lock"] = lambda a, b: (
        tape.pick("c23/fmmu-collide", pool) if tape.chance("c23/collide", pool_rate) else None)
    violations = []
    state = {}
    outcomes = {}
    overlap = [False]
    MAP = "/run/ebpf/sim0.fmmu"
    crowded = tape.chance("c23/crowded-map", 20)
    if crowded:
        # participants that were not the last to leave never release their window: after a
        # long uptime the map is crowded. All but 1-4 windows are taken, the free ones drawn
        import os as real_os
        # (at least as many free windows as there will be sessions: with none left the
        # unchanged code draws forever, which is not what this property is about)
        nfree = 13 + tape.draw("c23/nfree", 8)
        if tape.chance("c23/free-next-to-bit-7", 50):
            # the lowest byte that is not full has bit 7 taken and a low bit free, the
            # window after it (bit 0 of the next byte) is free as well
            b0 = 1 + tape.draw("c23/free-byte", 20)
            free = {8 * b0 + tape.draw("c23/free-low-bit", 7), 8 * (b0 + 1)}
            while len(free) < nfree:
                free.add(8 * (b0 + 2) + tape.draw("c23/free-window-high", 8 * (61 - b0)))
        else:
            free = set()
            while len(free) < nfree:
                free.add(1 + tape.draw("c23/free-window", 510))
        bitmap = bytearray(b"\xff" * 64)
        for a in free:
            bitmap[a // 8] &= ~(1 << (a % 8)) & 0xff
        yp, fs.yield_point = fs.yield_point, (lambda *a, **k: None)    # set-up, no process yet
        try:
            fs.makedirs("/run/ebpf", exist_ok=True)
            fd = fs.open(MAP, real_os.O_CREAT | real_os.O_RDWR)
            fs.pwrite(fd, bytes(bitmap), 0)
            fs.close(fd)
        finally:
            fs.yield_point = yp
        env.collide.pop("rand/lock", None)       # uniform draws: the pools are all taken
        world.count("c23/map-crowded-at-start")

    def viol(rule, detail, **params):
        if not violations:
            violations.append({"rule": rule, "params": params, "detail": detail})

    def observer(p, label):
        live = {u: st for u, st in state.items() if st.get("inside")}
        if len(live) >= 2:
            overlap[0] = True
        wins = sorted((a, u) for u, st in live.items() for a in st["addrs"])
        for (a0, u0), (a1, u1) in zip(wins, wins[1:]):
            if a0 == a1 and u0 != u1:
                viol("fmmu-window-shared", f"logical address {a0:#x} handed to participants "
                     f"{u0} and {u1} (at {label} of p{p.pid}; last fs ops {fs.oplog[-8:]})")
            elif a0 == a1:
                viol("fmmu-window-repeated", f"logical address {a0:#x} handed out twice to "
                     f"participant {u0}")
        bases = sorted((st["base"] >> 22, u) for u, st in live.items())
        for (b0, u0), (b1, u1) in zip(bases, bases[1:]):
            if b0 == b1:
                viol("fmmu-base-shared", f"participants {u0} and {u1} both own FMMU base "
                     f"window {b0} (at {label} of p{p.pid}; last fs ops {fs.oplog[-8:]})")
    sched.observer = observer

    def participant(u):
        rounds = 1 + tape.draw("c23/rounds", 3)
        stays = [[1e-3, 5e-3, 20e-3, 60e-3][tape.draw("c23/stay", 4)] for _ in range(rounds)]
        gaps = [[0, 1e-3, 10e-3][tape.draw("c23/gap", 3)] for _ in range(rounds)]
        start = [0, 0, 1e-3, 10e-3, 30e-3][tape.draw("c23/start", 5)]
        nwin = 1 + tape.draw("c23/nwin", 4)

        async def main(loop):
            await asyncio.sleep(start)
            for r in range(rounds):
                try:
                    em.os.makedirs("/run/lock", exist_ok=True)
                    mine = f"u{u}.{r}"
                    for attempt in range(8):
                        tmpdir = em.tempfile.mkdtemp(dir="/run/lock")
                        with em.open(f"{tmpdir}/{mine}", "x") as f:
                            f.write("x")
                        try:
                            em.os.rename(tmpdir, LOCKDIR)
                            break
                        except OSError:
                            em.shutil.rmtree(tmpdir)
                        try:
                            with em.open(f"{LOCKDIR}/{mine}", "x") as f:
                                f.write("x")
                            break
                        except FileNotFoundError:
                            # the last one just left and took the directory with it:
                            # (run() would fail here; a user would simply try again)
                            world.count("c23/join-retried")
                    else:
                        raise RuntimeError("could not register in 8 attempts")
                    lock = FMMULock(MAP)
                    st = state[u] = dict(inside=True, base=lock.base_addr, addrs=[])
                    for _ in range(nwin):
                        st["addrs"].append(lock.get_next_addr())
                    await asyncio.sleep(stays[r])
                    st["inside"] = False
                    em.os.remove(f"{LOCKDIR}/{mine}")
                    try:
                        em.os.rmdir(LOCKDIR)
                    except OSError:
                        pass
                    else:
                        lock.remove()
                    outcomes[(u, r)] = "ok"
                except Exception as e:
                    if u in state:
                        state[u]["inside"] = False
                    outcomes[(u, r)] = f"{type(e).__name__}: {e}"
                await asyncio.sleep(gaps[r])
        return main

    procs = {}
    aborted = None
    with env:
        try:
            for u in range(nproc):
                procs[u] = sched.spawn(f"part{u}", participant(u))
            aborted = sched.run()
        except SimStall as e:
            viol("did-not-finish", str(e))
    if aborted:
        viol("did-not-finish", aborted, scenario="fmmu-files")
    for p in procs.values():
        if p.exc is not None and type(p.exc).__name__ not in ("SimKilled",):
            viol("participant-died", f"{p.name}: {type(p.exc).__name__}: {p.exc}",
                 exception=type(p.exc).__name__)
    for (u, r), v in sorted(outcomes.items()):
        if v != "ok":
            viol("participant-failed", f"participant {u} round {r}: {v}",
                 exception=v.split(":")[0], teardown_race=False)
    trace = tuple(sched.trace)
    return {
        "violations": violations, "stats": dict(world.counters),
        "digest": world.digest.hexdigest(), "sim_time": world.now,
        "schedule": repr(trace), "nontrivial": overlap[0],
        "sample": {"scenario": "fmmu-files", "participants": nproc,
                   "outcomes": {f"{u}.{r}": v for (u, r), v in outcomes.items()},
                   "fs_ops": [(a, b) + tuple(str(x) for x in c[:2]) for a, b, *c in fs.oplog[:30]],
                   "process_switches": len(trace)},
    }


def run(tape, scenario):
    if scenario == "fmmu-files":
        return run_fmmu_files(tape)
    from ebpfcat.ebpfcat import ParallelEtherCat

    env = Env(tape, with_kernel=True, with_fs=True,
              faults=WireFaults(delay_buckets=(50e-6,)))
    world, bus, kernel, fs = env.world, env.bus, env.kernel, env.fs
    sched = env.use_scheduler(preempt_bound=tape.draw("sched/bound", 7),
                              preempt_den=[3, 6, 12][tape.draw("sched/den", 3)])
    sched.stall_rate = [0, 20, 50][tape.draw("cfg/stall-rate", 3)]
    sched.stall_anywhere = tape.pick("cfg/stall-anywhere", [0, 0, 10, 30])
    if tape.chance("cfg/long-stalls", 35):
        # a node that is slow for longer than the 0.1 s a joiner waits for the program table
        sched.stall_times = (1e-3, 30e-3, 150e-3, 400e-3)
    nproc = 2 + tape.draw("c23/nproc", 2)
    if scenario == "crash":
        sched.crash_rate = [1, 3, 8][tape.draw("cfg/crash-rate", 3)]
        sched.crashes_left = 1
        if tape.chance("cfg/crash-in-the-last-leavers-cleanup", 35):
            # the crash is placed in the tail of the stop protocol: the last leaver has
            # freed the lock directory and dies before (or while) it removes the rest
            sched.crash_rate = 0

            def in_cleanup(p, label):
                ops = [o for o in fs.oplog[-6:] if o[0] == p.pid]
                return bool(ops) and any(o[1] == "rmdir" and o[2] == LOCKDIR for o in ops) \
                    and tape.chance("fault/crash-in-cleanup", 40)
            sched.crash_when = in_cleanup
    violations = []
    state = {}           # u -> dict(inside, ethertype, addrs, pid)
    outcomes = {}
    overlap = [False]
    installers = {}      # pid -> True between rename-success and pin

    DISPATCHER_RULES = ("dispatcher-not-attached", "program-table-not-reachable",
                        "pinned-table-is-not-the-dispatchers", "participant-holds-another-table")

    def viol(rule, detail, **params):
        v = {"rule": rule, "params": params, "detail": detail}
        if not violations:
            violations.append(v)
        elif len(violations) == 1 and violations[0]["rule"] in DISPATCHER_RULES \
                and violations[0]["params"].get("teardown_race") \
                and rule in ("ethertype-shared", "fmmu-window-shared", "fmmu-window-repeated",
                             "fmmu-base-shared"):
            # the open finding (teardown race) says nothing about ethertypes and logical
            # windows: those stay under judgement in such a run, and are reported first
            violations.insert(0, v)

    seen_ops = [0]

    def observer(p, label):
        # (a) installer window, from the file system log
        for pid, op, *args in fs.oplog[seen_ops[0]:]:
            if op == "rename" and args[1] == LOCKDIR:
                installers[pid] = True
            elif op == "bpf_pin":
                installers.pop(pid, None)
            elif op == "rmtree" and args[0] == LOCKDIR:
                installers.pop(pid, None)
        seen_ops[0] = len(fs.oplog)
        live_installers = [pid for pid in installers
                           if any(q.pid == pid and q.state not in ("exited", "crashed")
                                  for q in sched.procs)]
        if len(live_installers) > 1:
            viol("two-installers", f"processes {live_installers} are both between "
                 f"'became installer' and 'pinned the table' (at {label})")
        inside = [u for u, st in state.items() if st.get("inside")
                  and not st.get("dead")]
        if len(inside) >= 2:
            overlap[0] = True
        if inside:
            prog = kernel.xdp.get(bus.ifindex)
            if prog is None:
                viol("dispatcher-not-attached",
                     f"participants {inside} are inside run() but no XDP program is attached "
                     f"(at {label} of p{p.pid}; last fs ops {fs.oplog[-6:]})",
                     crash=scenario == "crash", teardown_race=teardown_race(),
                     install_over_emptied=install_over_emptied())
            else:
                try:
                    node = fs._lookup(PIN)
                    pinned = node.obj if node.kind == "bpf" else None
                except OSError:
                    pinned = None
                if pinned is None:
                    viol("program-table-not-reachable",
                         f"participants {inside} are inside run() but {PIN} does not resolve "
                         f"(at {label} of p{p.pid}; last fs ops {fs.oplog[-6:]})",
                         crash=scenario == "crash", teardown_race=teardown_race(),
                     install_over_emptied=install_over_emptied())
                elif pinned not in prog.used_maps:
                    viol("pinned-table-is-not-the-dispatchers",
                         f"participants {inside}: the pinned table is not the program table "
                         f"of the attached dispatcher", crash=scenario == "crash",
                         teardown_race=teardown_race(),
                         install_over_emptied=install_over_emptied())
                else:
                    # "reachable": the table each participant holds (and registers its sync
                    # groups in) is the one the attached dispatcher consults
                    for u in inside:
                        try:
                            mine = kernel.obj(state[u]["table"])
                        except Exception:
                            mine = None
                        if mine is not None and mine not in prog.used_maps:
                            viol("participant-holds-another-table",
                                 f"participant {u} is inside run() with a program table that "
                                 f"is not the attached dispatcher's (at {label} of p{p.pid}; "
                                 f"last fs ops {fs.oplog[-6:]})", crash=scenario == "crash",
                                 teardown_race=teardown_race(),
                                 install_over_emptied=install_over_emptied())
        ets = [(st["ethertype"], u) for u, st in state.items() if st.get("inside")]
        if len({e for e, _ in ets}) != len(ets):
            viol("ethertype-shared", f"live participants' ethertypes {ets}")
        wins = sorted((a, u) for u, st in state.items() if st.get("inside")
                      for a in st.get("addrs", []))
        for (a0, u0), (a1, u1) in zip(wins, wins[1:]):
            if a0 == a1 and u0 != u1:
                viol("fmmu-window-shared", f"logical address {a0:#x} handed to participants "
                     f"{u0} and {u1}")
            elif a0 == a1:
                viol("fmmu-window-repeated", f"logical address {a0:#x} handed out twice to "
                     f"participant {u0}")
        bases = sorted((st["base"] >> 22, u) for u, st in state.items()
                       if st.get("inside") and "base" in st)
        for (b0, u0), (b1, u1) in zip(bases, bases[1:]):
            if b0 == b1:
                viol("fmmu-base-shared", f"participants {u0} and {u1} both own FMMU base "
                     f"window {b0}")
    sched.observer = observer
    orig_attach = kernel.attach_xdp

    def attach_xdp(ifindex, fd):
        fs.oplog.append((kernel.current_pid, "xdp-attach" if fd >= 0 else "xdp-detach"))
        return orig_attach(ifindex, fd)
    kernel.attach_xdp = attach_xdp

    def install_over_emptied():
        """did a participant become installer by renaming its directory onto the lock
        directory that a leaver had just emptied but not yet removed (between its
        os.remove of its own file and its os.rmdir)? The dispatcher and the pinned table are
        still installed then, and whoever joined meanwhile holds the old table"""
        return any(op == "rename-over-empty-dir" and args[0] == LOCKDIR
                   for pid, op, *args in fs.oplog)

    def teardown_race():
        """did a participant become installer between another one's successful
        rmdir of the lock directory and that one's detach/unpin?"""
        pending = {}
        for pid, op, *args in fs.oplog:
            if op == "rmdir" and args[0] == LOCKDIR:
                pending[pid] = True
            elif op in ("xdp-detach",) and pid in pending:
                pass
            elif op == "remove" and args[0] == PIN and pid in pending:
                del pending[pid]
            elif op == "rename" and args[1:] == [LOCKDIR] and any(q != pid for q in pending):
                return True
        return False

    def participant(u):
        rounds = 1 + (tape.draw("c23/rounds", 3) if scenario == "churn" else 0)
        stays = [[2e-3, 10e-3, 40e-3, 120e-3][tape.draw("c23/stay", 4)] for _ in range(rounds)]
        start = [0, 0, 1e-3, 20e-3, 60e-3][tape.draw("c23/start", 5)]
        nwin = 1 + tape.draw("c23/nwin", 8)

        reuse = tape.chance("c23/same-master-object-for-all-rounds", 40)

        async def main(loop):
            await asyncio.sleep(start)
            ec = None
            for r in range(rounds):
                if ec is None or not reuse:
                    ec = ParallelEtherCat("sim0")
                ec.ethertype = 0x3000 + tape.draw("c23/ethertype", 4)    # collisions wanted
                try:
                    async with ec.run():
                        st = state[u] = dict(inside=True, ethertype=ec.ethertype,
                                             base=ec.fmmu_lock_file.base_addr, addrs=[],
                                             table=ec.programs)
                        for _ in range(nwin):
                            st["addrs"].append(ec.get_fmmu_addr())
                        await asyncio.sleep(stays[r])
                        st["inside"] = False
                    outcomes[(u, r)] = "ok"
                except Exception as e:
                    if u in state:
                        state[u]["inside"] = False
                    outcomes[(u, r)] = f"{type(e).__name__}: {e}"
                await asyncio.sleep([0, 1e-3, 15e-3][tape.draw("c23/gap", 3)])
        return main

    def crashed(pid):
        for u, p in procs.items():
            if p.pid == pid and u in state:
                state[u]["dead"] = True
    sched.on_crash.append(crashed)
    # bias the FMMULock base draw towards collisions
    # (per run: a small pool of window numbers, within one byte of the map or across two,
    # and how often a draw comes from it - a re-draw after a collision then tends to hit
    # the neighbour's number or the number somebody is about to draw)
    pool = tape.pick("cfg/fmmu-pool", [[1, 2, 3], [1, 2], [7, 8], [8, 9, 15], [6, 7, 8, 9]])
    pool_rate = tape.pick("cfg/fmmu-pool-rate", [50, 70, 85])
    env.collide["rand/lock"] = lambda a, b: (
        tape.pick("c23/fmmu-collide", pool) if tape.chance("c23/collide", pool_rate) else None)

    procs = {}
    aborted = None
    with env:
        try:
            for u in range(nproc):
                procs[u] = sched.spawn(f"part{u}", participant(u),
                                       crashable=scenario == "crash")
            aborted = sched.run()
        except SimStall as e:
            viol("did-not-finish", str(e))
        for m, tn, txt in env.loop_exceptions():
            if tn is None and str(m).startswith("Task was destroyed"):
                # a master object that enters run() again starts a second send loop and drops
                # the first (still pending) one: untidy, but not what this property is about
                world.count("c23/earlier-sendloop-dropped-while-pending")
                continue
            if tn not in ("CancelledError",):
                viol("library-task-died", f"{m}: {tn}: {txt}", exception=tn)
    if aborted:
        viol("did-not-finish", aborted, scenario=scenario)
    for p in procs.values():
        if p.exc is not None and type(p.exc).__name__ not in ("SimKilled",):
            viol("participant-died", f"{p.name}: {type(p.exc).__name__}: {p.exc}",
                 exception=type(p.exc).__name__)
    failed = {k: v for k, v in outcomes.items() if v != "ok"}
    for (u, r), v in sorted(failed.items()):
        world.count("c23/participant-could-not-run")
        # not being able to join (the installer has not pinned the table within the
        # 0.1 s the code waits, or the table vanished in the teardown race) is an
        # availability matter the property does not speak about
        if scenario != "crash" and not v.startswith("FileNotFoundError"):
            viol("participant-failed", f"participant {u} round {r}: {v}",
                 exception=v.split(":")[0], teardown_race=teardown_race())
    trace = tuple(sched.trace)
    return {
        "violations": violations, "stats": dict(world.counters),
        "digest": world.digest.hexdigest(), "sim_time": world.now,
        "schedule": repr(trace), "nontrivial": overlap[0] or len(trace) > 2 * nproc,
        "sample": {"scenario": scenario, "participants": nproc,
                   "outcomes": {f"{u}.{r}": v for (u, r), v in outcomes.items()},
                   "fs_ops": [(a, b) + tuple(str(x) for x in c[:2]) for a, b, *c in fs.oplog[:30]],
                   "process_switches": len(trace)},
    }
