"""Workload shared by C12 (request/response matching), C13 (field encoding) and
C11 (frame well-formedness): concurrent `EtherCat.roundtrip` clients on the
simulated bus, with wire faults, unprocessed datagrams and cancellations.

Real code: ebpfcat.ethercat.EtherCat (connect, connection_made, sendloop,
process_packet, roundtrip_packet, roundtrip, datagram_received), Packet.
Stub: event loop, socket, wire, terminals (plain-memory ESCs).
"""
import asyncio
import struct

from sim.bus import (APRD, BRD, FPRD, FPWR, FrameError, SimTerminal, WireFaults,
                     parse_ecat)
from sim.loop import SimDeadlock, SimStall
from sim.seams import Env

MAXSIZE = 1500


def wire_check(frame):
    """C11 structural oracle on one transmitted Ethernet frame; returns
    (error or None, datagrams)"""
    if len(frame) < 60:
        return f"frame of {len(frame)} bytes is below the Ethernet minimum of 60", None
    if len(frame) > 14 + MAXSIZE:
        return f"frame of {len(frame)} bytes exceeds 14+{MAXSIZE}", None
    payload = frame[14:]
    try:
        length, ftype, dgrams = parse_ecat(payload, strict=True)
    except FrameError as e:
        return f"unparseable: {e}", None
    used = 2 + length
    if used < len(payload) and len(frame) != 60:
        return (f"header length {length} but payload has {len(payload) - 2} bytes "
                f"and the frame is not minimum-size padding"), dgrams
    d0 = dgrams[0]
    if d0.cmd != 0 or d0.length != 2:
        return f"first datagram is not the NOP identification datagram: {d0}", dgrams
    return None, dgrams


class PacketRecorder:
    """records Packet.append / assemble calls (harness-side wrapper, no source
    change) so the wire monitor can check reported positions"""

    def __init__(self, patches):
        import ebpfcat.ethercat as ethercat
        self.by_bytes = {}
        rec = self
        orig_append = ethercat.Packet.append
        orig_assemble = ethercat.Packet.assemble

        def append(pkt, cmd, data, idx, *address, wkc=0):
            ret = orig_append(pkt, cmd, data, idx, *address, wkc=wkc)
            pkt.__dict__.setdefault("_verif_log", []).append(
                (cmd.value, bytes(data), idx, address, wkc, ret))
            return ret

        def assemble(pkt, index, ethertype=0x88A4):
            out = orig_assemble(pkt, index, ethertype)
            rec.by_bytes[bytes(out)] = (list(pkt.__dict__.get("_verif_log", [])),
                                        index, ethertype)
            return out

        patches.set(ethercat.Packet, "append", append)
        patches.set(ethercat.Packet, "assemble", assemble)

    def check(self, frame, dgrams):
        """compare the frame with what Packet.append was told and reported"""
        rec = self.by_bytes.get(frame[14:])
        if rec is None:
            return None
        log, index, ethertype = rec
        if len(dgrams) != len(log) + 1:
            return f"{len(log)} datagrams appended but {len(dgrams) - 1} on the wire"
        d0 = dgrams[0]
        if d0.addr != index & 0xffffffff:
            return f"identification datagram carries {d0.addr}, index is {index}"
        if frame[14 + d0.data_pos:14 + d0.data_pos + 2] != struct.pack("<H", ethertype):
            return "identification datagram does not carry the ethertype"
        for k, (d, (cmd, data, idx, address, wkc, (start, stop))) in enumerate(
                zip(dgrams[1:], log)):
            if d.cmd != cmd or d.idx != idx or d.length != len(data):
                return (f"datagram {k}: wire {d} vs appended cmd={cmd} idx={idx} "
                        f"len={len(data)}")
            if len(address) == 2:
                want = (address[0] & 0xffff) | ((address[1] & 0xffff) << 16)
            else:
                want = address[0] & 0xffffffff
            if d.addr != want:
                return f"datagram {k}: address {d.addr:#x}, appended {want:#x}"
            if d.more != (k < len(log) - 1):
                return f"datagram {k}: more flag {d.more}"
            if (start, stop) != (d.data_pos, d.wkc_pos):
                return (f"datagram {k}: append reported data at {start}:{stop}, "
                        f"it is at {d.data_pos}:{d.wkc_pos}")
            if frame[14 + start:14 + stop] != data:
                return f"datagram {k}: data differs at the reported position"
            if struct.unpack_from("<H", frame, 14 + stop)[0] != wkc:
                return f"datagram {k}: working counter preset differs"
        if not dgrams[0].more and len(dgrams) > 1:
            return "identification datagram lacks the more flag"
        return None


class Req:
    __slots__ = ("master", "rid", "client", "cmd", "pos", "off", "idx", "payload", "args",
                 "data", "size", "fits", "submit_seq", "outcome", "value",
                 "cancel_kind", "wire", "done_seq", "short_timeout", "expect_fmt")


def independent_pack(args, data):
    """C13 reference encoding: little-endian struct of formats with values,
    a trailing value-less format as zeros, then raw data / zero count"""
    out = b""
    i = 0
    fmts = []
    while i < len(args):
        fmt = args[i]
        n = len(struct.unpack("<" + fmt, bytes(struct.calcsize("<" + fmt))))
        vals = args[i + 1:i + 1 + n]
        if i == len(args) - 1:          # trailing format without values
            out += bytes(struct.calcsize("<" + fmt))
            fmts.append(fmt)
            break
        out += struct.pack("<" + fmt, *vals)
        fmts.append(fmt)
        i += 1 + n
    if isinstance(data, int):
        out += bytes(data)
    elif data is not None:
        out += data
    return out, fmts


def independent_unpack(fmts, raw, data):
    pos = 0
    vals = []
    for fmt in fmts:
        sz = struct.calcsize("<" + fmt)
        vals.extend(struct.unpack_from("<" + fmt, raw, pos))
        pos += sz
    if data is None:
        return tuple(vals)
    if not fmts:
        return raw
    return tuple(vals) + (raw[pos:],)


FMT_POOL = ["B", "H", "I", "Q", "b", "h", "i", "q", "HB", "H2xH", "4s", "BBH", "IH",
            "f", "d", "?", "Hf",
            "0I", "0s", "3x", "0H"]     # formats that occupy no bytes, or carry no value
BIG_FMTS = ["1025s", "1300s", "1024s", "300I", "700H"]     # large areas, read in one go
FLOATS = [0.0, -0.0, 1.5, -2.25, 1024.0, -0.0, 0.0]


def gen_args(tape):
    """draw an argument shape for roundtrip: (args tuple, data)"""
    args = []
    nf = tape.draw("c13/nfmt", 4)
    trailing = nf > 0 and tape.chance("c13/trailing", 30)
    big = tape.chance("c13/big-area", 8)
    for k in range(nf):
        fmt = tape.pick("c13/fmt", FMT_POOL)
        if big and k == nf - 1:
            fmt = tape.pick("c13/big-fmt", BIG_FMTS)
        args.append(fmt)
        if trailing and k == nf - 1:
            break
        probe = struct.unpack("<" + fmt, bytes(struct.calcsize("<" + fmt)))
        for j, p in enumerate(probe):
            if isinstance(p, bytes):
                args.append(tape.bytes("c13/val-bytes", min(len(p), 8)) + bytes(
                    (i * 13 + 5) & 0xff for i in range(max(0, len(p) - 8))))
            elif isinstance(p, bool):
                args.append(bool(tape.draw("c13/val-bool", 2)))
            elif isinstance(p, float):
                args.append(tape.pick("c13/val-float", FLOATS))
            else:
                c = [c for c in "".join(ch * int(n or 1) for n, ch in
                                        __import__("re").findall(r"(\d*)([a-zA-Z?])", fmt))
                     if c not in "xs"][j] if fmt[0].isdigit() else \
                    [c for c in fmt if c not in "x0123456789s"][j]
                bits = 8 * struct.calcsize("<" + c)
                v = tape.draw("c13/val", 1 << min(bits, 32))
                if bits > 32:
                    v = (v << 32) | tape.draw("c13/val-hi", 1 << (bits - 32))
                if c.islower():
                    v -= 1 << (bits - 1)
                args.append(v)
    kind = tape.draw("c13/data-kind", 5)
    if big and nf == 0:
        data = tape.pick("c13/big-count", [1025, 1100, 1400, 1024])     # a large zero count
    elif big:
        data = None
    elif kind == 0:
        data = None
    elif kind == 1:
        data = tape.bytes("c13/data", 1 + tape.draw("c13/datalen", 12))
    elif kind == 2:
        data = 1 + tape.draw("c13/datacount", 12)
    elif kind == 3:
        data = b""
    else:
        data = 0
    return tuple(args), data


def run_workload(tape, *, faults=True, fmt_args=False, oversize=True, cancels=True,
                 fast_master=False):
    """returns (violations, stats, digest, sim_time, schedule, sample, nontrivial)

    fast_master: the master is a FastEtherCat, i.e. every returning frame passes the real
    EtherXDP dispatcher (generated byte code in the kernel stub) on its way to the socket"""
    from ebpfcat.ethercat import ECCmd, EtherCat, EtherCatError

    wf = WireFaults()
    if faults:
        kinds = tape.draw("cfg/fault-kinds", 16)      # swarm: subset of kinds
        wf.loss = [0, 3, 10][tape.draw("cfg/loss", 3)] if kinds & 1 else 0
        wf.dup = [0, 5, 20][tape.draw("cfg/dup", 3)] if kinds & 2 else 0
        wf.reorder = [0, 10, 40][tape.draw("cfg/reorder", 3)] if kinds & 4 else 0
        skip_rate = [0, 5, 25][tape.draw("cfg/skip", 3)] if kinds & 8 else 0
        wf.delay_buckets = (50e-6, 20e-6, 200e-6, 1e-3)
    else:
        skip_rate = 0
        wf.delay_buckets = (50e-6, 20e-6, 200e-6)
    env = Env(tape, faults=wf, with_kernel=fast_master)
    world = env.world
    bus = env.bus
    # (an interface configured for jumbo frames: an EtherCAT frame is 1500 bytes all the same)
    bus.mtu = tape.pick("cfg/interface-mtu", [1500, 1500, 1500, 9000, 4000])
    stations = [1001, 1002, 1003]
    for k, st in enumerate(stations):
        t = bus.add_terminal(SimTerminal(bus, f"T{k}", station=st, n_sm=0, n_fmmu=0))
        for a in range(0x1000, 0x10000):
            t.mem[a] = (a * 7 + k * 31 + (a >> 8)) & 0xff
        if skip_rate:
            t.skip_datagram = lambda d, r=skip_rate: tape.chance("fault/skip-datagram", r)

    n_clients = 1 + tape.draw("wl/clients", 8)
    reqs = []            # all requests in creation order
    violations = []
    used_ids = set()
    submit_counter = [0]
    wire_seen = {}       # identity -> list of (frame_no, datagram index)
    frames = {}          # frame_no -> list of (identity, data_pos, length, wkc_pos)
    delivered = {}       # frame_no -> rx frame (first delivery)
    wire_order = []
    tx_data = {}

    def viol(rule, detail, **params):
        violations.append({"rule": rule, "params": params, "detail": detail})

    def tx_monitor(no, frame, transport):
        err, dgrams = wire_check(frame)
        if err is not None:
            viol("frame-malformed", f"frame {no}: {err}: {frame[:64].hex()}")
        if dgrams is None:
            return
        err = recorder.check(frame, dgrams)
        if err is not None:
            viol("frame-position-mismatch", f"frame {no}: {err}")
        lst = []
        for k, d in enumerate(dgrams[1:]):
            ident = (d.cmd, d.idx, d.addr, d.length)
            wire_seen.setdefault(ident, []).append((no, k))
            tx_data.setdefault(ident, frame[14 + d.data_pos:14 + d.data_pos + d.length])
            wire_order.append(ident)
            lst.append((ident, d.data_pos, d.length, d.wkc_pos))
        frames[no] = lst
        world.count("wl/frames")
        world.count(f"wl/frame-dgrams-{min(len(lst), 15)}")
        if len(frame) > 14 + MAXSIZE - 40:
            world.count("probe/frame-near-maxsize")

    def rx_monitor(stage, no, frame, n=None, *rest):
        if stage == "deliver" and no not in delivered and n:
            delivered[no] = frame
        if stage == "xdp" and rest:
            # fast master without sync groups: every frame of this workload has to be
            # handed to user space by the dispatcher; one that goes back onto the bus is
            # executed a second time by the terminals
            action = rest[0]
            if action == 3:
                world.count("xdp/request-frame-retransmitted")
                viol("sent-more-than-once", f"frame {no}: the dispatcher sent a request frame "
                     f"back onto the bus (its datagrams are executed twice)")
            elif action != 2:
                viol("never-completed", f"frame {no}: the dispatcher ended with action "
                     f"{action}: the frame never reaches the master")

    bus.monitors.append(tx_monitor)
    bus.rx_monitors.append(rx_monitor)

    cmd_map = {FPRD: "FPRD", FPWR: "FPWR", APRD: "APRD", BRD: "BRD"}

    def new_request(client):
        r = Req()
        r.rid = len(reqs)
        r.client = client
        r.cmd = tape.pick("wl/cmd", [FPRD, FPWR, FPRD, APRD, BRD])
        if r.cmd == APRD:
            r.pos = -tape.draw("wl/appos", 5)          # 0..-4: last two do not exist
        elif r.cmd == BRD:
            r.pos = 0
        else:
            r.pos = tape.pick("wl/station", stations + [2000])   # 2000 does not exist
        r.args, r.data = (), None
        if fmt_args:
            r.args, r.data = gen_args(tape)
            r.payload, r.expect_fmt = independent_pack(r.args, r.data)
            r.size = len(r.payload)
        else:
            sk = tape.draw("wl/size-kind", 10)
            if sk < 5:
                r.size = tape.draw("wl/size-small", 40)
            elif sk < 7:
                r.size = 40 + tape.draw("wl/size-mid", 300)
            elif sk < 9:
                r.size = [1472, 1471, 1460, 1400, 730, 731, 729, 486][
                    tape.draw("wl/size-edge", 8)]
            else:
                r.size = 1473 + tape.draw("wl/size-over", 100) if oversize else 0
            r.expect_fmt = []
            if tape.chance("wl/data-as-count", 30):
                r.data = r.size
                r.payload = bytes(r.size)
            else:
                r.payload = tape.bytes("wl/payload", min(r.size, 6)) \
                    + bytes(max(0, r.size - 6))
                r.data = r.payload
                if r.size and tape.chance("wl/payload-in-a-bytearray", 15):
                    r.data = bytearray(r.payload)
        r.fits = 16 + 12 + r.size <= MAXSIZE
        # unique identity (cmd, idx, addr, len) on the wire
        for _ in range(1000):
            r.idx = tape.draw("wl/idx", 256)
            r.off = 0x1000 + tape.draw("wl/off", 0x8000)
            addr = (r.pos & 0xffff) | (r.off << 16)
            ident = (r.cmd, r.idx, addr, r.size)
            if ident not in used_ids:
                used_ids.add(ident)
                break
        r.wire = ident
        r.outcome = None
        r.value = None
        r.cancel_kind = None
        r.submit_seq = None
        r.done_seq = None
        r.short_timeout = None
        reqs.append(r)
        return r

    HARNESS_TIMEOUT = 0.5
    if fast_master:
        from ebpfcat.ebpfcat import FastEtherCat
        ec = FastEtherCat("sim0")
    else:
        ec = EtherCat("sim0")

    # (with a second master on the interface the index draws are left alone: an index one
    # master has under way is as good as any other for the other master, 1 in 10**9)
    second = [None]
    second_master = not fast_master and n_clients >= 2 and tape.chance("wl/second-master", 25)
    # the packet index is a 30-bit random number; bias the draw towards indices that are
    # still in flight so that the collision retry of roundtrip_packet is exercised, and
    # (behind the dispatcher) towards indices that look like a sync group's slot number in
    # their low 6, 8 or 16 bits
    def collide(a, b):
        if (a, b) == (2000, 1000000000) and ec.wait_futures and not second_master and \
                tape.chance("collide/packet-index", 15):
            world.count("probe/packet-index-collision-offered")
            keys = sorted(ec.wait_futures)
            return keys[tape.draw("collide/which", len(keys))]
        if (a, b) == (2000, 1000000000) and fast_master and \
                tape.chance("collide/index-looks-like-a-slot", 10):
            world.count("probe/packet-index-with-slot-like-low-bits")
            shift = tape.pick("collide/slot-shift", [16, 8, 6, 24])
            v = ((1 + tape.draw("collide/slot-hi", 1000)) << shift) | tape.draw("collide/slot-lo", 64)
            return v if a <= v <= b else None
        return None
    env.collide["rand/ethercat"] = collide
    client_tasks = []
    stalled = []

    def reuse_buffer(buf):
        """the application handed over a bytearray and reuses it as soon as the request is
        made: what goes onto the wire is what it held when roundtrip() was called"""
        if tape.chance("wl/buffer-shortened", 25):
            del buf[len(buf) // 2:]
        else:
            for i in range(len(buf)):
                buf[i] ^= 0x5a
        world.count("wl/payload-buffer-reused-after-the-request-was-made")

    async def do_request(r):
        submit_counter[0] += 1
        r.submit_seq = submit_counter[0]
        world.log("client", "submit", r.rid, r.wire)
        cmd = ECCmd(r.cmd)
        kwargs = {"idx": r.idx}
        if r.data is not None:
            kwargs["data"] = r.data
        coro = r.master.roundtrip(cmd, r.pos, r.off, *r.args, **kwargs)
        if isinstance(r.data, bytearray):
            # (runs once this task yields, i.e. after roundtrip() has queued the request)
            asyncio.get_event_loop().call_soon(reuse_buffer, r.data)
        try:
            if r.short_timeout is not None:
                try:
                    val = await asyncio.wait_for(coro, r.short_timeout)
                except asyncio.TimeoutError:
                    r.outcome, r.cancel_kind = "cancelled", "short-timeout"
                    return
            else:
                try:
                    val = await asyncio.wait_for(coro, HARNESS_TIMEOUT)
                except asyncio.TimeoutError:
                    r.outcome, r.cancel_kind = "cancelled", "harness-timeout"
                    return
            r.outcome, r.value = "value", val
        except EtherCatError as e:
            r.outcome, r.value = "ethercat-error", str(e)
        except asyncio.CancelledError:
            r.outcome, r.cancel_kind = "cancelled", "client-cancel"
            raise
        except Exception as e:
            r.outcome, r.value = "exception", f"{type(e).__name__}: {e}"
        finally:
            r.done_seq = world.log("client", "done", r.rid, r.outcome)

    async def client(cid):
        n = 1 + tape.draw("wl/nreq", 12 if n_clients > 4 else 30)
        master = second[0] if second[0] is not None and cid % 2 else ec
        for _ in range(n):
            pause = tape.draw("wl/pause", 6)
            if pause == 1:
                await asyncio.sleep(0)
            elif pause >= 2:
                await asyncio.sleep([0, 0, 20e-6, 100e-6, 400e-6, 2e-3][pause])
            r = new_request(cid)
            r.master = master
            if cancels and tape.chance("cancel/short-timeout", 8):
                r.short_timeout = [0, 30e-6, 60e-6, 100e-6, 250e-6][
                    tape.draw("cancel/timeout", 5)]
            burst = tape.draw("wl/burst", 4) == 3
            if burst:
                # several requests submitted in the same loop iteration
                rs = [r] + [new_request(cid) for _ in range(1 + tape.draw("wl/burstn", 16))]
                for x in rs:
                    x.master = master
                await asyncio.gather(*[do_request(x) for x in rs])
            else:
                await do_request(r)

    async def main(loop):
        await ec.connect()
        if second_master:
            # another program's master on the same interface (a diagnostic tool): its
            # frames reach our socket as ours reach its
            second[0] = EtherCat("sim0")
            await second[0].connect()
            world.count("wl/second-master-on-the-interface")
        for cid in range(n_clients):
            client_tasks.append(asyncio.ensure_future(client(cid)))
        if cancels:
            for cid, t in enumerate(client_tasks):
                if tape.chance("cancel/client", 15):
                    delay = [50e-6, 150e-6, 400e-6, 1e-3, 3e-3][tape.draw("cancel/when", 5)]
                    loop.call_later(delay, t.cancel)
        await asyncio.wait(client_tasks, timeout=30.0)
        wf.enabled = False                  # faults stop
        await asyncio.sleep(0.05)           # drain the wire
        for t in client_tasks:
            if not t.done():
                t.cancel()
        await asyncio.sleep(0.01)

    recorder = None
    harness_note = None
    with env:
        recorder = PacketRecorder(env.patches)
        try:
            env.run(main)
        except SimStall as e:
            stalled.append(str(e))
        except SimDeadlock as e:
            harness_note = str(e)
        if env.stall is not None and env.stall.fired and not stalled:
            stalled.append(env.stall.fired)
        loop_exceptions = env.loop_exceptions()
        logs = list(env.logcap.records)

    # ---------------- oracles over the recorded history ----------------
    stats = world.counters
    submitted = [r for r in reqs if r.submit_seq is not None]
    stats["wl/requests"] += len(submitted)
    never_fit = [r for r in submitted if not r.fits]
    if never_fit:
        stats["probe/never-fit-request"] += len(never_fit)
    if stalled:
        if never_fit:
            viol("never-fit-stalls-master",
                 f"sendloop spun without yielding ({stalled[0]}) with a request of "
                 f"{never_fit[0].size} bytes queued", kind="stall")
        else:
            viol("master-stalled", f"{stalled[0]} without any never-fitting request")
        return finish(env, violations, reqs, submitted, n_clients)

    # task deaths / foreign exceptions seen by the loop exception handler
    for msg, tname, text in loop_exceptions:
        if tname in ("CancelledError",):
            continue
        viol("library-task-died", f"{msg}: {tname}: {text}", exception=tname)
        break

    sub_order = [r.wire for r in sorted(submitted, key=lambda r: r.submit_seq)]
    pos_in_wire = {}
    for i, ident in enumerate(wire_order):
        pos_in_wire.setdefault(ident, []).append(i)
    by_ident = {r.wire: r for r in submitted}

    for r in submitted:
        seen = wire_seen.get(r.wire, [])
        cancelled_early = r.outcome == "cancelled"
        if not r.fits:
            if seen:
                viol("never-fit-sent", f"request {r.rid} of {r.size} bytes was sent")
            if r.outcome == "value":
                viol("never-fit-completed", f"request {r.rid}: {r.outcome}")
            elif r.outcome == "cancelled" and r.cancel_kind == "harness-timeout":
                viol("never-fit-pending",
                     f"request {r.rid} of {r.size} bytes neither failed nor was sent",
                     kind="pending")
            continue
        if len(seen) > 1:
            viol("sent-more-than-once", f"request {r.rid} {r.wire} in frames {seen}")
        elif len(seen) == 0 and not cancelled_early and r.outcome is not None:
            viol("never-sent", f"request {r.rid} {r.wire} outcome {r.outcome}")
        elif len(seen) == 0 and r.outcome is None:
            viol("never-sent", f"request {r.rid} {r.wire} still pending at the end")
    if violations:
        return finish(env, violations, reqs, submitted, n_clients)

    # (2) wire order == submission order (for the requests that were sent)
    sent_order = [i for i in wire_order if i in by_ident]
    expect_order = [i for i in sub_order if i in wire_seen]
    if second[0] is not None:
        # two masters, two send queues: the order is per master
        mine = {r.wire for r in submitted if getattr(r, "master", None) is second[0]}
        sent_order = [i for i in sent_order if i not in mine] + [i for i in sent_order if i in mine]
        expect_order = [i for i in expect_order if i not in mine] \
            + [i for i in expect_order if i in mine]
    if sent_order != expect_order:
        k = next(k for k, (a, b) in enumerate(zip(sent_order, expect_order)) if a != b)
        viol("wire-order", f"position {k}: wire {sent_order[k]} but submitted "
             f"{expect_order[k]}")

    # (3) exact outcome
    for r in submitted:
        if not r.fits:
            continue
        seen = wire_seen.get(r.wire, [])
        if not seen:
            continue
        no, k = seen[0]
        rx = delivered.get(no)
        ident, dpos, dlen, wpos = frames[no][k]
        if rx is not None:
            raw = rx[14 + dpos:14 + dpos + dlen]
            wkc, = struct.unpack_from("<H", rx, 14 + wpos)
        if r.outcome == "value":
            if rx is None:
                viol("completed-without-response",
                     f"request {r.rid} returned {r.value!r} but frame {no} never came back")
                continue
            if wkc == 0:
                viol("value-despite-wkc0", f"request {r.rid} returned a value, wkc was 0")
                continue
            want = independent_unpack(r.expect_fmt, raw, r.data)
            if r.value != want and repr(r.value) != repr(want):      # (NaN != NaN)
                if fmt_args:
                    viol("decode-mismatch",
                         f"request {r.rid} args={r.args!r} data={r.data!r}: returned "
                         f"{r.value!r}, independent decoding gives {want!r}")
                else:
                    viol("wrong-bytes",
                         f"request {r.rid} {r.wire}: returned {bytes(r.value)[:24].hex()}… "
                         f"bus returned {raw[:24].hex()}… at its position in frame {no}")
        elif r.outcome == "ethercat-error":
            if rx is None:
                viol("completed-without-response",
                     f"request {r.rid} raised EtherCatError but frame {no} never came back")
            elif wkc != 0:
                viol("error-despite-processed",
                     f"request {r.rid}: EtherCatError({r.value}) but wkc={wkc}")
        elif r.outcome == "exception":
            is_c13_empty = fmt_args and r.args and (r.data == b"" or r.data == 0)
            viol("foreign-exception",
                 f"request {r.rid} args={r.args!r} data={r.data!r}: {r.value}",
                 exception=r.value.split(":")[0],
                 **({"empty_data": True} if is_c13_empty else {}))
        elif r.outcome == "cancelled":
            if r.cancel_kind == "harness-timeout" and rx is not None:
                viol("never-completed",
                     f"request {r.rid}: frame {no} came back (wkc={wkc}) but the call "
                     f"was still pending {HARNESS_TIMEOUT}s later")
        elif r.outcome is None:
            if rx is not None:
                viol("never-completed", f"request {r.rid}: frame {no} came back, "
                     f"call pending at the end of the run")
    # encode side: payload on the wire == independent packing (a wrong size
    # shows up as never-sent, because the identity includes the size)
    for r in submitted:
        sent = tx_data.get(r.wire)
        if sent is not None and sent != r.payload:
            viol("encode-mismatch" if fmt_args else "wrong-bytes-sent",
                 f"request {r.rid} args={r.args!r} data={r.data!r}: wire carries "
                 f"{sent[:32].hex()}, independent packing gives {r.payload[:32].hex()}")
    return finish(env, violations, reqs, submitted, n_clients)


def finish(env, violations, reqs, submitted, n_clients):
    world = env.world
    outcomes = {}
    for r in submitted:
        outcomes[r.outcome] = outcomes.get(r.outcome, 0) + 1
        world.count(f"wl/outcome-{r.outcome}")
    sample = {
        "clients": n_clients, "requests": len(submitted), "outcomes": outcomes,
        "first_requests": [
            {"cmd": r.cmd, "pos": r.pos, "off": r.off, "size": r.size,
             "outcome": r.outcome, "cancel": r.cancel_kind} for r in submitted[:6]],
        "frames": world.counters.get("wl/frames", 0),
    }
    nontrivial = len(submitted) >= 2 and world.counters.get("wl/frames", 0) >= 1
    return {
        "violations": violations, "stats": dict(world.counters),
        "digest": world.digest.hexdigest(), "sim_time": world.now,
        "schedule": world.digest.hexdigest(), "sample": sample,
        "nontrivial": nontrivial,
    }


def attribute(res, mine):
    """keep the violations that belong to the calling property; anything else is
    counted (contamination rule, DESIGN.md section 9) but not reported here"""
    keep = []
    for v in res["violations"]:
        if v["rule"] in mine:
            keep.append(v)
        else:
            res["stats"]["other-property/" + v["rule"]] = \
                res["stats"].get("other-property/" + v["rule"], 0) + 1
    res["violations"] = keep
    return res
