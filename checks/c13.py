"""C13 Datagram field encoding and decoding round-trip (rides on the C12 workload)"""
from . import wl_roundtrip

PROPERTY = "C13"
LEVEL = "exploration"
SCENARIOS = {"shapes": 1}
TIERS = {"quick": {"runs": 3000, "chunk": 40}, "thorough": {"runs": 50000000, "wall_s": 600, "chunk": 200, "recheck": 16}}
RULE = ("one run = 1-8 concurrent clients issuing roundtrip calls whose argument shape is "
        "drawn: 0-3 format strings with values, optional trailing value-less format, data "
        "= None / bytes of length 0..12 / count 0..12; the payload seen on the simulated "
        "wire and the returned tuple are compared with an independent struct encoding; the "
        "schedule only varies batching and offsets (encode/decode are pure; what the "
        "simulation adds is the path through Packet.append offsets, batching and "
        "process_packet slicing); distinct = distinct event-log digests")
RULE += "; since the 4th session the format pool includes formats that occupy no bytes ('0I', '0s', '0H', '3x')"
RULE += '; also a second master on the interface (25 %)'
COMPONENTS = wl_roundtrip_components = {
    "real": ["ebpfcat.ethercat.EtherCat.roundtrip/sendloop/process_packet", "Packet"],
    "stub": ["event loop", "socket", "wire (fault-free)", "plain-memory terminals"]}
ASSUMPTIONS = ["fault-free wire and no oversize requests, so that C12-type failures cannot "
               "mask encoding errors"]
MINE = {"decode-mismatch", "encode-mismatch", "foreign-exception", "never-sent"}


def run(tape, scenario):
    res = wl_roundtrip.run_workload(tape, faults=False, fmt_args=True,
                                    oversize=False, cancels=False)
    return wl_roundtrip.attribute(res, MINE)
