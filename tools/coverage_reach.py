#!/venv/bin/python
"""line coverage of /repo/ebpfcat reached by the checks' simulated runs.

tools/coverage_reach.py [--runs N] [Cxx ...]   -> reach/coverage.json, reach/uncovered.txt

Every property's scenarios are run for N seeds each (serially, one forked worker per
property) under coverage.py restricted to the library's files. This is a measure of reach
("which library code do the simulations execute at all"), not evidence for any property."""
import concurrent.futures, json, multiprocessing, os, sys, tempfile, ast
V = os.path.dirname(os.path.dirname(os.path.abspath(__file__)))
sys.path.insert(0, V)
REPO = os.environ.get("VERIF_REPO", "/repo")


def work(args):
    prop, runs, outdir = args
    import coverage
    cov = coverage.Coverage(data_file=os.path.join(outdir, f".cov.{prop}"),
                            include=[os.path.join(REPO, "ebpfcat", "*")], concurrency=["thread"])
    cov.start()
    from sim.runner import load_check, one_run
    from sim.tape import derive_seed
    mod = load_check(prop)
    n = 0
    viol = 0
    for scen in mod.SCENARIOS:
        for i in range(runs):
            res = one_run(mod, scen, seed=derive_seed(7, prop, scen, i))
            n += 1
            viol += bool(res.get("violations"))
    cov.stop()
    cov.save()
    return prop, n, viol


def main():
    args = sys.argv[1:]
    runs = 150
    if "--runs" in args:
        i = args.index("--runs"); runs = int(args[i + 1]); del args[i:i + 2]
    props = args or [c["property_id"] for c in json.load(open(os.path.join(V, "MANIFEST.json")))["checks"]]
    os.environ.setdefault("PYTHONHASHSEED", "0")
    out = os.path.join(V, "reach")
    os.makedirs(out, exist_ok=True)
    tmp = tempfile.mkdtemp(prefix="covreach-", dir="/tmp")
    ctx = multiprocessing.get_context("fork")
    per_prop = {}
    with concurrent.futures.ProcessPoolExecutor(min(16, len(props)), mp_context=ctx) as pool:
        for prop, n, viol in pool.map(work, [(p, runs, tmp) for p in props]):
            per_prop[prop] = {"runs": n, "runs_with_violation": viol}
            print(prop, n, "runs", viol, "with violation", flush=True)
    import coverage
    cov = coverage.Coverage(data_file=os.path.join(tmp, ".cov.all"),
                            include=[os.path.join(REPO, "ebpfcat", "*")])
    cov.combine([os.path.join(tmp, f) for f in os.listdir(tmp) if f.startswith(".cov.C")], keep=True)
    data = cov.get_data()
    report = {}
    lines_txt = []
    for fn in sorted(os.listdir(os.path.join(REPO, "ebpfcat"))):
        if not fn.endswith(".py") or fn.endswith("_test.py"):
            continue
        path = os.path.join(REPO, "ebpfcat", fn)
        try:
            _, stmts, _, missing, _ = cov.analysis2(path)
        except Exception:
            stmts, missing = [], []
            src = open(path).read()
            import coverage.parser
        # per function summary
        tree = ast.parse(open(path).read())
        funcs = []
        for node in ast.walk(tree):
            if isinstance(node, (ast.FunctionDef, ast.AsyncFunctionDef)):
                body = [s for s in stmts if node.lineno < s <= node.end_lineno]
                miss = [s for s in missing if node.lineno < s <= node.end_lineno]
                if body:
                    funcs.append((node.lineno, node.name, len(body), len(miss), miss))
        report[fn] = {"statements": len(stmts), "missing": len(missing),
                      "percent": round(100 * (1 - len(missing) / max(1, len(stmts))), 1)}
        lines_txt.append(f"== {fn}: {report[fn]['percent']} % of {len(stmts)} statements reached")
        for lineno, name, nb, nm, miss in sorted(funcs):
            if nm:
                lines_txt.append(f"   {name} (line {lineno}): {nm}/{nb} statements not reached: "
                                 f"{miss[:12]}{'...' if len(miss) > 12 else ''}")
    json.dump({"runs_per_scenario": runs, "per_property": per_prop, "files": report,
               "note": "reach measure only; test files and the property-irrelevant CLI/scripts included as they are"},
              open(os.path.join(out, "coverage.json"), "w"), indent=1)
    open(os.path.join(out, "uncovered.txt"), "w").write("\n".join(lines_txt) + "\n")
    import shutil
    shutil.rmtree(tmp, ignore_errors=True)
    for fn, r in report.items():
        print(f"{fn:18s} {r['percent']:5.1f} %  ({r['missing']} of {r['statements']} not reached)")


main()
