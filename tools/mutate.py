#!/venv/bin/python
"""sensitivity: apply a textual mutant to a scratch copy of /repo/ebpfcat and run a check on it.

usage: tools/mutate.py <PROP> <file> <old> <new> [--runs N] [--tier quick]
       tools/mutate.py --batch mutants.json     (list of {prop,file,old,new,expect})
The scratch copy lives under /tmp and is removed afterwards. Exit 0 = caught."""
import json, os, shutil, subprocess, sys, tempfile
VERIF = os.path.dirname(os.path.dirname(os.path.abspath(__file__)))


def run_mutant(prop, fname, old, new, runs=None, count=1):
    d = tempfile.mkdtemp(prefix="mut-", dir="/tmp")
    try:
        shutil.copytree("/repo/ebpfcat", os.path.join(d, "ebpfcat"),
                        ignore=shutil.ignore_patterns("__pycache__"))
        p = os.path.join(d, "ebpfcat", fname)
        s = open(p).read()
        if s.count(old) < 1:
            return "NOT-APPLICABLE (pattern not found)", ""
        s = s.replace(old, new, count)
        open(p, "w").write(s)
        subprocess.run(["/venv/bin/python", "-c", f"import sys; sys.path.insert(0,{d!r}); import ebpfcat.{fname[:-3]}"], check=True, capture_output=True)
        cmd = [os.path.join(VERIF, "check"), prop, "--tier", "quick"]
        if runs:
            cmd += ["--runs", str(runs)]
        env = dict(os.environ, VERIF_REPO=d, VERIF_NO_EVIDENCE="1")
        r = subprocess.run(cmd, env=env, capture_output=True, text=True, timeout=1200)
        verdict = {0: "MISSED", 1: "CAUGHT", 2: "HARNESS-ERROR"}.get(r.returncode, f"exit {r.returncode}")
        return verdict, r.stdout[-1500:] + r.stderr[-500:]
    except subprocess.CalledProcessError as e:
        return "DOES-NOT-IMPORT", e.stderr.decode()[-300:]
    finally:
        shutil.rmtree(d, ignore_errors=True)


if __name__ == "__main__":
    a = sys.argv[1:]
    if a[0] == "--batch":
        ms = json.load(open(a[1]))
        out_json = None
        if "--json" in a:
            i = a.index("--json"); out_json = a[i + 1]; del a[i:i + 2]
        only = a[2] if len(a) > 2 else None
        bad = 0
        results = []
        for m in ms:
            if only and m["prop"] != only:
                continue
            v, out = run_mutant(m["prop"], m["file"], m["old"], m["new"], m.get("runs"))
            exp = m.get("expect", "CAUGHT")
            flag = "ok " if v == exp else "!! "
            bad += v != exp
            rule = ""
            for ln in out.splitlines():
                if ln.strip().startswith("rule="):
                    rule = ln.strip()[:110]
                    break
            print(f"{flag}{m['prop']} {m.get('name', m['old'][:40])!r}: {v} (expected {exp}) {rule}", flush=True)
            results.append({"prop": m["prop"], "file": m["file"], "name": m.get("name"),
                            "expected": exp, "verdict": v, "first_rule": rule[:100]})
            if out_json:
                json.dump(results, open(out_json, "w"), indent=1)
        sys.exit(1 if bad else 0)
    runs = None
    if "--runs" in a:
        i = a.index("--runs"); runs = int(a[i + 1]); del a[i:i + 2]
    v, out = run_mutant(a[0], a[1], a[2], a[3], runs)
    print(v); print(out)
    sys.exit(0 if v == "CAUGHT" else 1)
