#!/bin/sh
# tools/sweep_seeds.sh [seeded/<id> ...]: run every archived seeded change against its property's
# quick check in a scratch copy of /repo HEAD (VERIF_REPO seam; /repo itself is not touched).
# Prints one line per change: <id> CAUGHT|MISSED|PATCH-FAILED  <first violation rule>
cd "$(dirname "$0")/.." || exit 2
V=$(pwd)
if [ "$1" = "--one" ]; then
    d=$2; id=$(basename $d)
    prop=$(python3 -c "import json;m=json.load(open('$d/meta.json')); print(m.get('caught_by', m['property']))")
    tree=$(mktemp -d /tmp/sweeptree-XXXXXX); rp=$(mktemp -d /tmp/sweeprp-XXXXXX)
    git -C /repo archive HEAD | tar -x -C $tree
    if ! (cd $tree && patch -p1 --no-backup-if-mismatch -s < $V/$d/patch.diff >/dev/null 2>&1); then
        echo "$id PATCH-FAILED"; rm -rf $tree $rp; exit 0
    fi
    tier=$(python3 -c "import json;print(json.load(open('$d/meta.json')).get('caught_tier','quick'))")
    out=$(VERIF_REPO=$tree VERIF_NO_EVIDENCE=1 VERIF_REPLAY_DIR=$rp $V/check $prop --tier $tier 2>&1)
    rc=$?
    rule=$(printf "%s" "$out" | grep -a -m1 "^  rule=" | cut -c1-100)
    verdict=$(python3 -c "import json;print(json.load(open('$d/meta.json')).get('verdict',''))")
    if [ $rc -eq 1 ]; then echo "$id CAUGHT $rule"; elif [ $rc -eq 0 ] && [ "$verdict" = "not-caught" ]; then echo "$id NOT-CAUGHT (as recorded, see DESIGN.md 11.6)"; elif [ $rc -eq 0 ]; then echo "$id MISSED"; elif [ "$verdict" = "not-caught" ]; then echo "$id NOT-CAUGHT (as recorded; the check ended with rc=$rc: $(printf "%s" "$out" | grep -a -m1 -o "NONDETERMINISM\|HARNESS-ERROR" | head -1))"; else echo "$id HARNESS rc=$rc"; fi
    rm -rf $tree $rp
    exit 0
fi
[ $# -eq 0 ] && set -- seeded/C*
printf "%s\n" "$@" | xargs -P ${SWEEP_JOBS:-3} -I{} "$V/tools/sweep_seeds.sh" --one {}
