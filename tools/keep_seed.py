#!/venv/bin/python
"""archive a confirmed seeded change under /verif/seeded/<name>/
usage: tools/keep_seed.py <src dir> <name> <caught|missed-then-strengthened|missed> "<note>" """
import json, os, shutil, sys
VERIF = os.path.dirname(os.path.dirname(os.path.abspath(__file__)))
src, name, verdict, note = sys.argv[1:5]
dst = os.path.join(VERIF, "seeded", name)
os.makedirs(dst, exist_ok=True)
for f in ("patch.diff", "demo.py"):
    shutil.copy(os.path.join(src, f), os.path.join(dst, f))
meta = json.load(open(os.path.join(src, "meta.json")))
meta.update({
    "origin": "fresh sub-agent given only the property text and a scratch worktree of /repo",
    "confirmed": "baseline suite unchanged (44 passed, same 5 failed); demo.py exits 0 on the "
                 "unchanged tree and 1 with the patch (tools/try_seed.py, scratch copy of /repo HEAD)",
    "ran": f"tools/try_seed.py <dir>  ->  ./check {meta['property']} --tier quick against the patched copy",
    "verdict": verdict, "note": note})
json.dump(meta, open(os.path.join(dst, "meta.json"), "w"), indent=1)
print("kept", dst)
