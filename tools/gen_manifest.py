#!/venv/bin/python
"""regenerate MANIFEST.json from the check modules (single source of truth)"""
import importlib, json, os, sys
VERIF = os.path.dirname(os.path.dirname(os.path.abspath(__file__)))
sys.path.insert(0, VERIF)
NA = {
 "C01": "pure function of (expression tree, operand values): no schedule, clock, peer or fault for a simulator to control; deciding it would be differential testing of the generator, a different technique",
 "C02": "pure function of (expression tree, operand values), same reason as C01",
 "C03": "pure function of (condition tree, operand values); the dispatcher's nested with/Else chains are only incidentally executed under C22",
 "C04": "stack-slot/temporary allocation is decided at generation time and observed by one sequential execution; nothing depends on an interleaving or a peer",
 "C05": "the oracle is the Linux verifier, which cannot be put inside the simulator; SimKernel deliberately has no verifier",
 "C07": "pure function of (declaration, packet bytes); packet variables of the dispatcher and fast groups are only incidentally executed under C19/C21/C22",
 "C26": "universally quantified statement about one pass of a straight-line program over bit-vector inputs: a pure function, for a solver, not a scheduler",
}
checks = []
claimed = []
for n in range(1, 31):
    pid = f"C{n:02d}"
    try:
        mod = importlib.import_module(f"checks.{pid.lower()}")
    except ModuleNotFoundError:
        continue
    claimed.append(pid)
    checks.append({
        "property_id": pid,
        "quick_cmd": f"./check {pid} --tier quick",
        "thorough_cmd": f"./check {pid} --tier thorough",
        "evidence_file": f"/verif/evidence/{pid}.json",
        "replay_cmd_template": "./check --replay {path}",
        "engine": "sim",
        "level_claimed": {
            "category": getattr(mod, "LEVEL", "exploration"),
            "text": getattr(mod, "LEVEL_TEXT", "seeded search over simulated schedules, histories and fault sequences running the real library code; sampling evidence, not proof"),
            "design_ref": f"DESIGN.md section 7, {pid}",
        },
        "level_note": "; ".join(getattr(mod, "ASSUMPTIONS", [])) or "simulator stubs are the trusted base",
        "technique": getattr(mod, "TECHNIQUE", "deterministic simulation with fault injection (seeded schedule/fault search, replayable tape)"),
    })
pending = {
}
na = [{"property_id": k, "reason": v} for k, v in NA.items()]
for n in range(1, 31):
    pid = f"C{n:02d}"
    if pid not in claimed and pid not in NA:
        na.append({"property_id": pid, "reason": "not yet claimed: the simulation for this property is not built yet (see DESIGN.md section 10 build order)"})
m = {
 "version": 1,
 "setup_cmd": "cd /verif && /venv/bin/python -c 'import sys; sys.path.insert(0, \"/verif\"); import sim.runner, sim.bus, sim.loop'",
 "hooks": {
  "guard": "EBPFCAT_VERIF",
  "enable": "no in-tree hooks: every seam is a module attribute rebound by the harness at run time (sim/seams.py); the guard name is reserved and unused",
  "baseline_off_cmd": "cd /repo && /venv/bin/python -m pytest -ra -q -p no:cacheprovider --timeout=900 --continue-on-collection-errors",
  "source_commits": [],
  "add_only": True,
 },
 "engines": [{"name": "sim", "path": "/verif/sim", "serves_properties": claimed,
              "kind_free_text": "deterministic simulator: choice tape, virtual-time asyncio loop, EtherCAT bus/ESC/CoE models, bpf() kernel stub with eBPF interpreter, in-memory fs/locks, baton-passing multi-process scheduler; batch runner with minimiser and replay"}],
 "checks": checks,
 "not_applicable": sorted(na, key=lambda e: e["property_id"]),
 "notes": "exit 0 = held (possibly KNOWN-FINDING lines from known_findings.json), 1 = VIOLATION with verified replay, 2 = harness failure (never a pass). Fixes of genuine defects are 'fix:' commits in /repo recorded as fixed entries in known_findings.json.",
}
json.dump(m, open(os.path.join(VERIF, "MANIFEST.json"), "w"), indent=1)
print("claimed:", claimed)
