#!/usr/bin/env python3
"""regenerate the table of seeded changes in DESIGN.md (between the SEED-TABLE markers)
from seeded/*/meta.json"""
import glob, json, os, re
V = os.path.dirname(os.path.dirname(os.path.abspath(__file__)))
rows = []
for d in sorted(glob.glob(os.path.join(V, "seeded", "C*"))):
    m = json.load(open(os.path.join(d, "meta.json")))
    note = m.get("note", "").replace("|", "/").replace("\n", " ")
    rows.append(f"| {os.path.basename(d)} | {m['property']} | {m.get('verdict', '?')} | {note} |")
table = ("| change | check | verdict | what it is / which rule caught it / what was strengthened |\n"
         "|---|---|---|---|\n" + "\n".join(rows))
p = os.path.join(V, "DESIGN.md")
s = open(p).read()
s = re.sub(r"(<!-- SEED-TABLE-BEGIN -->\n).*?(<!-- SEED-TABLE-END -->)",
           lambda mm: mm.group(1) + table + "\n" + mm.group(2), s, flags=re.S)
open(p, "w").write(s)
print(len(rows), "rows")
