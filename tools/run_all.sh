#!/bin/sh
# run every registered check's quick tier against /repo and validate the evidence
cd "$(dirname "$0")/.." || exit 2
rc=0
L=$(mktemp -d /tmp/verif-runall-XXXXXX)
for p in $(python3 -c "import json; print(' '.join(c['property_id'] for c in json.load(open('MANIFEST.json'))['checks']))"); do
    s=$(date +%s)
    ./check $p --tier ${1:-quick} > $L/$p.log 2>&1
    e=$?
    printf "%s exit=%s %ss  %s\n" $p $e $(( $(date +%s) - s )) "$(head -1 $L/$p.log | cut -c1-140)"
    grep -h "KNOWN-FINDING\|VIOLATION\|HARNESS" $L/$p.log | cut -c1-160
    [ $e -ne 0 ] && rc=1
done
python3-vt - <<'PY'
import json, jsonschema, glob
sch = json.load(open('/root/.vp/EVIDENCE.schema.json'))
m = json.load(open('MANIFEST.json'))
jsonschema.validate(m, json.load(open('/root/.vp/MANIFEST.schema.json')))
bad = 0
for c in m['checks']:
    f = c['evidence_file']
    try:
        d = json.load(open(f)); jsonschema.validate(d, sch)
        assert d['level'] == c['level_claimed']['category'], (d['level'], c['level_claimed']['category'])
    except Exception as e:
        bad += 1; print('EVIDENCE PROBLEM', f, str(e)[:200])
print('manifest + evidence valid' if not bad else f'{bad} evidence problems')
PY
rm -rf $L
exit $rc
