#!/venv/bin/python
"""evaluate a seeded change: tools/try_seed.py <dir with patch.diff/demo.py/meta.json> [--in-repo]

1. demo on the unchanged tree must print PASS / exit 0
2. patch applies; the baseline suite still gives 44 passed
3. demo on the changed tree must exit 1
4. the property's quick check must exit 1 with a VIOLATION line (and the other checks named
   with --also must stay quiet)
By default everything happens in a scratch copy under /tmp (VERIF_REPO seam); with --in-repo
the patch is applied to /repo itself and reverted afterwards."""
import json, os, shutil, subprocess, sys, tempfile
VERIF = os.path.dirname(os.path.dirname(os.path.abspath(__file__)))


def sh(cmd, cwd=None, env=None, timeout=1500):
    r = subprocess.run(cmd, shell=True, cwd=cwd, env=env, capture_output=True, text=True,
                       timeout=timeout)
    return r.returncode, r.stdout + r.stderr


def main():
    d = os.path.abspath(sys.argv[1])
    in_repo = "--in-repo" in sys.argv
    also = [a for a in sys.argv[2:] if a.startswith("C")]
    meta = json.load(open(os.path.join(d, "meta.json")))
    prop = meta["property"]
    patch = os.path.join(d, "patch.diff")
    demo = os.path.join(d, "demo.py")
    out = {"property": prop}
    if in_repo:
        tree = "/repo"
    else:
        tree = tempfile.mkdtemp(prefix="seedtree-", dir="/tmp")
        subprocess.run(f"git -C /repo archive HEAD | tar -x -C {tree}", shell=True, check=True)
    try:
        rc, o = sh(f"/venv/bin/python {demo}", cwd=tree)
        out["demo_clean"] = (rc, o.strip().splitlines()[-1:] )
        rc, o = sh(f"patch -p1 --no-backup-if-mismatch < {patch}" if not in_repo
                   else f"git apply {patch}", cwd=tree)
        out["apply"] = rc
        if rc:
            print(o)
        rc, o = sh("/venv/bin/python -m pytest -q -p no:cacheprovider --timeout=900 2>&1 | tail -1", cwd=tree)
        out["baseline"] = o.strip()
        rc, o = sh(f"/venv/bin/python {demo}", cwd=tree)
        out["demo_changed"] = (rc, o.strip().splitlines()[-1:])
        env = dict(os.environ, VERIF_NO_EVIDENCE="1", VERIF_REPLAY_DIR=tempfile.mkdtemp(prefix="seedreplay-", dir="/tmp"))
        if not in_repo:
            env["VERIF_REPO"] = tree
        for p in [prop] + also:
            rc, o = sh(f"{VERIF}/check {p} --tier quick", env=env)
            lines = [l for l in o.splitlines() if l.startswith(("VIOLATION", "  rule=", "HARNESS", p))]
            out[f"check_{p}"] = (rc, lines[:4])
        shutil.rmtree(env["VERIF_REPLAY_DIR"], ignore_errors=True)
    finally:
        if in_repo:
            sh("git checkout -- .", cwd="/repo")
        else:
            shutil.rmtree(tree, ignore_errors=True)
    print(json.dumps(out, indent=1))
    ok = out["demo_clean"][0] == 0 and out["demo_changed"][0] == 1 and "44 passed" in out["baseline"] \
        and out["apply"] == 0
    caught = out[f"check_{prop}"][0] == 1
    print("SEED", "valid" if ok else "INVALID", "|", "CAUGHT" if caught else "MISSED")


main()
