"""Batch runner: seeds -> simulated runs -> verdict, evidence, replay files.

Contract with a check module (checks/cXX.py):

    PROPERTY = "C12"
    LEVEL = "exploration"
    SCENARIOS = {"name": weight, ...}         # how runs are split
    TIERS = {"quick": {"runs": N}, "thorough": {"runs": N}}
    def run(tape, scenario) -> dict(
        violations=[{"rule": str, "params": {...}, "detail": str}, ...],
        stats={counter: int}, digest=str, sim_time=float,
        schedule=str (hash of the schedule decisions), state=iterable of
        abstract states (optional), nontrivial=bool, sample=json-able)
    RULE = "how cases are generated and what makes one non-trivial/distinct"
    COMPONENTS = {"real": [...], "stub": [...]}
    ASSUMPTIONS = [...]

Exit codes: 0 held (possibly KNOWN-FINDING lines), 1 VIOLATION, 2 harness failure.
"""
import collections
import concurrent.futures
import faulthandler
import hashlib
import importlib
import json
import multiprocessing
import os
import subprocess
import sys
import time
import traceback

from .tape import Tape, derive_seed

VERIF = os.path.dirname(os.path.dirname(os.path.abspath(__file__)))
DEFAULT_SEED = 1          # what `vp check` exports as VERIF_SEED


from .fs import StubGap
from .loop import SimStall


class HarnessError(Exception):
    pass


def load_check(prop):
    return importlib.import_module(f"checks.{prop.lower()}")


def load_known():
    path = os.path.join(VERIF, "known_findings.json")
    if not os.path.exists(path):
        return []
    with open(path) as f:
        return json.load(f)["findings"]


def finding_matches(entry, prop, v):
    if entry.get("property") != prop or entry.get("status") != "open":
        return False
    sig = entry["signature"]
    rule = sig.get("rule")
    if rule != "*" and v["rule"] not in (rule if isinstance(rule, list) else [rule]):
        return False
    params = v.get("params", {})
    for k, want in sig.get("params", {}).items():
        have = params.get(k)
        if isinstance(want, dict):
            if "min" in want and (have is None or have < want["min"]):
                return False
            if "max" in want and (have is None or have > want["max"]):
                return False
            if "in" in want and have not in want["in"]:
                return False
        elif have != want:
            return False
    return True


def sig_of(v):
    return v["rule"] + "|" + json.dumps(v.get("params", {}), sort_keys=True)


# ---------------------------------------------------------------------------
# one run, in a worker
# ---------------------------------------------------------------------------

def one_run(mod, scenario, seed=None, replay=None):
    tape = Tape(seed=seed, replay=replay)
    t0 = time.perf_counter()
    try:
        res = mod.run(tape, scenario)
    except SimStall as e:
        # the run did not come to an end within its iteration budget and the check did
        # not classify that itself: the code under test loops (bounded liveness)
        res = {"violations": [{"rule": "did-not-finish", "params": {"uncaught": True},
                               "detail": str(e)}],
               "stats": {}, "digest": None, "sim_time": 0.0, "schedule": None,
               "nontrivial": False}
    except StubGap as e:
        raise HarnessError(f"{mod.PROPERTY}/{scenario} seed={seed}: stub gap: {e}") from None
    except Exception as e:       # a harness bug, never a verdict
        raise HarnessError(
            f"{mod.PROPERTY}/{scenario} seed={seed}: "
            + "".join(traceback.format_exception(e))) from None
    res["wall"] = time.perf_counter() - t0
    res["tape_len"] = len(tape.values)
    res["tape"] = tape
    return res


def _worker_chunk(args):
    prop, scenario, master, indices, wall_cap, want_digests = args
    faulthandler.dump_traceback_later(wall_cap, exit=True)
    mod = load_check(prop)
    agg = {
        "runs": 0, "stats": collections.Counter(), "fired": collections.Counter(),
        "draws": 0, "sim_time": 0.0, "schedules": set(), "states": set(),
        "nontrivial": set(), "violations": [], "digests": {}, "samples": [],
        "wall": 0.0, "scenario": scenario, "evaluations": 0,
    }
    for i in indices:
        seed = derive_seed(master, prop, scenario, i)
        res = one_run(mod, scenario, seed=seed)
        agg["runs"] += 1
        agg["evaluations"] += res.get("evaluations", 1)
        for item in res.get("items", ()):        # distinct non-trivial cases inside a run
            agg["nontrivial"].add(hash_state(item))
        st = dict(res.get("stats", {}))
        for key in [k for k in st if k.endswith("-max")]:      # maxima, not sums
            agg["stats"][key] = max(agg["stats"].get(key, 0), st.pop(key))
        agg["stats"].update(st)
        tape = res["tape"]
        agg["fired"].update(tape.counts)
        agg["draws"] += len(tape.values)
        agg["sim_time"] += res.get("sim_time", 0.0)
        agg["wall"] += res["wall"]
        sched = res.get("schedule")
        if sched is not None:
            h = int.from_bytes(hashlib.blake2b(
                str(sched).encode(), digest_size=8).digest(), "little")
            agg["schedules"].add(h)
            if res.get("nontrivial", True) and "items" not in res:
                agg["nontrivial"].add(h)
        for st in res.get("states", ()):
            agg["states"].add(hash_state(st))
        if i in want_digests:
            agg["digests"][i] = res.get("digest")
        if len(agg["samples"]) < 2 and res.get("sample") is not None \
                and res.get("nontrivial", True):
            agg["samples"].append({"seed": seed, "scenario": scenario,
                                   "case": res["sample"]})
        for v in res.get("violations", []):
            if len(agg["violations"]) < 200:
                agg["violations"].append({
                    "seed": seed, "scenario": scenario, "index": i,
                    "rule": v["rule"], "params": v.get("params", {}),
                    "detail": v.get("detail", ""),
                    "tape": list(tape.values) if len(tape.values) < 20000 else None})
            else:
                agg["stats"]["violations-not-recorded"] += 1
            break        # attribute a run to the first oracle that failed
    faulthandler.cancel_dump_traceback_later()
    return agg


def hash_state(st):
    return int.from_bytes(hashlib.blake2b(repr(st).encode(), digest_size=8).digest(),
                          "little")


# ---------------------------------------------------------------------------
# minimisation of a failing tape
# ---------------------------------------------------------------------------

def still_fails(mod, scenario, values, rule, params=None):
    """the first violation of a replay, if it is of the same class: same rule and (when
    given) the same parameters - a shrunk tape must not drift to another cause"""
    try:
        res = one_run(mod, scenario, replay=values)
    except HarnessError:
        return None
    for v in res.get("violations", []):
        if v["rule"] == rule and (params is None or v.get("params", {}) == params):
            return v, res
        break
    return None


def minimise(mod, scenario, values, rule, budget_s=45.0, max_tries=500, params=None):
    """delta debugging on the tape: truncate, zero whole label groups, zero
    chunks, delete draws, lower values.  A candidate is kept iff the run still
    yields a violation of the same rule."""
    t_end = time.perf_counter() + budget_s
    tries = 0
    best = list(values)
    labels = None

    def attempt(cand):
        nonlocal tries, best, labels
        if tries >= max_tries or time.perf_counter() > t_end:
            return False
        tries += 1
        got = still_fails(mod, scenario, cand, rule, params)
        if got is None:
            return False
        tape = got[1]["tape"]
        best = list(tape.values)        # what was actually consumed
        labels = list(tape.labels)
        while best and best[-1] == 0:
            best.pop()
        return True

    if not attempt(best):
        return list(values), tries
    # shortest failing prefix (failure need not be monotone, so every step verifies)
    lo, hi = 0, len(best)
    base = list(best)
    while lo < hi:
        mid = (lo + hi) // 2
        if attempt(base[:mid]):
            hi = min(mid, len(best))
            base = list(best)
        else:
            lo = mid + 1
    # zero all draws of one label at a time (structure-aware, cheap)
    progress = True
    while progress and tries < max_tries and time.perf_counter() < t_end:
        progress = False
        groups = collections.Counter(l for l, v in zip(labels, best) if v)
        for label, _ in groups.most_common():
            cand = [0 if (i < len(labels) and labels[i] == label) else v
                    for i, v in enumerate(best)]
            if cand != best and attempt(cand):
                progress = True
                break
    # zero chunks, halving the chunk size
    size = max(1, len(best) // 2)
    while size >= 1 and tries < max_tries and time.perf_counter() < t_end:
        i = 0
        while i < len(best):
            if any(best[i:i + size]):
                cand = best[:i] + [0] * len(best[i:i + size]) + best[i + size:]
                attempt(cand)
            i += size
        size //= 2
    # delete single draws (shifts the rest; sometimes shortens a lot)
    i = 0
    while i < len(best) and tries < max_tries and time.perf_counter() < t_end:
        if not attempt(best[:i] + best[i + 1:]):
            i += 1
    # lower remaining values
    i = 0
    while i < len(best) and tries < max_tries and time.perf_counter() < t_end:
        v = best[i]
        while v > 1 and i < len(best):
            if attempt(best[:i] + [v // 2] + best[i + 1:]):
                v = best[i] if i < len(best) else 0
            else:
                break
        i += 1
    return best, tries


# ---------------------------------------------------------------------------
# replay files
# ---------------------------------------------------------------------------

def write_replay(prop, v, values, mod, minimised_tries):
    os.makedirs(os.path.join(VERIF, "replays"), exist_ok=True)
    res = one_run(mod, v["scenario"], replay=values)
    vv = (res["violations"] or [dict(v)])[0]
    rdir = os.environ.get("VERIF_REPLAY_DIR") or os.path.join(VERIF, "replays")
    os.makedirs(rdir, exist_ok=True)
    path = os.path.join(rdir, f"{prop}-{v['seed']}.json")
    tape = res["tape"]
    with open(path, "w") as f:
        json.dump({
            "property": prop, "scenario": v["scenario"], "seed": v["seed"],
            "rule": vv["rule"], "params": vv.get("params", {}),
            "detail": vv.get("detail", ""), "digest": res.get("digest"),
            "tape": list(values),
            "decoded": [[l, k] for l, k in zip(tape.labels, tape.values) if k][:200],
            "minimise_tries": minimised_tries,
            "how": f"./check --replay {os.path.relpath(path, VERIF)}",
        }, f, indent=1)
    return path


def _reproduce(prop, v):
    """(forked child, pristine state) the tape with which the violation reproduces, or None"""
    mod = load_check(prop)
    values = v["tape"]
    if values is None:
        values = list(one_run(mod, v["scenario"], seed=v["seed"])["tape"].values)
    if still_fails(mod, v["scenario"], values, v["rule"], v.get("params")) is not None:
        return values
    # the recorded tape ends where the worker's run ended; from a pristine state the
    # same seed may get further and fail later: take the tape of that run instead
    res = one_run(mod, v["scenario"], seed=v["seed"])
    if any(x["rule"] == v["rule"] for x in res.get("violations", [])[:1]):
        return list(res["tape"].values)
    return None


def _minimise(prop, v, values, budget_s):
    mod = load_check(prop)
    return minimise(mod, v["scenario"], values, v["rule"], budget_s=budget_s,
                    params=v.get("params"))


def _fails(prop, v, values):
    mod = load_check(prop)
    return still_fails(mod, v["scenario"], values, v["rule"], v.get("params")) is not None


def _write(prop, v, values, tries):
    return write_replay(prop, v, values, load_check(prop), tries)


def _minimise_and_write(prop, v, budget_s):
    """reproduce, minimise, write the replay file - every stage in its own forked child of
    this (pristine) process, because the minimiser's hundreds of runs may themselves leave
    state behind in the code under test"""
    values = in_pristine_child(_reproduce, prop, v)
    if values is None:
        return None
    got = in_pristine_child(_minimise, prop, v, values, budget_s)
    small, tries = got if got is not None else (values, 0)
    if small != values and not in_pristine_child(_fails, prop, v, small):
        small = values
    path = in_pristine_child(_write, prop, v, small, tries)
    if path is None:
        return None
    return path, tries, len(values), len(small)


def in_pristine_child(fn, *args, timeout=400):
    """run fn(*args) in a forked child of the current process; its JSON-able result or None"""
    import select
    r, w = os.pipe()
    sys.stdout.flush()
    sys.stderr.flush()
    pid = os.fork()
    if pid == 0:
        code = 0
        try:
            os.close(r)
            out = fn(*args)
            with os.fdopen(w, "w") as f:
                json.dump(out, f)
        except BaseException:
            traceback.print_exc()
            code = 3
        finally:
            os._exit(code)
    os.close(w)
    chunks = []
    t_end = time.time() + timeout
    with os.fdopen(r, "r") as f:
        while True:
            left = t_end - time.time()
            if left <= 0 or not select.select([f], [], [], left)[0]:
                try:
                    os.kill(pid, 9)
                except OSError:
                    pass
                break
            data = f.read()
            if not data:
                break
            chunks.append(data)
    os.waitpid(pid, 0)
    try:
        return json.loads("".join(chunks))
    except ValueError:
        return None


def replay_file(path):
    with open(path) as f:
        rp = json.load(f)
    prop = rp["property"]
    mod = load_check(prop)
    res = one_run(mod, rp["scenario"], replay=rp["tape"])
    vs = res.get("violations", [])
    if vs and vs[0]["rule"] == rp["rule"]:
        same_digest = rp.get("digest") is None or rp["digest"] == res.get("digest")
        print(f"replayed: rule={vs[0]['rule']} params={json.dumps(vs[0].get('params', {}))}")
        print(f"detail: {vs[0].get('detail', '')}")
        print(f"digest {'identical' if same_digest else 'DIFFERS'}: {res.get('digest')}")
        print(f"VIOLATION property={prop} replay={path}")
        return 1
    print(f"not reproduced: expected rule {rp['rule']}, got "
          f"{[v['rule'] for v in vs] or 'no violation'}")
    return 0


def verify_replay_fresh(path):
    """re-run the replay file in a fresh interpreter; True iff it fails the same way"""
    env = dict(os.environ, PYTHONHASHSEED="0", PYTHONDONTWRITEBYTECODE="1",
               VERIF_REEXEC="1")
    p = subprocess.run([sys.executable, "-m", "sim.runner", "--replay", path],
                       cwd=VERIF, env=env, capture_output=True, text=True, timeout=300)
    return p.returncode == 1 and "VIOLATION property=" in p.stdout


# ---------------------------------------------------------------------------
# the batch
# ---------------------------------------------------------------------------

def run_check(prop, tier, master, workers=None, runs_override=None):
    t_start = time.perf_counter()
    mod = load_check(prop)
    cfg = dict(mod.TIERS[tier])
    total = runs_override or cfg["runs"]
    wall_budget = cfg.get("wall_s", 3600 if tier == "thorough" else 240)
    workers = workers or int(os.environ.get("VERIF_WORKERS", "0")) or os.cpu_count()
    scen = mod.SCENARIOS
    wsum = sum(scen.values())
    # chunks are generated lazily, round-robin over the scenarios, until `total` runs
    # are planned or the wall budget is used up (thorough tiers are budget-bound)
    shares = {name: max(1, total * w // wsum) for name, w in scen.items()}
    chunk = {name: max(1, min(cfg.get("chunk", 50), n // (workers * 2) or 1))
             for name, n in shares.items()}
    recheck = {}
    for name, n in shares.items():
        k = min(n, max(2, cfg.get("recheck", 8)))
        # early indices, so that they are certainly executed even if the budget ends the run
        recheck[name] = list(range(0, min(n, 50 * k), max(1, min(n, 50 * k) // k)))[:k]
    wall_cap = cfg.get("chunk_wall", 900)     # per chunk; generous: the machine may be loaded

    def main_jobs():
        pos = {name: 0 for name in shares}
        while any(pos[name] < shares[name] for name in shares):
            for name in shares:
                if pos[name] < shares[name]:
                    a = pos[name]
                    b = min(shares[name], a + chunk[name])
                    pos[name] = b
                    yield ("main", (prop, name, master, list(range(a, b)), wall_cap,
                                    frozenset(p for p in recheck[name] if a <= p < b)))
        for name, picks in recheck.items():
            yield ("recheck", (prop, name, master, picks, wall_cap, frozenset(picks)))

    total_agg = {
        "runs": 0, "stats": collections.Counter(), "fired": collections.Counter(),
        "draws": 0, "sim_time": 0.0, "schedules": set(), "states": set(),
        "nontrivial": set(), "violations": [], "samples": [], "wall": 0.0,
        "per_scenario": collections.Counter(), "evaluations": 0,
    }
    digests_a, digests_b = {}, {}
    ctx = multiprocessing.get_context("fork")
    harness_errors = []
    stopped_early = False
    known = load_known()
    n_unknown = 0
    max_unknown = int(os.environ.get("VERIF_MAX_UNKNOWN", cfg.get("max_unknown_violations", 25)))
    gen = main_jobs()
    pending = {}
    rechecks_submitted = False
    with concurrent.futures.ProcessPoolExecutor(workers, mp_context=ctx) as pool:
        def refill():
            nonlocal rechecks_submitted
            while len(pending) < workers * 3:
                try:
                    kind, job = next(gen)
                except StopIteration:
                    return
                if stopped_early and kind == "main":
                    continue          # budget used up: only the rechecks are still wanted
                pending[pool.submit(_worker_chunk, job)] = kind
        refill()
        broken = False
        while pending and not broken:
            done, _ = concurrent.futures.wait(pending, return_when=concurrent.futures.FIRST_COMPLETED)
            for fut in done:
                kind = pending.pop(fut)
                try:
                    agg = fut.result()
                except concurrent.futures.process.BrokenProcessPool:
                    harness_errors.append("worker died (wall cap or crash)")
                    broken = True
                    break
                except HarnessError as e:
                    harness_errors.append(str(e))
                    continue
                except Exception as e:
                    harness_errors.append("".join(traceback.format_exception(e)))
                    continue
                target = digests_a if kind == "main" else digests_b
                for i, d in agg["digests"].items():
                    target[(agg["scenario"], i)] = d
                if kind != "main":
                    continue        # recheck chunks do not count as coverage
                total_agg["runs"] += agg["runs"]
                total_agg["evaluations"] += agg["evaluations"]
                total_agg["per_scenario"][agg["scenario"]] += agg["runs"]
                for key in [k for k in agg["stats"] if k.endswith("-max")]:
                    total_agg["stats"][key] = max(total_agg["stats"].get(key, 0),
                                                  agg["stats"].pop(key))
                for key in ("stats", "fired"):
                    total_agg[key].update(agg[key])
                total_agg["draws"] += agg["draws"]
                total_agg["sim_time"] += agg["sim_time"]
                total_agg["wall"] += agg["wall"]
                for key in ("schedules", "states", "nontrivial"):
                    if len(total_agg[key]) < 3_000_000:      # memory bound of the parent
                        total_agg[key] |= agg[key]
                    else:
                        total_agg["stats"]["distinct-count-saturated/" + key] = 1
                total_agg["violations"].extend(agg["violations"])
                n_unknown += sum(1 for v in agg["violations"]
                                 if not any(finding_matches(e, prop, v) for e in known))
                if len(total_agg["samples"]) < 3:
                    total_agg["samples"].extend(agg["samples"])
                if n_unknown >= max_unknown or time.perf_counter() - t_start > wall_budget:
                    stopped_early = True      # enough to report / budget used up
            if harness_errors and len(harness_errors) > 20:
                break
            refill()
        if broken:
            for f in pending:
                f.cancel()
    nondet = [(k, digests_a[k], digests_b[k]) for k in digests_b
              if k in digests_a and digests_a[k] != digests_b[k]]
    if nondet:
        harness_errors.append(f"NONDETERMINISM: {nondet[:3]}")

    # -- verdict ---------------------------------------------------------------------------
    by_sig = collections.OrderedDict()
    for v in sorted(total_agg["violations"], key=lambda v: (v["scenario"], v["index"])):
        by_sig.setdefault(sig_of(v), []).append(v)
    known_hits = collections.OrderedDict()
    unknown = []
    if os.environ.get("VERIF_SIGS"):
        for sig, vs in sorted(by_sig.items(), key=lambda kv: -len(kv[1])):
            print(f"SIG {len(vs):6d} {sig}  e.g. {vs[0]['detail'][:160]}")
    for sig, vs in by_sig.items():
        entry = next((e for e in known if finding_matches(e, prop, vs[0])), None)
        if entry is not None:
            known_hits.setdefault(entry["id"], [entry, 0])
            known_hits[entry["id"]][1] += len(vs)
        else:
            unknown.append(vs)
    lines = []
    exit_code = 0
    replays = []
    for entry, n in known_hits.values():
        lines.append(f"KNOWN-FINDING: property={prop} {entry['id']}: "
                     f"{entry['description']} ({n} runs)")
    # unknown violations: group by rule, minimise + replay the first of each rule that
    # reproduces from a pristine process state. All of that happens in a forked child of
    # this process (which has not executed any run itself): a worker executes many runs one
    # after the other, and code under test that keeps state in module or class attributes
    # can make a run fail only because of the runs before it
    seen_rules = set()
    for vs in unknown:
        cands = sorted(vs, key=lambda v: (len(v["tape"]) if v["tape"] else 1 << 30))
        if cands[0]["rule"] in seen_rules:
            continue
        seen_rules.add(cands[0]["rule"])
        if len(seen_rules) > 4:
            break
        got = None
        step = max(1, len(cands) // 10)
        tries_order = cands[:4] + cands[4::step][:10]
        for v in tries_order:
            got = _minimise_and_write(prop, v, cfg.get("minimise_s", 40))
            if got is not None:
                break
        if got is None:
            v = cands[0]
            harness_errors.insert(
                0, f"violation rule={v['rule']} (seen in {len(vs)} runs, e.g. seed={v['seed']}) "
                f"does not reproduce from a pristine process state: the outcome of a run "
                f"depends on the runs executed before it in the same worker (state kept in "
                f"module or class attributes of the code under test?)")
            continue
        path, tries, nvalues, nsmall = got
        if verify_replay_fresh(path):
            values, small = [0] * nvalues, [0] * nsmall
            lines.append(f"VIOLATION property={prop} replay={path}")
            lines.append(f"  rule={v['rule']} params={json.dumps(v['params'])} "
                         f"seed={v['seed']} scenario={v['scenario']} "
                         f"tape {len(values)} -> {len(small)} draws")
            lines.append(f"  {v['detail'][:300]}")
            exit_code = 1
            replays.append(path)
        else:
            harness_errors.append(
                f"violation rule={v['rule']} seed={v['seed']} did not reproduce "
                f"in a fresh interpreter from {path}")
    if harness_errors:
        for h in harness_errors[:5]:
            lines.append("HARNESS-ERROR: " + h.strip().replace("\n", "\n  "))
        if exit_code == 0:
            exit_code = 2

    # -- evidence ---------------------------------------------------------------------------
    wall = time.perf_counter() - t_start
    runs = total_agg["runs"]
    fired = {k: v for k, v in sorted(total_agg["fired"].items())
             if k.startswith(("wire/", "fault/", "sched/", "cancel/"))}
    stats = dict(sorted(total_agg["stats"].items()))
    samples = total_agg["samples"][:3] or [{"note": "no sample recorded"}]
    distinct = len(total_agg["nontrivial"])
    evidence = {
        "property_id": prop, "tier": tier, "seed": master,
        "level": getattr(mod, "LEVEL", "exploration"),
        "coverage": {
            "evaluations": total_agg["evaluations"],
            "runs": runs,
            "distinct_nontrivial": distinct,
            "rule": mod.RULE,
            "samples": samples,
            "runs_per_scenario": dict(total_agg["per_scenario"]),
            "distinct_schedules": len(total_agg["schedules"]),
            "distinct_abstract_states": len(total_agg["states"]),
            "tape_draws": total_agg["draws"],
            "simulated_seconds": round(total_agg["sim_time"], 3),
            "runs_per_hour": int(runs / wall * 3600) if wall > 0 else 0,
            "seeds_per_hour": int(runs / wall * 3600) if wall > 0 else 0,
            "faults_fired": fired,
            "fault_and_probe_counters": stats,
            "determinism_rechecks": len(digests_b),
            "determinism_mismatches": len(nondet),
            "components": getattr(mod, "COMPONENTS", {}),
            "known_findings_hit": {k: n for k, (e, n) in known_hits.items()},
            "stopped_early_on_wall_budget": stopped_early,
            "workers": workers,
        },
        "assumptions": getattr(mod, "ASSUMPTIONS", []),
        "wall_s": round(wall, 2),
        "violations": sum(len(vs) for vs in unknown),
    }
    if not os.environ.get("VERIF_NO_EVIDENCE"):     # mutant runs must not clobber it
        os.makedirs(os.path.join(VERIF, "evidence"), exist_ok=True)
        with open(os.path.join(VERIF, "evidence", f"{prop}.json"), "w") as f:
            json.dump(evidence, f, indent=1, default=str)
    print(f"{prop} {tier}: {runs} runs, {distinct} distinct non-trivial, "
          f"{evidence['coverage']['distinct_schedules']} schedules, "
          f"{len(known_hits)} known findings, "
          f"{sum(len(vs) for vs in unknown)} unlisted violations, {wall:.1f}s")
    for ln in lines:
        print(ln)
    if runs == 0 and exit_code == 0:
        print("HARNESS-ERROR: no runs executed")
        exit_code = 2
    return exit_code


def main(argv=None):
    argv = list(sys.argv[1:] if argv is None else argv)
    want_hs = os.environ.get("VERIF_HASHSEED", "0")
    if os.environ.get("PYTHONHASHSEED") != want_hs or not os.environ.get("VERIF_REEXEC"):
        env = dict(os.environ, PYTHONHASHSEED=want_hs, PYTHONDONTWRITEBYTECODE="1",
                   VERIF_REEXEC="1")
        os.chdir(VERIF)
        os.execve(sys.executable, [sys.executable, "-m", "sim.runner"] + argv, env)
    sys.path.insert(0, VERIF)
    import warnings
    warnings.filterwarnings("ignore", message="coroutine .* was never awaited")
    # the code under test: /repo's working tree, or a scratch copy for mutants
    sys.path.insert(0, os.environ.get("VERIF_REPO", "/repo"))
    import argparse
    ap = argparse.ArgumentParser()
    ap.add_argument("prop", nargs="?")
    ap.add_argument("--tier", default=os.environ.get("VERIF_TIER", "quick"))
    ap.add_argument("--seed", type=int, default=None)
    ap.add_argument("--replay")
    ap.add_argument("--runs", type=int)
    ap.add_argument("--workers", type=int)
    ap.add_argument("--one", type=int, help="run a single index and print the result")
    ap.add_argument("--scenario")
    ap.add_argument("--digests", type=int, help="print the trace digest of the first N "
                    "runs of every scenario (determinism self-test)")
    a = ap.parse_args(argv)
    if a.replay:
        return replay_file(a.replay)
    seed = a.seed if a.seed is not None else int(os.environ.get("VERIF_SEED", DEFAULT_SEED))
    if a.digests:
        mod = load_check(a.prop)
        for scenario in mod.SCENARIOS:
            for i in range(a.digests):
                res = one_run(mod, scenario, seed=derive_seed(seed, a.prop, scenario, i))
                v = res.get("violations") or [{}]
                print(f"{a.prop} {scenario} {i} {res.get('digest')} {res['tape_len']} "
                      f"{v[0].get('rule', '-')}")
        return 0
    if a.one is not None:
        mod = load_check(a.prop)
        scenario = a.scenario or next(iter(mod.SCENARIOS))
        s = derive_seed(seed, a.prop, scenario, a.one)
        res = one_run(mod, scenario, seed=s)
        tape = res.pop("tape")
        print(json.dumps({k: v for k, v in res.items() if k != "states"},
                         indent=1, default=str)[:6000])
        print("fired:", dict(tape.counts))
        return 0
    return run_check(a.prop, a.tier, seed, workers=a.workers, runs_override=a.runs)


if __name__ == "__main__":
    sys.exit(main())
