"""SimCPU -- an instruction-stepping interpreter for Linux eBPF byte code.

This module is the trusted base of the simulator: it executes the *real*
bytes the ebpfcat generator emits, one instruction per :meth:`Instance.step`.
It is pure Python, has no dependencies and is deterministic: it never reads
a clock, never draws a random number itself (the helpers ``ktime_get_ns`` and
``get_prandom_u32`` ask the environment object) and never iterates over a
container whose order depends on hashing.

There is deliberately **no verifier**.  Instead, everything the real verifier
would have proven impossible is checked dynamically and reported as a
:class:`CpuFault`: access outside a memory region, read of a register or stack
byte that was never written, unknown opcode, jump out of the program, write to
r10, too many steps, bad helper arguments.  When in doubt this interpreter
faults instead of guessing a value.

Memory model
------------
Every memory region (stack of one instance, xdp_md context, packet, one map
value, ...) gets a unique 64 bit virtual base address from an
:class:`AddressSpace`.  Bases are ``(n + 1) << 36``: bits 0..35 of a base are
zero and regions are (much) smaller than 2**36 bytes, so a pointer truncated to
32 bits (a typical code generator bug: 32 bit ALU operation on a pointer) is
below the first base and can never be dereferenced.  Registers hold plain
Python ints (always in ``0 .. 2**64-1``) or ``None`` (never written).  Pointer
arithmetic is integer arithmetic; a load or store finds its region by a range
lookup and must lie completely inside ONE region.

Map protocol
------------
Maps live in :mod:`kernel`; the helpers here use them through this interface:

``map.kind``            "array" | "percpu_array" | "hash" | "lru_hash" | "prog_array"
``map.key_size``, ``map.value_size``, ``map.max_entries``
``map.prog_lookup(key: bytes, cpu) -> Region | None``
``map.prog_update(key: bytes, value: bytes, flags: int, cpu) -> int`` (0 or -errno)
``map.prog_delete(key: bytes) -> int`` (0 or -errno)
``map.prog_at(index: int) -> program | None`` (prog_array only)

Programs are objects with ``insns`` (the list :func:`decode_program` returns),
``id`` and ``name``.

ISA facts relied on (Documentation/bpf/standardization/instruction-set.rst and
kernel/bpf/core.c ``___bpf_prog_run``) are commented where they are used.
"""

from bisect import bisect_right
from struct import unpack_from

__all__ = ["CpuFault", "DecodeError", "Region", "AddressSpace", "Instance",
           "decode_program", "disasm", "disasm_program", "MAX_TAIL_CALLS",
           "STACK_SIZE"]

M64 = (1 << 64) - 1
M32 = (1 << 32) - 1
SIGN64 = 1 << 63
SIGN32 = 1 << 31

STACK_SIZE = 512       # MAX_BPF_STACK
MAX_TAIL_CALLS = 33    # MAX_TAIL_CALL_CNT
XDP_MD_SIZE = 24       # sizeof(struct xdp_md)

# instruction classes (opcode & 7)
BPF_LD, BPF_LDX, BPF_ST, BPF_STX, BPF_ALU, BPF_JMP, BPF_JMP32, BPF_ALU64 = \
    range(8)

# width of a memory access from the size bits (opcode & 0x18)
SIZE_BYTES = {0x00: 4, 0x08: 2, 0x10: 1, 0x18: 8}

HELPER_NAMES = {
    1: "map_lookup_elem", 2: "map_update_elem", 3: "map_delete_elem",
    5: "ktime_get_ns", 7: "get_prandom_u32", 8: "get_smp_processor_id",
    12: "tail_call"}


class CpuFault(Exception):
    """The interpreter refuses to continue.

    Either the program does something the real verifier would have rejected,
    or it uses a feature this simulator does not model.  It is never a
    property verdict by itself, and it is never silently turned into a value.
    """

    def __init__(self, pc, insn, reason, prog=None):
        self.pc = pc
        self.insn = insn
        self.reason = reason
        self.prog = prog
        where = "" if prog is None else \
            f" prog #{getattr(prog, 'id', '?')} {getattr(prog, 'name', '')!r}"
        text = disasm(insn) if insn is not None else "<no instruction>"
        super().__init__(f"pc={pc}{where}: {text}: {reason}")


class DecodeError(ValueError):
    """byte code that the kernel refuses structurally at load time (EINVAL)"""


# --------------------------------------------------------------------------
# memory
# --------------------------------------------------------------------------

class Region:
    """one contiguous piece of simulated memory

    ``data`` is a bytearray or a writable memoryview (e.g. a slice of a map's
    backing store).  ``kind`` says what it is ("stack", "ctx", "packet",
    "map_value"); ``init`` is the per-byte "has been written" mask of a stack.
    """
    __slots__ = ("name", "data", "base", "end", "writable", "kind", "init",
                 "owner")

    def __init__(self, name, data, base, writable=True, kind="mem"):
        self.name = name
        self.data = data
        self.base = base
        self.end = base + len(data)
        self.writable = writable
        self.kind = kind
        self.init = None
        self.owner = None

    def __len__(self):
        return self.end - self.base

    def __repr__(self):
        return (f"<Region {self.name} {self.kind} "
                f"{self.base:#x}+{self.end - self.base}>")


class AddressSpace:
    """allocator and range lookup for the regions of one simulated machine

    Base addresses are never reused, so a stale pointer to a released region
    faults instead of hitting something else.
    """
    SHIFT = 36

    def __init__(self):
        self._next = 0
        self._bases = []     # sorted, parallel to _regions
        self._regions = []
        self.handles = {}    # int address -> object (map handles)

    def _new_base(self):
        self._next += 1
        base = self._next << self.SHIFT
        if base > M64 - (1 << self.SHIFT):
            raise MemoryError("simulated address space exhausted")
        return base

    def alloc(self, name, data, kind="mem", writable=True):
        """make `data` addressable and return its :class:`Region`"""
        if len(data) >= 1 << self.SHIFT:
            raise ValueError("region too large")
        region = Region(name, data, self._new_base(), writable, kind)
        # bases grow monotonically: appending keeps the lists sorted
        self._bases.append(region.base)
        self._regions.append(region)
        return region

    def alloc_handle(self, obj):
        """an address that stands for `obj` but cannot be dereferenced"""
        addr = self._new_base()
        self.handles[addr] = obj
        return addr

    def release(self, region):
        i = bisect_right(self._bases, region.base) - 1
        if i >= 0 and self._regions[i] is region:
            del self._bases[i]
            del self._regions[i]

    def find(self, addr, size):
        """the region that contains ``addr .. addr+size-1`` completely"""
        i = bisect_right(self._bases, addr) - 1
        if i < 0:
            return None
        region = self._regions[i]
        if addr + size > region.end:
            return None
        return region

    def __len__(self):
        return len(self._regions)


# --------------------------------------------------------------------------
# decoding
# --------------------------------------------------------------------------

ALU_NAMES = {0x00: "+=", 0x10: "-=", 0x20: "*=", 0x30: "/=", 0x40: "|=",
             0x50: "&=", 0x60: "<<=", 0x70: ">>=", 0x90: "%=", 0xa0: "^=",
             0xb0: "=", 0xc0: "s>>="}
JMP_NAMES = {0x10: "==", 0x20: ">", 0x30: ">=", 0x40: "&", 0x50: "!=",
             0x60: "s>", 0x70: "s>=", 0xa0: "<", 0xb0: "<=", 0xc0: "s<",
             0xd0: "s<="}
SIZE_NAMES = {0x00: "u32", 0x08: "u16", 0x10: "u8", 0x18: "u64"}


def _bad(pc, reason):
    raise DecodeError(f"insn {pc}: {reason}")


def decode_program(raw, resolve_map_fd, max_insns=None):
    """decode raw eBPF byte code into the list :class:`Instance` executes

    Every element is a tuple ``(opcode, dst, src, off, imm)`` with signed
    ``off`` and ``imm``, or ``None`` for the second slot of LD_IMM64 (jumping
    there is a fault).  For LD_IMM64 ``imm`` is the complete 64 bit value; if
    its src_reg is BPF_PSEUDO_MAP_FD (1) the fd is resolved *now* through
    ``resolve_map_fd(fd) -> handle address`` -- exactly like the kernel, which
    takes its map references at load time so that later closing the fd does
    not matter.

    Only structural checks are done, the ones where the kernel says "uses
    reserved fields" / "invalid opcode" and that need no data flow analysis:
    an encoding the kernel cannot accept must not run here.  :class:`DecodeError`
    corresponds to EINVAL from BPF_PROG_LOAD.
    """
    raw = bytes(raw)
    if len(raw) % 8:
        raise DecodeError("program length is not a multiple of 8")
    count = len(raw) // 8
    insns = []
    pc = 0
    while pc < count:
        op, regs, off, imm = unpack_from("<BBhi", raw, pc * 8)
        dst = regs & 15
        src = regs >> 4
        cls = op & 7
        if dst > 10 or (src > 10 and op != 0x18):
            _bad(pc, f"invalid register r{max(dst, src)}")
        if op == 0x18:  # LD_IMM64: two slots, imm64 = imm | next.imm << 32
            if pc + 1 >= count:
                _bad(pc, "incomplete LD_IMM64")
            op2, regs2, off2, imm2 = unpack_from("<BBhi", raw, pc * 8 + 8)
            if op2 or regs2 or off2 or off:
                _bad(pc, "LD_IMM64 uses reserved fields")
            if dst == 10:
                _bad(pc, "frame pointer is read only")
            if src == 0:
                value = (imm & M32) | (imm2 & M32) << 32
            elif src == 1:  # BPF_PSEUDO_MAP_FD: imm is a map fd, imm2 is 0
                if imm2:
                    _bad(pc, "LD_IMM64 map fd uses reserved fields")
                value = resolve_map_fd(imm)
            else:
                _bad(pc, f"LD_IMM64 pseudo source {src} is not modelled")
            insns.append((op, dst, src, 0, value))
            insns.append(None)
            pc += 2
            continue
        _check_insn(pc, op, cls, dst, src, off, imm)
        insns.append((op, dst, src, off, imm))
        pc += 1
    return insns


def _check_insn(pc, op, cls, dst, src, off, imm):
    """the reserved-field checks of the verifier (check_alu_op, do_check)"""
    code = op & 0xf0
    use_reg = op & 0x08
    if cls == BPF_ALU or cls == BPF_ALU64:
        if code == 0xd0:  # END
            # class ALU: 0xd4 to-LE, 0xdc to-BE.  Class ALU64 (0xd7) is the
            # v4 unconditional BSWAP, which has no to-BE form.
            if src or off or imm not in (16, 32, 64) or \
                    (cls == BPF_ALU64 and use_reg):
                _bad(pc, "BPF_END uses reserved fields")
            if cls == BPF_ALU64:
                _bad(pc, "BPF_BSWAP (cpu v4) is not modelled")
        elif code == 0x80:  # NEG has no operand at all
            if use_reg or src or off or imm:
                _bad(pc, "BPF_NEG uses reserved fields")
        elif code in ALU_NAMES:
            if off:  # v4: off=1 SDIV/SMOD, off=8/16/32 MOVSX
                _bad(pc, "signed division / sign extending mov "
                         "(cpu v4) is not modelled")
            if use_reg:
                if imm:
                    _bad(pc, "BPF_ALU uses reserved fields")
            else:
                if src:
                    _bad(pc, "BPF_ALU uses reserved fields")
                if code in (0x30, 0x90) and imm == 0:
                    _bad(pc, "division by zero")
                if code in (0x60, 0x70, 0xc0) and \
                        not 0 <= imm < (64 if cls == BPF_ALU64 else 32):
                    _bad(pc, f"invalid shift {imm}")
        else:
            _bad(pc, f"invalid BPF_ALU opcode {op:#x}")
        if dst == 10:
            _bad(pc, "frame pointer is read only")
    elif cls == BPF_JMP or cls == BPF_JMP32:
        if code == 0x00:  # JA
            if cls == BPF_JMP32:
                _bad(pc, "32 bit offset jump (cpu v4) is not modelled")
            if use_reg or dst or src or imm:
                _bad(pc, "BPF_JA uses reserved fields")
        elif code == 0x80:  # CALL
            if cls == BPF_JMP32 or use_reg or dst or off:
                _bad(pc, "BPF_CALL uses reserved fields")
            if src:  # 1 = bpf-to-bpf call, 2 = kfunc
                _bad(pc, f"call with pseudo source {src} is not modelled")
        elif code == 0x90:  # EXIT
            if cls == BPF_JMP32 or use_reg or dst or src or off or imm:
                _bad(pc, "BPF_EXIT uses reserved fields")
        elif code in JMP_NAMES:
            if use_reg:
                if imm:
                    _bad(pc, "BPF_JMP uses reserved fields")
            elif src:
                _bad(pc, "BPF_JMP uses reserved fields")
        else:
            _bad(pc, f"invalid BPF_JMP opcode {op:#x}")
    elif cls == BPF_LDX:
        if op & 0xe0 != 0x60:  # only mode MEM; 0x80 = MEMSX is cpu v4
            _bad(pc, f"load mode of opcode {op:#x} is not modelled")
        if imm:
            _bad(pc, "BPF_LDX uses reserved fields")
        if dst == 10:
            _bad(pc, "frame pointer is read only")
    elif cls == BPF_ST:
        if op & 0xe0 != 0x60:
            _bad(pc, f"invalid BPF_ST opcode {op:#x}")
        if src:
            _bad(pc, "BPF_ST uses reserved fields")
    elif cls == BPF_STX:
        mode = op & 0xe0
        if mode == 0xc0:  # ATOMIC, only on W and DW
            if op & 0x18 not in (0x00, 0x18):
                _bad(pc, "invalid atomic operand size")
            if imm != 0:  # 0 = BPF_ADD without BPF_FETCH, the old XADD
                _bad(pc, f"atomic operation {imm:#x} is not modelled")
        elif mode == 0x60:
            if imm:
                _bad(pc, "BPF_STX uses reserved fields")
        else:
            _bad(pc, f"invalid BPF_STX opcode {op:#x}")
    else:  # class LD other than LD_IMM64: legacy packet access
        _bad(pc, f"opcode {op:#x} is not modelled")


def disasm(insn):
    """one decoded instruction as text (for fault messages and reports)"""
    if insn is None:
        return "(second slot of ld_imm64)"
    op, dst, src, off, imm = insn
    cls = op & 7
    code = op & 0xf0
    if op == 0x18:
        what = "map " if src == 1 else ""
        return f"({op:02x}) r{dst} = {what}{imm:#x} ll"
    if cls in (BPF_ALU, BPF_ALU64):
        r = "r" if cls == BPF_ALU64 else "w"
        if code == 0xd0:
            return f"({op:02x}) r{dst} = {'be' if op & 8 else 'le'}{imm} r{dst}"
        if code == 0x80:
            return f"({op:02x}) {r}{dst} = -{r}{dst}"
        operand = f"{r}{src}" if op & 8 else str(imm)
        return f"({op:02x}) {r}{dst} {ALU_NAMES.get(code, '?')} {operand}"
    if cls in (BPF_JMP, BPF_JMP32):
        if op == 0x05:
            return f"({op:02x}) goto {off:+d}"
        if op == 0x85:
            return f"({op:02x}) call {HELPER_NAMES.get(imm, '?')}#{imm}"
        if op == 0x95:
            return f"({op:02x}) exit"
        r = "r" if cls == BPF_JMP else "w"
        operand = f"{r}{src}" if op & 8 else str(imm)
        return (f"({op:02x}) if {r}{dst} {JMP_NAMES.get(code, '?')} "
                f"{operand} goto {off:+d}")
    size = SIZE_NAMES[op & 0x18]
    if cls == BPF_LDX:
        return f"({op:02x}) r{dst} = *({size} *)(r{src} {off:+d})"
    if cls == BPF_ST:
        return f"({op:02x}) *({size} *)(r{dst} {off:+d}) = {imm}"
    if cls == BPF_STX:
        if op & 0xe0 == 0xc0:
            return f"({op:02x}) lock *({size} *)(r{dst} {off:+d}) += r{src}"
        return f"({op:02x}) *({size} *)(r{dst} {off:+d}) = r{src}"
    return f"({op:02x}) ? dst={dst} src={src} off={off} imm={imm}"


def disasm_program(insns):
    return "\n".join(f"{pc:4}: {disasm(insn)}"
                     for pc, insn in enumerate(insns) if insn is not None)


# --------------------------------------------------------------------------
# execution
# --------------------------------------------------------------------------

class _NullEnv:
    """environment for an Instance that runs without a SimKernel"""
    stats = None

    def ktime(self):
        raise CpuFault(None, None, "no clock in this environment")

    def prandom(self):
        raise CpuFault(None, None, "no random source in this environment")


class Instance:
    """one execution of one loaded program on one simulated CPU

    :param prog: object with ``insns`` (from :func:`decode_program`), ``id``
       and ``name``
    :param space: the :class:`AddressSpace` shared with the maps
    :param env: object with ``ktime()``, ``prandom()`` and ``stats`` (a dict
       of counters or None); normally the SimKernel
    :param packet: a bytearray, used in place (the program's stores are
       visible to the caller), or None
    :param ctx: the three non-pointer words of xdp_md as a tuple
       ``(ingress_ifindex, rx_queue_index, egress_ifindex)``
    :param strict_alignment: fault on any misaligned access, as the verifier
       does on architectures without efficient unaligned access.  Stack and
       context accesses must always be aligned.
    """

    def __init__(self, prog, space, env=None, cpu=0, packet=None,
                 ctx=(0, 0, 0), trace=None, strict_alignment=False):
        self.prog = prog
        self.insns = prog.insns
        self.space = space
        self.env = env if env is not None else _NullEnv()
        self.cpu = cpu
        self.trace = trace
        self.strict_alignment = strict_alignment
        self.pc = 0
        self.done = False
        self.retval = None
        self.steps = 0
        self.tail_calls = []
        self.on_done = None

        self.stack = space.alloc(f"stack@cpu{cpu}", bytearray(STACK_SIZE),
                                 "stack")
        self.stack.init = bytearray(STACK_SIZE)

        ctxdata = bytearray(XDP_MD_SIZE)
        for i, word in enumerate(ctx):
            ctxdata[12 + 4 * i:16 + 4 * i] = (word & M32).to_bytes(4, "little")
        self.ctx = space.alloc("xdp_md", ctxdata, "ctx", writable=False)
        if packet is None:
            self.packet = None
        else:
            self.packet = space.alloc("packet", packet, "packet")

        # r1 = context, r10 = frame pointer (one past the top of the stack),
        # everything else has never been written
        self.regs = [None] * 11
        self.regs[1] = self.ctx.base
        self.regs[10] = self.stack.base + STACK_SIZE

    # ---- bookkeeping -----------------------------------------------------

    def release(self):
        """take the private regions out of the address space"""
        self.space.release(self.stack)
        self.space.release(self.ctx)
        if self.packet is not None:
            self.space.release(self.packet)

    def _fault(self, reason):
        pc = self.pc
        insn = self.insns[pc] if 0 <= pc < len(self.insns) else None
        raise CpuFault(pc, insn, reason, self.prog)

    def _finish(self, retval):
        self.retval = retval
        self.done = True
        if self.on_done is not None:
            self.on_done(self)

    def run(self, max_steps=100000):
        """step until the program exits and return its return value"""
        while not self.done:
            if self.steps >= max_steps:
                self._fault(f"more than {max_steps} steps")
            self.step()
        return self.retval

    # ---- memory ----------------------------------------------------------

    def _region(self, addr, size, write):
        region = self.space.find(addr, size)
        if region is None:
            self._fault(f"{'store to' if write else 'load from'} "
                        f"{addr:#x}..+{size}: not inside any memory region")
        kind = region.kind
        if kind == "stack":
            # the verifier insists on aligned stack access on every
            # architecture (its spill tracking depends on it)
            if addr % size:
                self._fault(f"misaligned stack access at fp{addr - region.end}"
                            f" size {size}")
        elif kind == "ctx":
            self._fault("this kind of access to the context is not allowed")
        elif self.strict_alignment and addr % size:
            self._fault(f"misaligned access to {region.name} "
                        f"offset {addr - region.base} size {size}")
        if write and not region.writable:
            self._fault(f"store to read-only region {region.name}")
        return region

    def load(self, addr, size):
        """read `size` bytes little endian, as LDX does"""
        region = self._region(addr, size, False)
        o = addr - region.base
        if region.init is not None and \
                region.init.count(1, o, o + size) != size:
            self._fault(f"read of uninitialised stack at fp{addr - region.end}"
                        f" size {size}")
        return int.from_bytes(region.data[o:o + size], "little")

    def store(self, addr, size, value):
        """write the low `size` bytes of `value` little endian"""
        region = self._region(addr, size, True)
        o = addr - region.base
        region.data[o:o + size] = \
            (value & ((1 << 8 * size) - 1)).to_bytes(size, "little")
        if region.init is not None:
            region.init[o:o + size] = b"\1" * size

    def _atomic_add(self, addr, size, value):
        # checked against the real verifier: atomics must be naturally
        # aligned everywhere ("misaligned value access") and are refused
        # on packet memory ("BPF_ATOMIC stores into R7 pkt is not allowed")
        region = self.space.find(addr, size)
        if region is not None and region.kind not in ("stack", "map_value"):
            self._fault(f"atomic operation on {region.kind} memory")
        if addr % size:
            self._fault(f"misaligned atomic operation at {addr:#x} "
                        f"size {size}")
        self.store(addr, size, self.load(addr, size) + value)

    def read_bytes(self, addr, size, what):
        """helper argument: `size` readable bytes at `addr`"""
        region = self.space.find(addr, size)
        if region is None or region.kind == "ctx":
            self._fault(f"{what} pointer {addr:#x} does not point to {size} "
                        f"readable bytes")
        o = addr - region.base
        if region.init is not None and \
                region.init.count(1, o, o + size) != size:
            self._fault(f"{what} at fp{addr - region.end} size {size} is not "
                        f"fully initialised")
        return bytes(region.data[o:o + size])

    def _load_ctx(self, off, size):
        """4 byte load from xdp_md

        The verifier rewrites context accesses (xdp_convert_ctx_access): a
        load of the u32 fields ``data`` / ``data_end`` / ``data_meta`` yields
        the full 64 bit pointer.  xdp_is_valid_access allows nothing but
        aligned 4 byte loads inside the struct.
        """
        if size != 4 or off % 4 or not 0 <= off < XDP_MD_SIZE:
            self._fault(f"invalid context access off={off} size={size}")
        if off < 12:
            if self.packet is None:
                self._fault("context has no packet")
            if off == 4:                     # data_end
                return self.packet.end
            return self.packet.base          # data, data_meta (no metadata)
        if off == 20:
            # egress_ifindex: only for programs attached to a devmap
            # (expected_attach_type BPF_XDP_DEVMAP), else the verifier refuses
            self._fault("invalid context access: egress_ifindex")
        return int.from_bytes(self.ctx.data[off:off + 4], "little")

    # ---- the instruction set --------------------------------------------

    def step(self):
        """execute exactly one instruction; True when the program has exited"""
        if self.done:
            raise CpuFault(self.pc, None, "step() on a finished program",
                           self.prog)
        pc = self.pc
        insns = self.insns
        if not 0 <= pc < len(insns):
            self._fault("program counter outside of the program")
        insn = insns[pc]
        if insn is None:
            self._fault("jump into the middle of LD_IMM64")
        op, dst, src, off, imm = insn
        self.steps += 1
        if self.trace is not None:
            self.trace.append((self.prog.id, pc))
        regs = self.regs
        cls = op & 7

        if cls == BPF_ALU64 or cls == BPF_ALU:
            self._alu(cls, op, dst, src, imm)
            self.pc = pc + 1

        elif cls == BPF_JMP or cls == BPF_JMP32:
            code = op & 0xf0
            if code == 0x90:                        # EXIT
                r0 = regs[0]
                if r0 is None:
                    self._fault("exit with uninitialised r0")
                # the return value of a program is a u32
                self._finish(r0 & M32)
                return True
            if code == 0x80:                        # CALL helper
                self._call(imm)
                return False
            if code == 0x00:                        # JA
                taken = True
            else:
                a = regs[dst]
                if a is None:
                    self._fault(f"read of uninitialised r{dst}")
                if op & 8:
                    b = regs[src]
                    if b is None:
                        self._fault(f"read of uninitialised r{src}")
                else:
                    # imm is sign extended to 64 bit (JMP); JMP32 compares
                    # the low halves, so masking below does both cases
                    b = imm & M64
                if cls == BPF_JMP32:
                    a &= M32
                    b &= M32
                    sign = SIGN32
                else:
                    sign = SIGN64
                if code == 0x10:
                    taken = a == b
                elif code == 0x50:
                    taken = a != b
                elif code == 0x20:
                    taken = a > b
                elif code == 0x30:
                    taken = a >= b
                elif code == 0xa0:
                    taken = a < b
                elif code == 0xb0:
                    taken = a <= b
                elif code == 0x40:
                    taken = (a & b) != 0
                else:
                    # signed: flipping the sign bit maps two's complement
                    # order onto unsigned order
                    a ^= sign
                    b ^= sign
                    if code == 0x60:
                        taken = a > b
                    elif code == 0x70:
                        taken = a >= b
                    elif code == 0xc0:
                        taken = a < b
                    elif code == 0xd0:
                        taken = a <= b
                    else:
                        self._fault("unknown jump opcode")
            if taken:
                target = pc + 1 + off
                if not 0 <= target < len(insns):
                    self._fault(f"jump out of the program to {target}")
                self.pc = target
            else:
                self.pc = pc + 1

        elif cls == BPF_LDX:
            if op & 0xe0 != 0x60:
                self._fault("unknown opcode")
            if dst == 10:
                self._fault("write to r10")
            base = regs[src]
            if base is None:
                self._fault(f"read of uninitialised r{src}")
            size = SIZE_BYTES[op & 0x18]
            addr = (base + off) & M64
            if self.ctx.base <= addr < self.ctx.end:
                regs[dst] = self._load_ctx(addr - self.ctx.base, size)
            else:
                regs[dst] = self.load(addr, size)   # zero extended
            self.pc = pc + 1

        elif cls == BPF_STX or cls == BPF_ST:
            mode = op & 0xe0
            base = regs[dst]
            if base is None:
                self._fault(f"read of uninitialised r{dst}")
            size = SIZE_BYTES[op & 0x18]
            addr = (base + off) & M64
            if cls == BPF_ST:
                if mode != 0x60:
                    self._fault("unknown opcode")
                # the immediate is sign extended, then truncated to the size
                self.store(addr, size, imm & M64)
            else:
                value = regs[src]
                if value is None:
                    self._fault(f"read of uninitialised r{src}")
                if mode == 0x60:
                    self.store(addr, size, value)
                elif mode == 0xc0 and imm == 0 and size >= 4:
                    # atomic add (XADD): the complete read-modify-write is
                    # one indivisible step, and the addend register is left
                    # alone (no BPF_FETCH)
                    self._atomic_add(addr, size, value)
                else:
                    self._fault("unknown opcode")
            self.pc = pc + 1

        elif op == 0x18:                            # LD_IMM64, two slots
            if dst == 10:
                self._fault("write to r10")
            regs[dst] = imm
            self.pc = pc + 2

        else:
            self._fault("unknown opcode")
        return False

    def _alu(self, cls, op, dst, src, imm):
        regs = self.regs
        code = op & 0xf0
        if dst == 10:
            self._fault("write to r10")
        wide = cls == BPF_ALU64

        if code == 0xd0:                            # END (byte swap)
            a = regs[dst]
            if a is None:
                self._fault(f"read of uninitialised r{dst}")
            if wide or imm not in (16, 32, 64):
                self._fault("unknown opcode")
            a &= (1 << imm) - 1
            if op & 8:
                # to big endian on a little endian machine: swap the low
                # imm bits; to little endian is just the truncation
                a = int.from_bytes(a.to_bytes(imm // 8, "little"), "big")
            regs[dst] = a
            return

        if code == 0x80:                            # NEG has no source
            b = 0
        elif op & 8:
            b = regs[src]
            if b is None:
                self._fault(f"read of uninitialised r{src}")
        else:
            # ALU64 sign extends the immediate; ALU uses it as 32 bit, which
            # the masking below produces from the same value
            b = imm & M64

        if code == 0xb0:                            # MOV does not read dst
            a = 0
        else:
            a = regs[dst]
            if a is None:
                self._fault(f"read of uninitialised r{dst}")

        if wide:
            mask, bits, sign = M64, 64, SIGN64
        else:
            # 32 bit operations work on the low halves and zero the upper
            # half of the destination
            mask, bits, sign = M32, 32, SIGN32
            a &= M32
            b &= M32

        if code == 0x00:
            r = a + b
        elif code == 0x10:
            r = a - b
        elif code == 0x20:
            r = a * b
        elif code == 0x30:                          # unsigned; x / 0 == 0
            r = a // b if b else 0
        elif code == 0x90:                          # unsigned; x % 0 == x
            r = a % b if b else a
        elif code == 0x40:
            r = a | b
        elif code == 0x50:
            r = a & b
        elif code == 0xa0:
            r = a ^ b
        elif code == 0x60:                          # shift count is masked
            r = a << (b & (bits - 1))
        elif code == 0x70:
            r = a >> (b & (bits - 1))
        elif code == 0xc0:                          # arithmetic shift
            if a & sign:
                a -= 1 << bits
            r = a >> (b & (bits - 1))
        elif code == 0x80:
            r = -a
        elif code == 0xb0:
            r = b
        else:
            self._fault("unknown opcode")
        regs[dst] = r & mask

    # ---- helpers ---------------------------------------------------------

    def _arg(self, no):
        value = self.regs[no]
        if value is None:
            self._fault(f"helper argument r{no} is uninitialised")
        return value

    def _map_arg(self, no, kinds, helper):
        m = self.space.handles.get(self._arg(no))
        if m is None:
            self._fault(f"{helper}: r{no} is not a map")
        if m.kind not in kinds:
            self._fault(f"{helper}: not allowed on a {m.kind} map")
        return m

    def _call(self, func):
        regs = self.regs
        stats = self.env.stats
        if stats is not None:
            key = f"helper.{func}"
            stats[key] = stats.get(key, 0) + 1
        data_maps = ("array", "percpu_array", "hash", "lru_hash")

        if func == 1:                               # map_lookup_elem
            m = self._map_arg(1, data_maps, "map_lookup_elem")
            key = self.read_bytes(self._arg(2), m.key_size, "key")
            region = m.prog_lookup(key, self.cpu)
            result = 0 if region is None else region.base
        elif func == 2:                             # map_update_elem
            m = self._map_arg(1, data_maps, "map_update_elem")
            key = self.read_bytes(self._arg(2), m.key_size, "key")
            value = self.read_bytes(self._arg(3), m.value_size, "value")
            result = m.prog_update(key, value, self._arg(4), self.cpu) & M64
        elif func == 3:                             # map_delete_elem
            m = self._map_arg(1, data_maps, "map_delete_elem")
            key = self.read_bytes(self._arg(2), m.key_size, "key")
            result = m.prog_delete(key) & M64
        elif func == 5:                             # ktime_get_ns
            result = self.env.ktime() & M64
        elif func == 7:                             # get_prandom_u32
            result = self.env.prandom() & M32
        elif func == 8:                             # get_smp_processor_id
            result = self.cpu
        elif func == 12:                            # tail_call
            if self._tail_call():
                return
            # A failed tail call just continues with the next instruction.
            # Its prototype returns void: the verifier marks r0 as not
            # readable ("R0 !read_ok"), there is no value to model.
            result = None
        else:
            self._fault(f"helper {func} is not modelled")

        # the calling convention clobbers the argument registers; the
        # verifier marks r1-r5 unreadable after every call
        regs[0] = result
        regs[1] = regs[2] = regs[3] = regs[4] = regs[5] = None
        self.pc += 1

    def _tail_call(self):
        """bpf_tail_call(ctx, prog_array, index); True if the jump happened"""
        regs = self.regs
        if self._arg(1) != self.ctx.base:
            self._fault("tail_call: r1 is not the context")
        m = self._map_arg(2, ("prog_array",), "tail_call")
        index = self._arg(3) & M32       # the kernel uses (u32) r3
        target = None
        if index < m.max_entries and len(self.tail_calls) < MAX_TAIL_CALLS:
            target = m.prog_at(index)
        stats = self.env.stats
        if target is None:
            if stats is not None:
                stats["tail_calls_missed"] = \
                    stats.get("tail_calls_missed", 0) + 1
            return False
        if stats is not None:
            stats["tail_calls_taken"] = stats.get("tail_calls_taken", 0) + 1
        self.tail_calls.append(target.id)
        # The new program starts like a fresh one: only r1 (context) and r10
        # are defined.  The frame is reused, so the memory keeps its content,
        # but the new program may not rely on it: its own verifier run assumed
        # an unwritten stack.
        self.prog = target
        self.insns = target.insns
        self.pc = 0
        ctx = regs[1]
        for i in range(10):
            regs[i] = None
        regs[1] = ctx
        self.stack.init[:] = bytes(STACK_SIZE)
        return True
