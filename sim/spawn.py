"""multiprocessing 'spawn' context for simulated processes.

The contract of spawn that matters to ProcessSyncGroup: the Process target is
*pickled* in the parent and unpickled in a fresh interpreter; everything
travels by value except the shared-memory objects created by the context
(Array / Value), which refer to the same memory on both sides.  Here the
child is another SimProcess (thread); the object graph really goes through
pickle, shared objects travel by identity (persistent ids)."""
import ctypes
import io
import pickle


class SimValue:
    def __init__(self, typecode, value=0):
        self.typecode = typecode
        self.value = value


class SimArray:
    def __init__(self, typecode, size):
        ctype = {"B": ctypes.c_ubyte, "b": ctypes.c_byte, "i": ctypes.c_int,
                 "I": ctypes.c_uint, "d": ctypes.c_double}[typecode]
        self.obj = (ctype * size)()

    def get_obj(self):
        return self.obj


class SimChild:
    """what multiprocessing.Process is to its parent"""

    def __init__(self, ctx, target, args=(), kwargs=None):
        self.ctx, self.target, self.args, self.kwargs = ctx, target, args, kwargs or {}
        self.pid = None
        self.proc = None
        self.pickle_size = None

    def start(self):
        ctx = self.ctx
        buf = io.BytesIO()
        p = _Pickler(buf, ctx)
        p.dump((self.target, self.args, self.kwargs))
        data = buf.getvalue()
        self.pickle_size = len(data)
        ctx.world.count("spawn/pickled-bytes", len(data))

        def child_main():
            target, args, kwargs = _Unpickler(io.BytesIO(data), ctx).load()
            ctx.children_objects.append(getattr(target, "__self__", target))
            target(*args, **kwargs)
        self.proc = ctx.sched.spawn(f"child-of-{ctx.sched.current_pid()}", child_main,
                                    plain=True)
        self.pid = self.proc.pid

    def is_alive(self):
        return self.proc is not None and self.proc.state not in ("exited", "crashed")

    def join(self, timeout=None):
        pass


class SimContext:
    def __init__(self, sched, world):
        self.sched, self.world = sched, world
        self.shared = {}              # id(obj) -> obj: travels by identity
        self.children_objects = []    # the unpickled targets' objects (for the oracle)
        self.array_fault = None       # callable() -> errno or 0: Array() fails

    def _share(self, obj):
        self.shared[id(obj)] = obj
        return obj

    def Array(self, typecode, size):
        if self.array_fault is not None:
            err = self.array_fault()
            if err:
                # no shared memory to be had: EMFILE, /dev/shm full, mmap refused
                self.world.count("fault/shared-memory-allocation-failed")
                raise OSError(err, "injected failure of a shared-memory allocation")
        a = self._share(SimArray(typecode, size))
        self._share(a.obj)
        return a

    def Value(self, typecode, *args):
        return self._share(SimValue(typecode, *args))

    def Process(self, target=None, args=(), kwargs=None, **kw):
        return self._share(SimChild(self, target, args, kwargs))


class _Pickler(pickle.Pickler):
    def __init__(self, f, ctx):
        super().__init__(f, protocol=pickle.HIGHEST_PROTOCOL)
        self.ctx = ctx

    def persistent_id(self, obj):
        if obj is self.ctx:
            return ("ctx",)
        if id(obj) in self.ctx.shared and self.ctx.shared[id(obj)] is obj:
            return ("shared", id(obj))
        return None


class _Unpickler(pickle.Unpickler):
    def __init__(self, f, ctx):
        super().__init__(f)
        self.ctx = ctx

    def persistent_load(self, pid):
        if pid[0] == "ctx":
            return self.ctx
        return self.ctx.shared[pid[1]]


class AsyncioProxy:
    """stands in for the asyncio module inside ebpfcat.ebpfcat: `run` uses the
    simulated process' own loop, everything else is the real asyncio"""

    def __init__(self, sched):
        self._sched = sched

    def run(self, coro):
        return self._sched.current.loop.run_coro(coro)

    def __getattr__(self, name):
        import asyncio
        return getattr(asyncio, name)


class GcProxy:
    def collect(self):
        return 0

    def disable(self):
        pass

    def enable(self):
        pass
