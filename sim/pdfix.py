"""Process-data fixture: simulated I/O terminals with input/output areas and the
matching pre-initialised ebpfcat terminal objects, for sync-group simulations.

The simulated side is independent of ebpfcat: inputs are a pattern unique to
(terminal, byte offset, cycle) written by the terminal's application, outputs
are recorded as they land in the terminal's output area (through an FMMU or a
direct FPWR)."""
import struct

from .bus import FPWR, LRW, LWR, SimTerminal

OUT_OFF = 0x1800
IN_OFF = 0x1c00


class PDTerminal(SimTerminal):
    """SimTerminal with a process-data application"""

    def __init__(self, bus, name, station, in_sz, out_sz, **kw):
        super().__init__(bus, name, station=station, **kw)
        self.in_sz = in_sz
        self.out_sz = out_sz
        self.index = 0
        self.cycle = 0
        self.out_log = []        # (frame no, bytes of the whole output area) on change
        self.out_writes = []     # (frame no, phys, bytes) every write into the output area
        self.frame_no = 0
        self.input_fn = None     # callable(terminal, cycle) -> bytes(in_sz), or default
        struct.pack_into("<HHBBBB", self.mem, 0x800 + 16, OUT_OFF, out_sz, 0x64, 0,
                         1 if out_sz else 0, 0)
        struct.pack_into("<HHBBBB", self.mem, 0x800 + 24, IN_OFF, in_sz, 0x20, 0,
                         1 if in_sz else 0, 0)
        self.refresh_inputs()

    def pattern(self, cycle):
        k = self.index
        return bytes((17 * k + 29 * i + 101 * cycle + 7) & 0xff for i in range(self.in_sz))

    def refresh_inputs(self):
        data = self.input_fn(self, self.cycle) if self.input_fn else self.pattern(self.cycle)
        self.mem[IN_OFF:IN_OFF + self.in_sz] = data
        self.current_inputs = bytes(data)

    # outputs arriving through an FMMU
    def pd_written(self, phys, n):
        self.out_writes.append((self.bus.current_frame, phys, bytes(self.mem[phys:phys + n])))

    # outputs arriving through a direct write
    def write(self, ado, data):
        ok = super().write(ado, data)
        if ok and OUT_OFF <= ado < OUT_OFF + max(self.out_sz, 1) and self.out_sz:
            self.out_writes.append((self.bus.current_frame, ado, bytes(data)))
        return ok

    def outputs(self):
        return bytes(self.mem[OUT_OFF:OUT_OFF + self.out_sz])


def install_cycle_hook(bus):
    """make the bus tell terminals which frame is being processed, and let every
    PDTerminal advance its input pattern after each frame that passed the ring"""
    bus.current_frame = 0
    orig_ring = bus.ring

    def ring(no, frame):
        bus.current_frame = no
        out = orig_ring(no, frame)
        for t in bus.terminals:
            if isinstance(t, PDTerminal):
                t.cycle += 1
                t.refresh_inputs()
        return out
    bus.ring = ring


def make_pd_terminals(env, tape, specs):
    """specs: list of dict(in_sz, out_sz, use_fmmu, n_fmmu).  Returns (sims, terms):
    PDTerminals on env.bus and pre-initialised EBPFTerminal objects (ec unset)."""
    from ebpfcat.ebpfcat import EBPFTerminal
    sims, terms = [], []
    for k, sp in enumerate(specs):
        st = PDTerminal(env.bus, f"T{k}", 1001 + k, sp["in_sz"], sp["out_sz"],
                        n_fmmu=sp.get("n_fmmu", 4))
        st.index = k
        st.refresh_inputs()
        env.bus.add_terminal(st)
        sims.append(st)
    install_cycle_hook(env.bus)
    return sims


def ebpf_terminal(ec, st, use_fmmu=True, cls=None):
    from ebpfcat.ebpfcat import EBPFTerminal
    t = (cls or EBPFTerminal)(ec)
    t.name = st.name
    t.position = st.station
    t.use_fmmu = use_fmmu
    t.fmmu_used = [None] * st.n_fmmu
    t.mbx_out_off = t.mbx_out_sz = t.mbx_in_off = t.mbx_in_sz = None
    t.pdo_out_off, t.pdo_out_sz = OUT_OFF, st.out_sz
    t.pdo_in_off, t.pdo_in_sz = IN_OFF, st.in_sz
    t.pdo_in_addr, t.pdo_out_addr = 0x818, 0x810
    t.eeprom = {}
    t.pdos = {}
    return t
