"""Seams: rebinding of the module attributes through which ebpfcat meets the
outside world (DESIGN.md section 4).  No source change in /repo is needed.

`Env` builds one simulated world (tape, clock, bus, optional kernel) and
installs / removes the patches.  Use as a context manager around one run.
"""
import gc
import logging
import sys

from .bus import SimBus, WireFaults, endpoint_factory
from .loop import SimLoop, SimStall, World

_MISSING = object()


class Patches:
    def __init__(self):
        self.saved = []

    def set(self, module, name, value):
        old = module.__dict__.get(name, _MISSING)
        self.saved.append((module, name, old))
        setattr(module, name, value)

    def undo(self):
        for module, name, old in reversed(self.saved):
            if old is _MISSING:
                try:
                    delattr(module, name)
                except AttributeError:
                    pass
            else:
                setattr(module, name, old)
        self.saved.clear()


class LogCapture(logging.Handler):
    """library log records become trace events; never draws, never reads a clock"""

    def __init__(self, world):
        super().__init__(level=logging.DEBUG)
        self.world = world
        self.records = []

    def emit(self, record):
        try:
            msg = record.getMessage()
        except Exception:
            msg = str(record.msg)
        self.records.append((record.levelname, msg))
        self.world.log("log", record.levelname, msg)


class StallGuard:
    """PEP 669 LINE events on selected code objects: a synchronous loop of the
    library that runs more than `limit` lines inside one loop callback gets a
    SimStall raised into it (deterministic, independent of wall time)."""

    TOOL = 3

    def __init__(self, codes, limit=20000):
        self.codes = codes
        self.limit = limit
        self.count = 0
        self.active = False
        self.fired = None

    def start(self):
        mon = sys.monitoring
        try:
            mon.use_tool_id(self.TOOL, "verif-stall")
        except ValueError:
            mon.free_tool_id(self.TOOL)
            mon.use_tool_id(self.TOOL, "verif-stall")
        mon.register_callback(self.TOOL, mon.events.LINE, self._line)
        mon.register_callback(self.TOOL, mon.events.PY_RESUME, self._resume)
        mon.register_callback(self.TOOL, mon.events.PY_START, self._resume)
        for c in self.codes:
            mon.set_local_events(self.TOOL, c, mon.events.LINE
                                 | mon.events.PY_RESUME | mon.events.PY_START)
        self.active = True

    def stop(self):
        if not self.active:
            return
        mon = sys.monitoring
        for c in self.codes:
            mon.set_local_events(self.TOOL, c, 0)
        mon.register_callback(self.TOOL, mon.events.LINE, None)
        mon.register_callback(self.TOOL, mon.events.PY_RESUME, None)
        mon.register_callback(self.TOOL, mon.events.PY_START, None)
        mon.free_tool_id(self.TOOL)
        self.active = False

    def _resume(self, code, offset):
        # the coroutine/function is (re)entered from the loop: new budget
        self.count = 0

    def _line(self, code, line):
        self.count += 1
        if self.count > self.limit:
            self.count = 0
            self.fired = code.co_qualname
            raise SimStall(f"{code.co_qualname} ran {self.limit} lines without yielding")


class Env:
    """one simulated world with the ebpfcat seams installed"""

    def __init__(self, tape, *, faults=None, with_kernel=False, possible_cpus=4,
                 online_cpus=None, keep_events=0, ifname="sim0", stall_limit=6000,
                 collide=None, monitor=None, with_fs=False, cpulist=None):
        self.tape = tape
        self.world = World(tape, keep_events)
        self.patches = Patches()
        self.kernel = None
        self.monitor = monitor
        if with_kernel:
            from .kernel import SimKernel
            self.kernel = SimKernel(possible_cpus=possible_cpus,
                                    ktime=lambda: int(self.world.now * 1e9),
                                    prandom=lambda: tape.draw("kernel/prandom", 1 << 32),
                                    monitor=monitor)
        self.online_cpus = online_cpus or possible_cpus
        self.cpulist = cpulist or (f"0-{possible_cpus - 1}" if possible_cpus > 1 else "0")
        self.cpulist_fault = None      # "unreadable" / "garbage": the possible-CPU file fails
        self.loop_max_iterations = None    # iteration budget of every loop made by new_loop
        self.affinity_cpus = None      # CPUs this process may run on (None: all online ones)
        self.bus = SimBus(self.world, ifname, faults=faults, kernel=self.kernel)
        self.buses = {ifname: self.bus}
        self.logcap = LogCapture(self.world)
        self.stall = None
        self.stall_limit = stall_limit
        self.collide = collide or {}     # label -> callable(lo, hi) or None
        self.loops = []
        self.fs = None
        self.sched = None
        if with_fs:
            from .fs import SimFS
            self.fs = SimFS(self.world)
            self.fs.kernel = self.kernel
            if self.kernel is not None:
                self.kernel.fs = self.fs

    # -- tape-backed replacements for random ---------------------------------------
    def _randint(self, label):
        def randint(a, b):
            f = self.collide.get(label)
            if f is not None:
                v = f(a, b)
                if v is not None:
                    return v
            return a + self.tape.draw(label, b - a + 1)
        return randint

    def _randrange(self, label):
        def randrange(a, b=None):
            if b is None:
                a, b = 0, a
            f = self.collide.get(label)
            if f is not None:
                v = f(a, b - 1)
                if v is not None:
                    return v
            return a + self.tape.draw(label, b - a)
        return randrange

    def __enter__(self):
        import ebpfcat.ethercat as ethercat
        import ebpfcat.ebpfcat as ebpfcat_mod
        import ebpfcat.devices as devices
        import ebpfcat.lock as lock
        import ebpfcat.xdp as xdp
        import ebpfcat.bpf as bpf
        import ebpfcat.arraymap as arraymap
        import ebpfcat.ebpf as ebpf_mod
        p = self.patches
        p.set(ethercat, "randint", self._randint("rand/ethercat"))
        # device ioctls, should the library use any: the interface's MTU
        def sim_ioctl(sock, request, arg=0, mutate=True):
            import struct as _st
            if request == 0x8921 and isinstance(arg, (bytes, bytearray)):   # SIOCGIFMTU
                name = bytes(arg[:16]).split(b"\0")[0].decode()
                b_ = self.buses.get(name)
                if b_ is None:
                    raise OSError(19, "No such device")
                self.world.count("os/ioctl-mtu")
                return bytes(arg[:16]) + _st.pack("I", b_.mtu) + bytes(arg[20:])
            raise OSError(25, "Inappropriate ioctl for device")
        for mod in (ethercat, ebpfcat_mod):
            if hasattr(mod, "ioctl"):
                p.set(mod, "ioctl", sim_ioctl)

        p.set(ebpfcat_mod, "randrange", self._randrange("rand/ebpfcat"))
        p.set(lock, "randrange", self._randrange("rand/lock"))
        clock = lambda: self.world.now
        p.set(ebpfcat_mod, "monotonic", clock)
        p.set(devices, "monotonic", clock)
        p.set(xdp, "if_nametoindex", self._if_nametoindex)
        # process-global counter: every simulated run starts like a fresh process
        p.set(ebpfcat_mod.SyncGroup, "packet_index", 1000)
        if self.sched is not None:
            self.sched.track_global(ebpfcat_mod.SyncGroup, "packet_index")
        if self.kernel is not None and self.sched is not None:
            def bpf_with_preemption(cmd, fmt, *args):
                self.sched.yield_point(f"bpf/{cmd}")
                return self.kernel.bpf(cmd, fmt, *args)
            p.set(bpf, "bpf", bpf_with_preemption)
        elif self.kernel is not None:
            p.set(bpf, "bpf", self.kernel.bpf)
        if self.kernel is not None:
            p.set(arraymap, "mmap", self.kernel.mmap)
            p.set(arraymap, "cpu_count", lambda: self.online_cpus)
            # /sys/devices/system/cpu/possible of the simulated machine (kernel cpulist
            # format); the seam is the file, so that the library's own parsing runs
            def arraymap_open(path, *a, **kw):
                if str(path) == "/sys/devices/system/cpu/possible":
                    import io
                    if self.cpulist_fault == "unreadable":    # no sysfs (a container)
                        self.world.count("fault/cpu-mask-file-unreadable")
                        raise FileNotFoundError(2, "No such file or directory", str(path))
                    if self.cpulist_fault == "garbage":
                        self.world.count("fault/cpu-mask-file-unparsable")
                        return io.StringIO("\n")
                    return io.StringIO(self.cpulist + "\n")
                import builtins
                return builtins.open(path, *a, **kw)
            p.set(arraymap, "open", arraymap_open)
            # the process may be pinned to fewer CPUs than are online (taskset, cpuset):
            # whatever asks the OS for that gets the simulated answer
            # resource limits, should the library ask: the classic 64 kB of locked memory
            # (what map memory was charged against before Linux 5.11), which may be raised
            rl = {"memlock": (65536, -1)}
            if hasattr(bpf, "getrlimit"):
                p.set(bpf, "getrlimit", lambda what: rl["memlock"])
            if hasattr(bpf, "setrlimit"):
                def setrlimit(what, limits):
                    rl["memlock"] = tuple(limits)
                    self.world.count("os/setrlimit")
                p.set(bpf, "setrlimit", setrlimit)

            def n_affinity():
                return self.affinity_cpus or self.online_cpus
            import os as real_os_module
            for name in ("sched_getaffinity", "process_cpu_count"):
                fake = (lambda pid=0: set(range(n_affinity()))) \
                    if name == "sched_getaffinity" else (lambda: n_affinity())
                if hasattr(real_os_module, name):
                    p.set(real_os_module, name, fake)       # os.sched_getaffinity(0)
                for mod in (arraymap, ebpf_mod, bpf):
                    if hasattr(mod, name):                  # from os import sched_getaffinity
                        p.set(mod, name, fake)
            if self.monitor is not None:
                self.monitor.install(p, bpf)
        if self.sched is not None:
            from .spawn import AsyncioProxy, GcProxy
            p.set(ebpfcat_mod, "get_context", lambda method=None: self.spawn_ctx)
            p.set(ebpfcat_mod, "asyncio", AsyncioProxy(self.sched))
            p.set(ebpfcat_mod, "gc", GcProxy())
        if self.fs is not None:
            from .fs import FcntlProxy, OsProxy, ShutilProxy, TempfileProxy, make_open
            osp = OsProxy(self.fs, self.sched)
            p.set(lock, "os", osp)
            p.set(lock, "fcntl", FcntlProxy(self.fs))
            p.set(ebpfcat_mod, "os", osp)
            p.set(ebpfcat_mod, "tempfile", TempfileProxy(self.fs))
            p.set(ebpfcat_mod, "shutil", ShutilProxy(self.fs))
            p.set(ebpfcat_mod, "open", make_open(self.fs))
        root = logging.getLogger()
        self._old_level = root.level
        self._old_handlers = root.handlers[:]
        root.handlers[:] = [self.logcap]
        root.setLevel(logging.DEBUG)
        logging.getLogger("asyncio").setLevel(logging.WARNING)
        if self.stall_limit:
            codes = [ethercat.EtherCat.sendloop.__code__,
                     ethercat.EtherCat.find_free_address.__code__,
                     ethercat.EtherCat.roundtrip_packet.__code__,
                     ebpfcat_mod.ParallelEtherCat.get_ethertype.__code__,
                     ebpfcat_mod.FastEtherCat.register_sync_group.__wrapped__.__code__,
                     lock.FMMULock.__init__.__code__]
            import ebpfcat.hashmap as hashmap
            codes.append(hashmap.TheDict.__iter__.__code__)
            self.stall = StallGuard(codes, self.stall_limit)
            self.stall.start()
        return self

    def __exit__(self, *exc):
        if self.stall is not None:
            self.stall.stop()
        for loop in self.loops:
            loop.shutdown()
        self.loops.clear()
        root = logging.getLogger()
        root.handlers[:] = self._old_handlers
        root.setLevel(self._old_level)
        self.patches.undo()
        if self.kernel is not None:
            self.kernel.shutdown()
        return False

    def use_scheduler(self, **kw):
        """several simulated processes (baton-passing threads); call before `with`"""
        from .procs import Scheduler
        import ebpfcat.ebpfcat as ebpfcat_mod
        self.sched = Scheduler(self, **kw)
        if self.fs is not None:
            self.fs.yield_point = self.sched.yield_point
            self.fs.current_pid = self.sched.current_pid
            self.fs.block = self.sched.block_until
            self.fs.mark_hot = self.sched.hot_pids.add
        from .spawn import SimContext
        self.spawn_ctx = SimContext(self.sched, self.world)
        return self.sched

    def _if_nametoindex(self, name):
        bus = self.buses.get(name)
        if bus is None:
            raise OSError(19, "No such device")
        return bus.ifindex

    def new_loop(self, name="p0"):
        loop = SimLoop(self.world, name,
                       endpoint_factory(self.buses, self.kernel, self.world))
        if self.loop_max_iterations:
            loop.max_iterations = self.loop_max_iterations
        self.loops.append(loop)
        return loop

    def run(self, main, name="p0", max_iterations=None):
        """run coroutine function main(loop) on a fresh loop; returns its result"""
        loop = self.new_loop(name)
        if max_iterations:
            loop.max_iterations = max_iterations
        was_enabled = gc.isenabled()
        gc.disable()        # collection times must not depend on the host process
        try:
            return loop.run_coro(main(loop))
        finally:
            self.world.counters["loop/iterations-max"] = max(
                self.world.counters["loop/iterations-max"], loop.iterations)
            gc.collect()    # deliver every "never retrieved" report now
            if was_enabled:
                gc.enable()

    def loop_exceptions(self):
        """(message, exception type name, text) seen by the loop exception handlers,
        order-independent"""
        out = []
        for loop in self.loops:
            for m, x in loop.exceptions:
                out.append((m, type(x).__name__ if x is not None else None,
                            str(x) if x is not None else None))
        return sorted(out, key=repr)
