"""Strict CoE (CANopen over EtherCAT) SDO server, written from ETG.1000.6 §5.6.

This is the *mailbox application* of the simulated slave: `CoEServer.receive`
gets the raw contents of the slave's receive mailbox and returns the messages
to be queued for the send mailbox.  It is an oracle: every protocol rule the
master breaks is recorded as a `Deviation`, never silently accepted.

Pure Python, deterministic: no randomness, no clocks, sorted iteration only.

Wire format (all little endian):
  mailbox header (6): u16 length of what follows, u16 station address,
      u8 channel (bits 0..5) | priority (bits 6..7),
      u8 type (bits 0..3) | counter (bits 4..6) | reserved (bit 7)
  CoE header (2): u16 number (bits 0..8) | reserved (9..11) | service (12..15)
  SDO body: see the handlers below.
"""
from collections import namedtuple
from struct import pack, unpack_from

Deviation = namedtuple("Deviation", "rule detail message_no")

# mailbox protocol types (ETG.1000.4) and mailbox error details
MBX_ERR, MBX_AOE, MBX_EOE, MBX_COE, MBX_FOE, MBX_SOE, MBX_VOE = 0, 1, 2, 3, 4, 5, 15
ERR_SYNTAX, ERR_UNSUPPORTED_PROTOCOL, ERR_INVALID_CHANNEL = 1, 2, 3
ERR_SERVICE_NOT_SUPPORTED, ERR_INVALID_HEADER, ERR_SIZE_TOO_SHORT = 4, 5, 6
ERR_INVALID_SIZE = 8
# CoE services
SVC_EMERGENCY, SVC_SDO_REQ, SVC_SDO_RESP, SVC_SDO_INFO = 1, 2, 3, 8
# SDO abort codes
ABORT_TOGGLE = 0x05030000
ABORT_COMMAND = 0x05040001
ABORT_NO_OBJECT = 0x06020000
ABORT_NO_SUBINDEX = 0x06090011
ABORT_LENGTH = 0x06070010
ABORT_TOO_LONG = 0x06070012
ABORT_TOO_SHORT = 0x06070013
ABORT_READONLY = 0x06010002
ABORT_GENERAL = 0x08000000

REQUEST_NAMES = {0: "download-segment-req", 1: "download-init-req",
                 2: "upload-init-req", 3: "upload-segment-req", 4: "abort"}
RESPONSE_NAMES = {0: "upload-segment-resp", 1: "download-segment-resp",
                  2: "upload-init-resp", 3: "download-init-resp", 4: "abort"}


class SdoAbort(Exception):
    """raised by the object dictionary, carries the SDO abort code"""
    def __init__(self, code):
        super().__init__(f"SDO abort {code:#010x}")
        self.code = code


class Entry:
    __slots__ = ("value", "readonly", "fixed", "datatype", "bitlength",
                 "access", "name")


class ObjectDictionary:
    """index -> {subindex -> Entry}, plus per-object description

    Entries are variable-length (a download of any length replaces the value)
    unless set with ``fixed=True`` (then a download of another length is
    aborted with 0x06070012 / 0x06070013).
    """
    def __init__(self):
        self.objects = {}   # index -> {subindex -> Entry}
        self.meta = {}      # index -> dict(datatype, object_code, name, max_subindex)

    def set(self, index, subindex, value, *, readonly=False, datatype=0x0007,
            name="", fixed=False, bitlength=None, access=None):
        e = Entry()
        e.value = bytearray(value)
        e.readonly, e.fixed, e.datatype, e.name = readonly, fixed, datatype, name
        e.bitlength, e.access = bitlength, access
        self.objects.setdefault(index, {})[subindex] = e

    def describe(self, index, **kw):
        """set object-level metadata: datatype, object_code, name, max_subindex"""
        self.meta.setdefault(index, {}).update(kw)

    def indexes(self):
        return sorted(self.objects)

    def entry(self, index, subindex):
        if index not in self.objects:
            raise SdoAbort(ABORT_NO_OBJECT)
        if subindex not in self.objects[index]:
            raise SdoAbort(ABORT_NO_SUBINDEX)
        return self.objects[index][subindex]

    def get(self, index, subindex):
        return bytes(self.entry(index, subindex).value)

    def _layout(self, index, start):
        """complete-access layout: [(subindex, Entry, width in bytes)]

        ETG.1000.6: complete access starts at subindex 0 or 1 and covers all
        subindices from there in ascending order; when starting at 0,
        subindex 0 (a u8) occupies 16 bits: value + one padding byte.
        """
        self.entry(index, start)   # the first subindex must exist
        subs = self.objects[index]
        return [(s, subs[s], max(2, len(subs[s].value)) if s == 0
                 else len(subs[s].value)) for s in sorted(subs) if s >= start]

    def complete(self, index, start_sub):
        return b"".join(bytes(e.value).ljust(w, b"\0")
                        for _, e, w in self._layout(index, start_sub))

    def check_download(self, index, subindex, ca, size):
        """raise SdoAbort if a download of `size` bytes cannot be accepted"""
        if not ca:
            e = self.entry(index, subindex)
            if e.readonly:
                raise SdoAbort(ABORT_READONLY)
            need, variable = len(e.value), not e.fixed
        else:
            layout = self._layout(index, subindex)
            if any(e.readonly for s, e, _ in layout if s > 0):
                raise SdoAbort(ABORT_READONLY)
            # OD policy (not protocol): all entries keep their current width,
            # only the last one (if sub >= 1 and not fixed) takes the rest.
            s, e, w = layout[-1]
            variable = s > 0 and not e.fixed
            need = sum(w for _, _, w in layout) - (w if variable else 0)
            if variable and size < need:
                raise SdoAbort(ABORT_TOO_SHORT)
        if not variable and size != need:
            raise SdoAbort(ABORT_TOO_LONG if size > need else ABORT_TOO_SHORT)

    def write(self, index, subindex, ca, data):
        """apply a download that passed `check_download`"""
        if not ca:
            self.entry(index, subindex).value = bytearray(data)
            return
        pos = 0
        layout = self._layout(index, subindex)
        for i, (s, e, w) in enumerate(layout):
            if i == len(layout) - 1 and s > 0 and not e.fixed:
                w = len(data) - pos
            chunk = data[pos:pos + w]
            pos += w
            if s == 0:
                chunk = chunk[:len(e.value)]   # drop the padding byte
            if not e.readonly:   # read-only subindex 0 is skipped
                e.value = bytearray(chunk)

    def object_description(self, index):
        """-> (datatype, max subindex, object code, name bytes)"""
        if index not in self.objects:
            raise SdoAbort(ABORT_NO_OBJECT)
        subs, meta = self.objects[index], self.meta.get(index, {})
        code = meta.get("object_code")
        if code is None:   # 7 = VAR, 9 = RECORD
            code = 7 if sorted(subs) == [0] else 9
        first = subs[min(subs)]
        return (meta.get("datatype", first.datatype if code == 7 else 0),
                meta.get("max_subindex", max(subs)), code,
                meta.get("name", first.name if code == 7 else "").encode())

    def entry_description(self, index, subindex):
        """-> (datatype, bit length, access, name bytes)"""
        e = self.entry(index, subindex)
        # access bits 0..2: readable in PREOP/SAFEOP/OP, bits 3..5: writable
        access = e.access if e.access is not None else \
            (0x0007 if e.readonly else 0x003f)
        bits = e.bitlength if e.bitlength is not None else 8 * len(e.value)
        return e.datatype, bits, access, e.name.encode()


def describe_message(msg, direction, message_no):
    """decode one mailbox message into a log record (all keys always there)"""
    rec = dict.fromkeys((
        "length", "station", "channel", "priority", "mbx_type", "counter",
        "mbx_error", "service", "number", "command", "index", "subindex",
        "ca", "expedited", "size_indicator", "size", "toggle", "last",
        "data_len", "abort_code", "info_opcode", "incomplete",
        "fragments_left"))
    rec.update(direction=direction, message_no=message_no, msg_len=len(msg))
    if len(msg) < 6:
        return rec
    length, station, chprio, typecnt = unpack_from("<HHBB", msg)
    rec.update(length=length, station=station, channel=chprio & 0x3f,
               priority=chprio >> 6, mbx_type=typecnt & 0xf,
               counter=(typecnt >> 4) & 7)
    payload = msg[6:6 + length]
    if rec["mbx_type"] == MBX_ERR and len(payload) >= 4:
        rec["mbx_error"] = unpack_from("<H", payload, 2)[0]
    if rec["mbx_type"] != MBX_COE or len(payload) < 2:
        return rec
    coe, = unpack_from("<H", payload)
    service, body = coe >> 12, payload[2:]
    rec.update(service=service, number=coe & 0x1ff)
    if service == SVC_SDO_INFO and len(body) >= 4:
        rec.update(info_opcode=body[0] & 0x7f, incomplete=bool(body[0] & 0x80),
                   fragments_left=unpack_from("<H", body, 2)[0],
                   data_len=len(body) - 4)
    if service not in (SVC_SDO_REQ, SVC_SDO_RESP) or not body:
        return rec
    cmd = body[0]
    names = REQUEST_NAMES if service == SVC_SDO_REQ else RESPONSE_NAMES
    name = names.get(cmd >> 5, f"unknown-{cmd >> 5}")
    rec["command"] = name
    if "segment" in name:
        rec.update(toggle=(cmd >> 4) & 1)
        if name in ("download-segment-req", "upload-segment-resp"):
            # ≤ 7 data bytes: padded to 7, bits 1..3 = unused bytes;
            # longer: the mailbox length tells (length - 2 CoE - 1 command)
            rec.update(last=bool(cmd & 1), data_len=7 - ((cmd >> 1) & 7)
                       if len(body) <= 8 else len(body) - 1)
        return rec
    if len(body) >= 4:
        index, sub = unpack_from("<HB", body, 1)
        rec.update(index=index, subindex=sub)
    if name == "abort":
        if len(body) >= 8:
            rec["abort_code"] = unpack_from("<I", body, 4)[0]
    elif name in ("download-init-req", "upload-init-resp"):
        rec.update(ca=bool(cmd & 0x10), expedited=bool(cmd & 2),
                   size_indicator=bool(cmd & 1))
        if cmd & 2:
            rec["data_len"] = 4 - ((cmd >> 2) & 3) if cmd & 1 else 4
            rec["size"] = rec["data_len"]
        elif len(body) >= 8:
            rec.update(size=unpack_from("<I", body, 4)[0],
                       data_len=len(body) - 8)
    elif name == "upload-init-req":
        rec["ca"] = bool(cmd & 0x10)
    return rec


class CoEServer:
    """ETG.1000.6 SDO server behind a pair of mailboxes

    mbx_out_size: size of the mailbox the MASTER writes (slave receive mbx)
    mbx_in_size: size of the mailbox the master reads (slave send mailbox)

    Errors of the *value* (missing object, read-only, wrong length for a
    fixed entry) are answered with an abort already at the initiate request
    (see `aborts`), they are no Deviation and never show up in `downloads`.
    """
    def __init__(self, od, mbx_out_size, mbx_in_size, *, station=0,
                 check_counter=True):
        if min(mbx_out_size, mbx_in_size) < 18:
            # 6 mailbox + 2 CoE + 8 SDO header + at least some data
            raise ValueError("mailboxes must be at least 18 bytes")
        self.od = od
        self.mbx_out_size, self.mbx_in_size = mbx_out_size, mbx_in_size
        self.station, self.check_counter = station, check_counter
        self.deviations = []
        self.log = []
        self.downloads = []   # (index, subindex, ca, bytes) completed
        self.uploads = []     # (index, subindex, ca, bytes) completed
        self.aborts = []      # (index, subindex, code, message_no) we sent
        self.message_no = -1  # number of the received message in progress
        self.rx_counter = None   # counter of the previous received message
        self.new_session = False  # rx_counter is what an earlier master session left
        self.tx_counter = 0
        self.last_response = []
        self.transfer = None  # segmented transfer in progress

    # ---- helpers -------------------------------------------------------
    def _dev(self, rule, detail=""):
        self.deviations.append(Deviation(rule, detail, self.message_no))

    def _send(self, mbx_type, payload):
        """build a mailbox message with our own cyclic counter 1..7"""
        self.tx_counter = self.tx_counter % 7 + 1
        msg = pack("<HHBB", len(payload), self.station, 0,
                   mbx_type | self.tx_counter << 4) + payload
        assert len(msg) <= self.mbx_in_size, "server bug: message too long"
        return msg

    def _coe(self, service, body):
        return self._send(MBX_COE, pack("<H", service << 12) + body)

    def _mbx_error(self, detail):
        # ETG.1000.4: mailbox error reply: type 0, u16 0x01, u16 detail
        return [self._send(MBX_ERR, pack("<HH", 0x01, detail))]

    def _abort(self, index, sub, code):
        # ETG.1000.6: "Abort SDO transfer" is an SDO *request* (service 2)
        # in both directions; it terminates any transfer in progress.
        self.transfer = None
        self.aborts.append((index, sub, code, self.message_no))
        return [self._coe(SVC_SDO_REQ, pack("<BHBI", 0x80, index, sub, code))]

    def _log_tx(self, msgs, **extra):
        for m in msgs:
            rec = describe_message(m, "tx", self.message_no)
            rec.update(fits=len(m) <= self.mbx_in_size, **extra)
            self.log.append(rec)

    def make_emergency(self, code=0x1000, data=b"\0" * 5, register=0):
        """a well-formed CoE emergency: u16 error code, u8 error register,
        5 bytes manufacturer data"""
        msg = self._coe(SVC_EMERGENCY, pack("<HB5s", code, register, data))
        self._log_tx([msg], unsolicited=True)
        return msg

    def make_eoe_fragment(self, n=10):
        """a well-formed EoE fragment (type 2): frame type 0, last fragment,
        fragment 0 of frame 0, complete size in 32-byte units, n data bytes"""
        head = pack("<HH", 1 << 8, ((n + 31) // 32) << 6)
        msg = self._send(MBX_EOE, head + bytes(i & 0xff for i in range(n)))
        self._log_tx([msg], unsolicited=True)
        return msg

    # ---- mailbox layer -------------------------------------------------
    def receive(self, raw):
        self.message_no += 1
        raw = bytes(raw)
        if len(raw) < 6:
            self.log.append(describe_message(raw, "rx", self.message_no))
            self._dev("mailbox-header-truncated", f"{len(raw)} bytes")
            out = self._mbx_error(ERR_INVALID_HEADER)
        else:
            out = self._receive(raw)
            if out is None:   # repeated message: re-send, already logged
                return list(self.last_response)
        self.last_response = out
        self._log_tx(out)
        return list(out)

    def _receive(self, raw):
        length, _, chprio, typecnt = unpack_from("<HHBB", raw)
        rec = describe_message(raw[:6 + length], "rx", self.message_no)
        rec["fits"] = 6 + length <= self.mbx_out_size
        self.log.append(rec)
        counter, mtype = rec["counter"], rec["mbx_type"]
        if self.check_counter:
            prev = self.rx_counter
            if prev is None or (self.new_session and counter == 0):
                # first message: anything goes; a master that starts counting anew (new
                # session, the terminal was not reset) begins with 0 = no repeat detection
                self.rx_counter = counter
            elif counter == 0:
                # 0 = "no repeat detection"; only legal as the start value
                self._dev("counter-zero", f"after {prev}")
            elif counter == prev:
                # ETG.1000.4: same counter = repeated write of the same
                # message: dropped, the previous answer is sent once more
                self._dev("counter-repeat", f"counter {counter} twice")
                self._log_tx(self.last_response, resend=True)
                return None
            else:
                if counter != prev % 7 + 1:
                    self._dev("counter-sequence",
                              f"got {counter} after {prev}")
                self.rx_counter = counter
        self.new_session = False
        if typecnt & 0x80:
            self._dev("mailbox-reserved-bit", f"type byte {typecnt:#04x}")
        if 6 + length > self.mbx_out_size or 6 + length > len(raw):
            self._dev("mailbox-length-exceeds-mailbox",
                      f"length {length} + 6 > {self.mbx_out_size}")
            return self._mbx_error(ERR_INVALID_SIZE)
        if chprio & 0x3f:
            self._dev("mailbox-channel", f"channel {chprio & 0x3f}")
            return self._mbx_error(ERR_INVALID_CHANNEL)
        if mtype != MBX_COE:
            self._dev("mailbox-unsupported-protocol", f"type {mtype}")
            if mtype == MBX_ERR:
                return []   # an error reply is never answered
            return self._mbx_error(ERR_UNSUPPORTED_PROTOCOL)
        payload = raw[6:6 + length]
        if length < 2:
            self._dev("coe-header-truncated", f"length {length}")
            return self._mbx_error(ERR_SIZE_TOO_SHORT)
        coe, = unpack_from("<H", payload)
        service = coe >> 12
        if coe & 0x0fff:
            # number is 0 for SDO services, bits 9..11 are reserved
            self._dev("coe-number-field", f"CoE header {coe:#06x}")
        if service == SVC_SDO_REQ:
            return self._sdo_request(payload[2:])
        if service == SVC_SDO_INFO:
            return self._sdo_info(payload[2:])
        if service in (1, 3, 4, 5, 6, 7):
            # defined, but nothing a master may send to this server
            self._dev("coe-unsupported-service", f"service {service}")
        else:
            self._dev("coe-unknown-service", f"service {service}")
        return self._mbx_error(ERR_SERVICE_NOT_SUPPORTED)

    # ---- SDO -----------------------------------------------------------
    def _sdo_request(self, body):
        # every SDO request has at least 8 bytes after the CoE header
        # (ETG.1000.6: mailbox length n >= 0x0A)
        if len(body) < 8:
            self._dev("sdo-header-truncated", f"{len(body)} bytes SDO body")
            return self._mbx_error(ERR_SIZE_TOO_SHORT)
        cmd = body[0]
        index, sub = unpack_from("<HB", body, 1)
        ccs = cmd >> 5
        if ccs == 1:
            return self._download_init(cmd, index, sub, body)
        if ccs == 0:
            return self._download_segment(cmd, body)
        if ccs == 2:
            return self._upload_init(cmd, index, sub, body)
        if ccs == 3:
            return self._upload_segment(cmd, body)
        if ccs == 4:   # abort from the client: no answer
            self.transfer = None
            return []
        self._dev("sdo-unknown-command", f"command specifier {ccs}")
        return self._abort(index, sub, ABORT_COMMAND)

    def _fixed_length(self, body, what):
        if len(body) != 8:
            self._dev("sdo-request-length",
                      f"{what}: mailbox length {len(body) + 2}, must be 10")

    def _check_ca(self, cmd, index, sub):
        """complete access is only defined starting at subindex 0 or 1"""
        if cmd & 0x10 and sub > 1:
            self._dev("sdo-ca-subindex", f"{index:#06x}:{sub}")
            return self._abort(index, sub, ABORT_NO_SUBINDEX)

    def _download_init(self, cmd, index, sub, body):
        self.transfer = None   # a new initiate legally ends an old transfer
        ca, n = bool(cmd & 0x10), (cmd >> 2) & 3
        bad = self._check_ca(cmd, index, sub)
        if bad:
            return bad
        if cmd & 2:   # expedited: data in the 4 bytes after the subindex
            self._fixed_length(body, "expedited download")
            if cmd & 1:
                data = body[4:8 - n]
            else:
                self._dev("sdo-expedited-no-size-indicator", f"{cmd:#04x}")
                if n:   # CiA 301: n must be 0 if size is not indicated
                    self._dev("sdo-expedited-size-bits", f"{cmd:#04x}")
                data = body[4:8]
            size = len(data)
        else:   # normal: u32 complete size, then data up to the mailbox end
            if n:
                self._dev("sdo-normal-size-bits", f"{cmd:#04x}")
            if not cmd & 1:   # ETG.1000.6: size indicator is 1 here
                self._dev("sdo-download-normal-no-size-indicator",
                          f"{cmd:#04x}")
            size, = unpack_from("<I", body, 4)
            data = body[8:]
            if len(data) > size:   # the complete size is authoritative
                self._dev("sdo-download-normal-size-field" if size == 0
                          else "sdo-download-data-exceeds-size",
                          f"complete size {size}, {len(data)} bytes carried")
                return self._abort(index, sub, ABORT_LENGTH)
        try:
            self.od.check_download(index, sub, ca, size)
        except SdoAbort as e:
            return self._abort(index, sub, e.code)
        self.transfer = dict(kind="download", index=index, sub=sub, ca=ca,
                             size=size, data=bytearray(data), toggle=0)
        if len(data) == size:
            self._download_done()
        return [self._coe(SVC_SDO_RESP, pack("<BHB4x", 0x60, index, sub))]

    def _download_done(self):
        t, self.transfer = self.transfer, None
        value = bytes(t["data"])
        self.downloads.append((t["index"], t["sub"], t["ca"], value))
        self.od.write(t["index"], t["sub"], t["ca"], value)

    def _download_segment(self, cmd, body):
        t = self.transfer
        if t is None or t["kind"] != "download":
            self._dev("sdo-segment-without-transfer", f"{cmd:#04x}")
            return self._abort(t["index"] if t else 0, t["sub"] if t else 0,
                               ABORT_COMMAND)
        index, sub = t["index"], t["sub"]
        toggle = (cmd >> 4) & 1
        if toggle != t["toggle"]:   # first segment 0, then alternating
            self._dev("sdo-segment-toggle",
                      f"got {toggle}, expected {t['toggle']}")
            return self._abort(index, sub, ABORT_TOGGLE)
        unused = (cmd >> 1) & 7
        if len(body) == 8:   # minimum segment: 7 data bytes, `unused` empty
            data = body[1:8 - unused]
        else:   # longer: length from the mailbox header
            if unused:
                self._dev("sdo-segment-size-bits",
                          f"{unused} with {len(body) - 1} data bytes")
            data = body[1:]
        t["data"] += data
        if len(t["data"]) > t["size"]:
            self._dev("sdo-download-data-exceeds-size",
                      f"{len(t['data'])} bytes for complete size {t['size']}")
            return self._abort(index, sub, ABORT_TOO_LONG)
        if cmd & 1 and len(t["data"]) < t["size"]:
            self._dev("sdo-download-data-short",
                      f"{len(t['data'])} bytes for complete size {t['size']}")
            return self._abort(index, sub, ABORT_TOO_SHORT)
        t["toggle"] ^= 1
        if cmd & 1:
            self._download_done()
        return [self._coe(SVC_SDO_RESP, pack("<B7x", 0x20 | toggle << 4))]

    def _upload_init(self, cmd, index, sub, body):
        self.transfer = None
        ca = bool(cmd & 0x10)
        self._fixed_length(body, "upload request")
        if cmd & 0x0f:
            self._dev("sdo-upload-request-reserved-bits", f"{cmd:#04x}")
        bad = self._check_ca(cmd, index, sub)
        if bad:
            return bad
        try:
            value = self.od.complete(index, sub) if ca \
                else self.od.get(index, sub)
        except SdoAbort as e:
            return self._abort(index, sub, e.code)
        if 1 <= len(value) <= 4:   # expedited, size indicated
            head = 0x43 | (4 - len(value)) << 2 | ca << 4
            body = pack("<BHB4s", head, index, sub, value)
        else:   # normal: complete size + what fits: mailbox - 6 - 2 - 8
            first = value[:self.mbx_in_size - 16]
            body = pack("<BHBI", 0x41 | ca << 4, index, sub, len(value)) + first
            if len(first) < len(value):
                self.transfer = dict(kind="upload", index=index, sub=sub,
                                     ca=ca, data=value, pos=len(first),
                                     toggle=0)
        if self.transfer is None:
            self.uploads.append((index, sub, ca, value))
        return [self._coe(SVC_SDO_RESP, body)]

    def _upload_segment(self, cmd, body):
        t = self.transfer
        if t is None or t["kind"] != "upload":
            self._dev("sdo-upload-segment-without-transfer", f"{cmd:#04x}")
            return self._abort(t["index"] if t else 0, t["sub"] if t else 0,
                               ABORT_COMMAND)
        self._fixed_length(body, "upload segment request")
        if cmd & 0x0f:
            self._dev("sdo-upload-request-reserved-bits", f"{cmd:#04x}")
        toggle = (cmd >> 4) & 1
        if toggle != t["toggle"]:
            self._dev("sdo-segment-toggle",
                      f"got {toggle}, expected {t['toggle']}")
            return self._abort(t["index"], t["sub"], ABORT_TOGGLE)
        t["toggle"] ^= 1
        # a segment carries at most mailbox - 6 - 2 - 1 bytes; a server is free to send
        # less (segment_size: optional callable -> number of bytes for this segment)
        room = self.mbx_in_size - 9
        if getattr(self, "segment_size", None) is not None:
            room = max(1, min(room, self.segment_size(room)))
        chunk = t["data"][t["pos"]:t["pos"] + room]
        t["pos"] += len(chunk)
        last = t["pos"] == len(t["data"])
        head = toggle << 4 | last
        if len(chunk) < 7:
            head |= (7 - len(chunk)) << 1
        if last:
            self.transfer = None
            self.uploads.append((t["index"], t["sub"], t["ca"], t["data"]))
        return [self._coe(SVC_SDO_RESP, bytes([head]) + chunk.ljust(7, b"\0"))]

    # ---- SDO information -----------------------------------------------
    def _sdo_info(self, body):
        # u8 opcode | incomplete << 7, u8 reserved, u16 fragments left
        if len(body) < 4:
            self._dev("sdoinfo-header-truncated", f"{len(body)} bytes")
            return self._mbx_error(ERR_SIZE_TOO_SHORT)
        opcode, args = body[0] & 0x7f, body[4:]
        if body[0] & 0x80 or unpack_from("<H", body, 2)[0]:
            self._dev("sdoinfo-request-fragmented", body[:4].hex())
        need = {1: 2, 3: 2, 5: 4}.get(opcode)
        if need is None:
            self._dev("sdoinfo-unknown-opcode", f"opcode {opcode}")
            return self._info_error(ABORT_COMMAND)
        if len(args) < need:
            self._dev("sdoinfo-request-truncated",
                      f"opcode {opcode}: {len(args)} of {need} bytes")
            return self._mbx_error(ERR_SIZE_TOO_SHORT)
        if len(args) > need:
            self._dev("sdo-request-length", f"SDO info opcode {opcode}: "
                      f"{len(args) - need} extra bytes")
        try:
            if opcode == 1:   # get OD list: 0 = lengths of the 5 lists,
                # 1 = all objects, 2..5 = RxPDO/TxPDO/backup/settings lists
                kind, = unpack_from("<H", args)
                idx = self.od.indexes()
                if kind > 5:
                    self._dev("sdoinfo-list-type", f"list type {kind}")
                    raise SdoAbort(ABORT_GENERAL)
                words = [len(idx), 0, 0, 0, 0] if kind == 0 \
                    else idx if kind == 1 else []
                data = pack(f"<H{len(words)}H", kind, *words)
            elif opcode == 3:   # get object description
                index, = unpack_from("<H", args)
                dt, maxsub, code, name = self.od.object_description(index)
                data = pack("<HHBB", index, dt, maxsub, code) + name
            else:   # get entry description; value info bits 3..6 ask for
                # unit/default/min/max, which we do not have: cleared
                index, sub, info = unpack_from("<HBB", args)
                dt, bits, access, name = self.od.entry_description(index, sub)
                data = pack("<HBBHHH", index, sub, info & 7, dt, bits,
                            access) + name
        except SdoAbort as e:
            return self._info_error(e.code)
        # fragmentation: each message has the 4 byte SDO info header, the
        # continuation just carries on with the data (mailbox - 6 - 2 - 4)
        cap = (self.mbx_in_size - 12) & ~1   # never split a u16 index
        chunks = [data[i:i + cap] for i in range(0, len(data), cap)]
        return [self._coe(SVC_SDO_INFO, pack(
            "<BxH", opcode + 1 | (0x80 if left else 0), left) + chunk)
            for left, chunk in zip(range(len(chunks) - 1, -1, -1), chunks)]

    def _info_error(self, code):
        return [self._coe(SVC_SDO_INFO, pack("<BxHI", 7, 0, code))]
