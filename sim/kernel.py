"""SimKernel -- a stand-in for the Linux ``bpf()`` system call.

:meth:`SimKernel.bpf` is a drop-in replacement for ``ebpfcat.bpf.bpf``: it gets
the command number, the struct format of ``union bpf_attr`` and its fields --
including *raw process addresses* of Python buffers -- and moves bytes with
``ctypes.string_at`` / ``ctypes.memmove`` exactly where the kernel would use
copy_from_user / copy_to_user.  Programs are executed by :mod:`cpu`.

The errno values were checked against a real kernel (6.18) wherever this file
says so; see the table in each command handler.

What is modelled: maps (array incl. mmap, per-CPU array, hash, LRU hash, prog
array), program load without verifier, pinning, BPF_PROG_TEST_RUN for XDP,
XDP attachment, file descriptor life time and the user reference count of
prog arrays.  There is no verifier on purpose: the byte code is judged by
executing it (see :class:`cpu.CpuFault`).
"""

import ctypes
import errno
import os
import stat
from struct import calcsize, pack, pack_into, unpack, unpack_from

try:
    from .cpu import (AddressSpace, CpuFault, DecodeError, Instance,
                      decode_program)
except ImportError:  # used as a plain script directory
    from cpu import (AddressSpace, CpuFault, DecodeError, Instance,
                     decode_program)

__all__ = ["SimKernel", "Prog", "BpfMap", "CpuFault"]

ENOTSUPP = 524  # kernel internal, but it does leak through bpf()
PAGE_SIZE = 4096

MAP_TYPE_HASH = 1
MAP_TYPE_ARRAY = 2
MAP_TYPE_PROG_ARRAY = 3
MAP_TYPE_PERCPU_ARRAY = 6
MAP_TYPE_LRU_HASH = 9

BPF_F_NO_PREALLOC = 1
BPF_F_MMAPABLE = 1 << 10

BPF_ANY, BPF_NOEXIST, BPF_EXIST, BPF_F_LOCK = 0, 1, 2, 4

PROG_TYPE_XDP = 6
PROG_TYPE_MAX = 32
BPF_F_STRICT_ALIGNMENT = 1

CMD_NAMES = {
    0: "MAP_CREATE", 1: "MAP_LOOKUP_ELEM", 2: "MAP_UPDATE_ELEM",
    3: "MAP_DELETE_ELEM", 4: "MAP_GET_NEXT_KEY", 5: "PROG_LOAD",
    6: "OBJ_PIN", 7: "OBJ_GET", 10: "PROG_TEST_RUN",
    21: "MAP_LOOKUP_AND_DELETE_ELEM"}

# the part of union bpf_attr each command looks at (native alignment, as in C)
ATTR_MAP_CREATE = "IIIII"       # map_type key_size value_size max_entries flags
ATTR_MAP_ELEM = "IQQQ"          # map_fd key value/next_key flags
ATTR_PROG_LOAD = "IIQQIIQII16sII"
ATTR_OBJ = "QII"                # pathname bpf_fd file_flags
ATTR_TEST_RUN = "IIIIQQIIIIQQ"  # prog_fd retval size_in size_out data_in
#                                 data_out repeat duration ctx_size_in
#                                 ctx_size_out ctx_in ctx_out
ATTR_SIZE = 160


def oserror(code):
    return OSError(code, os.strerror(code))


def round_up(value, to):
    return (value + to - 1) // to * to


# --------------------------------------------------------------------------
# kernel objects
# --------------------------------------------------------------------------

class Prog:
    """a loaded program"""

    def __init__(self, id, prog_type, insns, raw, name, license, flags,
                 used_maps):
        self.id = id
        self.prog_type = prog_type
        self.insns = insns
        self.raw = raw
        self.name = name
        self.license = license
        self.flags = flags
        self.used_maps = used_maps   # keeps the maps alive, as in Linux
        self.strict_alignment = bool(flags & BPF_F_STRICT_ALIGNMENT)

    def __repr__(self):
        return f"<Prog #{self.id} {self.name!r} {len(self.insns)} insns>"


class BpfMap:
    """base class of all maps

    ``urefs`` counts the references user space holds (fds and pins), the
    kernel's ``map->usercnt``.
    """
    kind = None

    def __init__(self, kernel, id, map_type, key_size, value_size,
                 max_entries, flags):
        self.kernel = kernel
        self.id = id
        self.map_type = map_type
        self.key_size = key_size
        self.value_size = value_size
        self.max_entries = max_entries
        self.flags = flags
        self.urefs = 0
        self.handle = kernel.space.alloc_handle(self)

    #: bytes user space exchanges per value
    @property
    def user_value_size(self):
        return self.value_size

    def __repr__(self):
        return (f"<{type(self).__name__} #{self.id} key={self.key_size} "
                f"value={self.value_size} entries={self.max_entries}>")

    def uref_dropped(self):
        """the last fd and pin are gone"""

    # program side defaults
    def prog_at(self, index):
        raise TypeError("not a prog array")


def array_index(key):
    return int.from_bytes(key[:4], "little")


class ArrayMapObj(BpfMap):
    """BPF_MAP_TYPE_ARRAY: zero initialised, elements 8 byte aligned"""
    kind = "array"

    def __init__(self, *args):
        super().__init__(*args)
        self.elem_size = round_up(self.value_size, 8)
        size = self.elem_size * self.max_entries
        if self.flags & BPF_F_MMAPABLE:
            size = round_up(size, PAGE_SIZE)
        self.backing = bytearray(size)
        self._view = memoryview(self.backing)
        self._regions = {}   # index -> Region, made on first use

    def region(self, index, cpu=0):
        region = self._regions.get(index)
        if region is None:
            start = index * self.elem_size
            region = self.kernel.space.alloc(
                f"map#{self.id}[{index}]",
                self._view[start:start + self.value_size], "map_value")
            region.owner = self
            self._regions[index] = region
        return region

    # --- program side
    def prog_lookup(self, key, cpu):
        index = array_index(key)
        if index >= self.max_entries:
            return None
        return self.region(index, cpu)

    def prog_update(self, key, value, flags, cpu):
        # array_map_update_elem
        if flags > BPF_EXIST:   # incl. BPF_F_LOCK: no spin lock in values
            return -errno.EINVAL
        index = array_index(key)
        if index >= self.max_entries:
            return -errno.E2BIG
        if flags & BPF_NOEXIST:
            return -errno.EEXIST      # all elements always exist
        self.region(index, cpu).data[:] = value
        return 0

    def prog_delete(self, key):
        return -errno.EINVAL

    # --- user side (errnos checked against the real kernel)
    def user_lookup(self, key):
        index = array_index(key)
        if index >= self.max_entries:
            raise oserror(errno.ENOENT)
        return bytes(self.region(index).data)

    def user_update(self, key, value, flags):
        ret = self.prog_update(key, value[:self.value_size], flags, 0)
        if ret:
            raise oserror(-ret)

    def user_delete(self, key):
        raise oserror(errno.EINVAL)

    def user_next_key(self, key):
        # array_map_get_next_key: an out of range key restarts at 0
        index = 0xffffffff if key is None else array_index(key)
        if index >= self.max_entries:
            return pack("<I", 0)
        if index == self.max_entries - 1:
            raise oserror(errno.ENOENT)
        return pack("<I", index + 1)

    def user_lookup_and_delete(self, key):
        raise oserror(ENOTSUPP)


class PerCpuArrayObj(ArrayMapObj):
    """BPF_MAP_TYPE_PERCPU_ARRAY: one 8 byte aligned copy per possible CPU"""
    kind = "percpu_array"

    def __init__(self, *args):
        BpfMap.__init__(self, *args)
        self.elem_size = round_up(self.value_size, 8)
        self.ncpus = self.kernel.possible_cpus
        # element i: ncpus consecutive copies, the layout user space sees
        self.backing = bytearray(
            self.elem_size * self.ncpus * self.max_entries)
        self._view = memoryview(self.backing)
        self._regions = {}

    @property
    def user_value_size(self):
        return self.elem_size * self.ncpus

    def region(self, index, cpu=0):
        slot = index * self.ncpus + cpu
        region = self._regions.get(slot)
        if region is None:
            start = slot * self.elem_size
            region = self.kernel.space.alloc(
                f"map#{self.id}[{index}]@cpu{cpu}",
                self._view[start:start + self.value_size], "map_value")
            region.owner = self
            self._regions[slot] = region
        return region

    def user_lookup(self, key):
        index = array_index(key)
        if index >= self.max_entries:
            raise oserror(errno.ENOENT)
        start = index * self.ncpus * self.elem_size
        return bytes(self.backing[start:start + self.user_value_size])

    def user_update(self, key, value, flags):
        # bpf_percpu_array_update
        if flags > BPF_EXIST:
            raise oserror(errno.EINVAL)
        index = array_index(key)
        if index >= self.max_entries:
            raise oserror(errno.E2BIG)
        if flags == BPF_NOEXIST:
            raise oserror(errno.EEXIST)
        # copy_map_value_long: the complete 8 byte aligned slot of every CPU
        # is copied, padding included (checked against the real kernel)
        start = index * self.ncpus * self.elem_size
        self._view[start:start + self.user_value_size] = value


class HashEntry:
    __slots__ = ("value", "region", "used")


class HashMapObj(BpfMap):
    """BPF_MAP_TYPE_HASH and BPF_MAP_TYPE_LRU_HASH

    Keys are kept in insertion order (a Python dict), which is the order
    BPF_MAP_GET_NEXT_KEY reports.  An update of an existing key makes a new
    element, as the kernel does: a program that still holds the pointer to the
    old value keeps reading the old bytes.  Old value regions stay valid until
    no program is running any more (RCU grace period).
    """
    kind = "hash"

    def __init__(self, *args):
        super().__init__(*args)
        self.lru = self.map_type == MAP_TYPE_LRU_HASH
        if self.lru:
            self.kind = "lru_hash"
        self.entries = {}
        self._tick = 0

    def _touch(self, entry):
        self._tick += 1
        entry.used = self._tick

    def _retire(self, entry):
        self.kernel._retire_region(entry.region)

    def _insert(self, key, value):
        entry = HashEntry()
        entry.value = bytearray(value)
        entry.region = self.kernel.space.alloc(
            f"map#{self.id}[{key.hex()}]", entry.value, "map_value")
        entry.region.owner = self
        self._touch(entry)
        old = self.entries.get(key)
        self.entries[key] = entry    # an existing key keeps its position
        if old is not None:
            self._retire(old)

    def _evict(self):
        """LRU: drop the entry that was used longest ago"""
        victim = None
        for key, entry in self.entries.items():
            if victim is None or entry.used < self.entries[victim].used:
                victim = key
        self._retire(self.entries.pop(victim))

    def update(self, key, value, flags):
        # htab_map_update_elem / htab_lru_map_update_elem
        if flags > BPF_EXIST:   # incl. BPF_F_LOCK: no spin lock in values
            return -errno.EINVAL
        present = key in self.entries
        if present and flags == BPF_NOEXIST:
            return -errno.EEXIST
        if not present and flags == BPF_EXIST:
            return -errno.ENOENT
        if not present and len(self.entries) >= self.max_entries:
            if not self.lru:
                return -errno.E2BIG
            self._evict()
        self._insert(key, value)
        return 0

    def delete(self, key):
        entry = self.entries.pop(key, None)
        if entry is None:
            return -errno.ENOENT
        self._retire(entry)
        return 0

    # --- program side
    def prog_lookup(self, key, cpu):
        entry = self.entries.get(key)
        if entry is None:
            return None
        if self.lru:
            self._touch(entry)   # only program lookups set the LRU ref bit
        return entry.region

    def prog_update(self, key, value, flags, cpu):
        return self.update(key, value, flags)

    def prog_delete(self, key):
        return self.delete(key)

    # --- user side (errnos checked against the real kernel)
    def user_lookup(self, key):
        entry = self.entries.get(key)
        if entry is None:
            raise oserror(errno.ENOENT)
        return bytes(entry.value)

    def user_update(self, key, value, flags):
        ret = self.update(key, value[:self.value_size], flags)
        if ret:
            raise oserror(-ret)

    def user_delete(self, key):
        if self.delete(key):
            raise oserror(errno.ENOENT)

    def user_next_key(self, key):
        # htab_map_get_next_key: an unknown key restarts at the first one
        found = key is None or key not in self.entries
        for k in self.entries:
            if found:
                return k
            found = k == key
        raise oserror(errno.ENOENT)

    def user_lookup_and_delete(self, key):
        value = self.user_lookup(key)
        self.delete(key)
        return value


class ProgArrayObj(BpfMap):
    """BPF_MAP_TYPE_PROG_ARRAY, the jump table of bpf_tail_call"""
    kind = "prog_array"

    def __init__(self, *args):
        super().__init__(*args)
        self.slots = [None] * self.max_entries
        self.owner_type = None   # program type this table is bound to

    def prog_at(self, index):
        return self.slots[index]

    def compatible(self, prog):
        """bpf_prog_map_compatible: the first program decides the type"""
        if self.owner_type is None:
            self.owner_type = prog.prog_type
        return self.owner_type == prog.prog_type

    def uref_dropped(self):
        # prog_array_map_clear: without user space reference the table is
        # emptied, so that programs cannot keep each other alive
        self.slots = [None] * self.max_entries

    # --- user side (errnos checked against the real kernel)
    def user_lookup(self, key):
        index = array_index(key)
        if index >= self.max_entries or self.slots[index] is None:
            raise oserror(errno.ENOENT)
        return pack("<I", self.slots[index].id)

    def user_update(self, key, value, flags):
        # bpf_fd_array_map_update_elem
        if flags != BPF_ANY:
            raise oserror(errno.EINVAL)
        index = array_index(key)
        if index >= self.max_entries:
            raise oserror(errno.E2BIG)
        prog = self.kernel._fd_object(unpack("<I", value[:4])[0], Prog)
        if not self.compatible(prog):
            raise oserror(errno.EINVAL)
        self.slots[index] = prog

    def user_delete(self, key):
        index = array_index(key)
        if index >= self.max_entries:
            raise oserror(errno.E2BIG)
        if self.slots[index] is None:
            raise oserror(errno.ENOENT)
        self.slots[index] = None

    user_next_key = ArrayMapObj.user_next_key

    def user_lookup_and_delete(self, key):
        raise oserror(ENOTSUPP)


class FdEntry:
    __slots__ = ("obj", "owner")

    def __init__(self, obj, owner):
        self.obj = obj
        self.owner = owner


# --------------------------------------------------------------------------
# the kernel
# --------------------------------------------------------------------------

class SimKernel:
    """one simulated machine as far as bpf is concerned

    :param possible_cpus: number of possible CPUs (size of per-CPU values)
    :param ktime: callable for the helper ktime_get_ns
    :param prandom: callable for the helper get_prandom_u32
    :param fs: optional bpf file system with ``bpf_pin(path, obj)`` (raises
       OSError EEXIST/ENOENT) and ``bpf_get(path) -> obj`` (raises OSError
       ENOENT).  A file system that removes a pin should tell
       :meth:`obj_unpinned`.  Without `fs` an internal table is used.
    :param monitor: optional buffer overrun monitor with
       ``check(cmd_name, map, role, addr, needed) -> allowed``
    """
    #: BPF_MAXINSNS.  A privileged loader may in fact load 1M instructions.
    max_insns = 4096
    #: what BPF_PROG_TEST_RUN reports for an XDP program without ctx_in:
    #: the loopback device, queue 0
    test_run_ctx = (1, 0, 0)

    def __init__(self, possible_cpus=4, ktime=lambda: 0, prandom=lambda: 0,
                 fs=None, monitor=None):
        self.possible_cpus = possible_cpus
        self.ktime = ktime
        self.prandom = prandom
        self.fs = fs
        self.monitor = monitor
        self.space = AddressSpace()
        self.stats = {"insns": 0, "tail_calls_taken": 0,
                      "tail_calls_missed": 0}
        self.fds = {}
        self.pins = {}
        self.xdp = {}
        self.current_pid = 0
        self.strict_alignment = False
        self._devnull = os.stat("/dev/null").st_rdev
        self._next_map_id = 0
        self._next_prog_id = 0
        self._live = {}        # id(instance) -> instance, not yet finished
        self._retired = []     # value regions waiting for the grace period
        self._commands = {
            0: self._map_create, 1: self._map_lookup, 2: self._map_update,
            3: self._map_delete, 4: self._map_next_key, 5: self._prog_load,
            6: self._obj_pin, 7: self._obj_get, 10: self._prog_test_run,
            21: self._map_lookup_and_delete}

    def _count(self, key, n=1):
        self.stats[key] = self.stats.get(key, 0) + n

    # ---- file descriptors ------------------------------------------------

    def _fd_alive(self, fd):
        """is `fd` still the /dev/null descriptor we handed out?"""
        try:
            st = os.fstat(fd)
        except OSError:
            return False
        return stat.S_ISCHR(st.st_mode) and st.st_rdev == self._devnull

    def _get(self, obj):
        if isinstance(obj, BpfMap):
            obj.urefs += 1

    def _put(self, obj):
        if isinstance(obj, BpfMap):
            obj.urefs -= 1
            if obj.urefs == 0:
                obj.uref_dropped()

    def _new_fd(self, obj):
        """a real file descriptor, so that an unpatched os.close works"""
        fd = os.open("/dev/null", os.O_RDONLY)
        stale = self.fds.pop(fd, None)
        self._get(obj)
        self.fds[fd] = FdEntry(obj, self.current_pid)
        if stale is not None:   # closed behind our back, number reused
            self._put(stale.obj)
        return fd

    def _reap(self):
        """forget descriptors the library closed with os.close"""
        for fd in sorted(self.fds):
            if not self._fd_alive(fd):
                self._put(self.fds.pop(fd).obj)

    def _fd_object(self, fd, cls):
        """fdget + type check: EBADF if closed, EINVAL if something else"""
        entry = self.fds.get(fd)
        if entry is None or not self._fd_alive(fd):
            if entry is not None:
                self._put(self.fds.pop(fd).obj)
            try:
                os.fstat(fd)
            except (OSError, OverflowError):
                raise oserror(errno.EBADF) from None
            raise oserror(errno.EINVAL)   # open, but not a bpf object
        if not isinstance(entry.obj, cls):
            raise oserror(errno.EINVAL)
        return entry.obj

    def obj(self, fd):
        """the map or program behind `fd` (EBADF if there is none)"""
        entry = self.fds.get(fd)
        if entry is None or not self._fd_alive(fd):
            raise oserror(errno.EBADF)
        return entry.obj

    def close_fd(self, fd):
        """close(2) on a bpf file descriptor"""
        entry = self.fds.pop(fd, None)
        if entry is None:
            raise oserror(errno.EBADF)
        if self._fd_alive(fd):
            os.close(fd)
        self._put(entry.obj)

    def shutdown(self):
        """end of the simulated machine: give the real descriptors back"""
        for fd in sorted(self.fds):
            entry = self.fds.pop(fd)
            if self._fd_alive(fd):
                os.close(fd)
        for inst in list(self._live.values()):
            self.discard(inst)

    def close_all(self, pid):
        """process `pid` died: all its descriptors are closed"""
        for fd in sorted(self.fds):
            if self.fds[fd].owner == pid:
                self.close_fd(fd)

    # ---- user memory -----------------------------------------------------

    def _allowed(self, cmd, m, role, addr, needed):
        if self.monitor is None:
            return needed
        allowed = self.monitor.check(CMD_NAMES[cmd], m, role, addr, needed)
        return max(0, min(needed, allowed))

    def _copy_from_user(self, cmd, m, role, addr, needed):
        if addr == 0:
            raise oserror(errno.EFAULT)
        allowed = self._allowed(cmd, m, role, addr, needed)
        return ctypes.string_at(addr, allowed) + bytes(needed - allowed)

    def _copy_to_user(self, cmd, m, role, addr, data):
        if addr == 0:
            raise oserror(errno.EFAULT)
        allowed = self._allowed(cmd, m, role, addr, len(data))
        ctypes.memmove(addr, bytes(data[:allowed]), allowed)

    # ---- the system call -------------------------------------------------

    def bpf(self, cmd, fmt, *args):
        """drop-in for ``ebpfcat.bpf.bpf``"""
        raw = pack(fmt, *args)
        # the kernel zero-fills the part of bpf_attr user space left out
        attr = bytearray(raw) + bytes(max(0, ATTR_SIZE - len(raw)))
        handler = self._commands.get(cmd)
        if handler is None:
            raise oserror(errno.EINVAL)
        if getattr(self, "command_fault", None) is not None:
            # a call that fails although the command exists: ENOMEM, EPERM on a descriptor
            # without read permission, EINTR ... (command_fault: callable(cmd) -> errno or 0)
            err = self.command_fault(cmd)
            if err:
                raise OSError(err, "injected failure of bpf()")
        if cmd in getattr(self, "refused_commands", ()):
            # an older kernel that does not know the command (for this map type) yet:
            # EINVAL, or ENOTSUPP (524) as hash maps answered lookup-and-delete before 5.14
            raise OSError(self.refused_commands[cmd], "refused by this kernel")
        self._count("cmd." + CMD_NAMES[cmd])
        self._reap()
        ret = handler(cmd, attr)
        return ret, unpack(fmt, bytes(attr[:len(raw)]))

    # ---- maps ------------------------------------------------------------

    def _map_create(self, cmd, attr):
        """
        checked against the real kernel: EINVAL for unknown type, array key
        size != 4, value size 0, max_entries 0, hash key size 0, prog array
        value size != 4, MMAPABLE on anything but a plain array, NO_PREALLOC
        on arrays
        """
        map_type, key_size, value_size, max_entries, flags = \
            unpack_from(ATTR_MAP_CREATE, attr)
        classes = {MAP_TYPE_ARRAY: ArrayMapObj,
                   MAP_TYPE_PERCPU_ARRAY: PerCpuArrayObj,
                   MAP_TYPE_HASH: HashMapObj, MAP_TYPE_LRU_HASH: HashMapObj,
                   MAP_TYPE_PROG_ARRAY: ProgArrayObj}
        cls = classes.get(map_type)
        if cls is None or max_entries == 0 or key_size == 0 \
                or value_size == 0:
            raise oserror(errno.EINVAL)
        if map_type in (MAP_TYPE_HASH, MAP_TYPE_LRU_HASH):
            allowed = BPF_F_NO_PREALLOC if map_type == MAP_TYPE_HASH else 0
        else:
            allowed = BPF_F_MMAPABLE if map_type == MAP_TYPE_ARRAY else 0
            if key_size != 4:
                raise oserror(errno.EINVAL)
            if map_type == MAP_TYPE_PROG_ARRAY and value_size != 4:
                raise oserror(errno.EINVAL)
        if flags & ~allowed:
            raise oserror(errno.EINVAL)
        if value_size >= 1 << 22:   # KMALLOC_MAX_SIZE, roughly
            raise oserror(errno.E2BIG)
        self._next_map_id += 1
        m = cls(self, self._next_map_id, map_type, key_size, value_size,
                max_entries, flags)
        return self._new_fd(m)

    def _elem_attr(self, attr):
        fd, key, value, flags = unpack_from(ATTR_MAP_ELEM, attr)
        return fd, key, value, flags

    def _map_lookup(self, cmd, attr):
        fd, keyp, valuep, flags = self._elem_attr(attr)
        if flags & ~BPF_F_LOCK:
            raise oserror(errno.EINVAL)
        m = self._fd_object(fd, BpfMap)
        if flags & BPF_F_LOCK:   # needs a bpf_spin_lock in the value
            raise oserror(errno.EINVAL)
        key = self._copy_from_user(cmd, m, "key", keyp, m.key_size)
        value = m.user_lookup(key)
        self._copy_to_user(cmd, m, "value", valuep, value)
        return 0

    def _map_lookup_and_delete(self, cmd, attr):
        fd, keyp, valuep, flags = self._elem_attr(attr)
        if flags & ~BPF_F_LOCK:
            raise oserror(errno.EINVAL)
        m = self._fd_object(fd, BpfMap)
        if flags & BPF_F_LOCK:
            raise oserror(errno.EINVAL)
        key = self._copy_from_user(cmd, m, "key", keyp, m.key_size)
        if valuep == 0:
            raise oserror(errno.EFAULT)
        value = m.user_lookup_and_delete(key)
        self._copy_to_user(cmd, m, "value", valuep, value)
        return 0

    def _map_update(self, cmd, attr):
        fd, keyp, valuep, flags = self._elem_attr(attr)
        m = self._fd_object(fd, BpfMap)
        if flags & BPF_F_LOCK:
            raise oserror(errno.EINVAL)
        key = self._copy_from_user(cmd, m, "key", keyp, m.key_size)
        value = self._copy_from_user(cmd, m, "value", valuep,
                                     m.user_value_size)
        m.user_update(key, value, flags)
        return 0

    def _map_delete(self, cmd, attr):
        fd, keyp = unpack_from("IQ", attr)
        m = self._fd_object(fd, BpfMap)
        key = self._copy_from_user(cmd, m, "key", keyp, m.key_size)
        m.user_delete(key)
        return 0

    def _map_next_key(self, cmd, attr):
        fd, keyp, nextp = unpack_from("IQQ", attr)
        m = self._fd_object(fd, BpfMap)
        if keyp == 0:
            key = None          # "give me the first key"
        else:
            key = self._copy_from_user(cmd, m, "key", keyp, m.key_size)
        next_key = m.user_next_key(key)
        self._copy_to_user(cmd, m, "next_key", nextp, next_key)
        return 0

    # ---- value regions that went out of use --------------------------------

    def _retire_region(self, region):
        """a hash element was replaced or deleted

        A running program may still hold a pointer into it (RCU), so the
        region stays addressable until no program instance is alive.
        """
        self._retired.append(region)
        self._grace_period()

    def _grace_period(self):
        if not self._live:
            for region in self._retired:
                self.space.release(region)
            del self._retired[:]

    # ---- programs ----------------------------------------------------------

    def _map_handle(self, fd, used_maps):
        m = self._fd_object(fd, BpfMap)
        if m not in used_maps:
            used_maps.append(m)
        return m.handle

    def _prog_load(self, cmd, attr):
        """
        checked against the real kernel: E2BIG for 0 instructions, EINVAL if
        the last instruction is not exit/ja, EBADF for an unknown map fd,
        EINVAL if that fd is not a map, EINVAL for program type 0
        """
        (prog_type, insn_cnt, insns, license, log_level, log_size, log_buf,
         kern_version, flags, name, ifindex, attach_type) = \
            unpack_from(ATTR_PROG_LOAD, attr)
        if not 0 < prog_type <= PROG_TYPE_MAX:
            raise oserror(errno.EINVAL)
        if insn_cnt == 0 or insn_cnt > self.max_insns:
            raise oserror(errno.E2BIG)
        if insns == 0 or license == 0:
            raise oserror(errno.EFAULT)
        raw = ctypes.string_at(insns, insn_cnt * 8)
        license = ctypes.string_at(license)[:127].decode("latin1")
        used_maps = []
        try:
            decoded = decode_program(
                raw, lambda fd: self._map_handle(fd, used_maps))
        except DecodeError:
            raise oserror(errno.EINVAL) from None
        last = decoded[-1]
        if last is None or last[0] not in (0x95, 0x05):
            raise oserror(errno.EINVAL)   # "last insn is not an exit or jmp"
        self._next_prog_id += 1
        prog = Prog(self._next_prog_id, prog_type, decoded, raw,
                    name.rstrip(b"\0").decode("latin1"), license, flags,
                    used_maps)
        for m in used_maps:
            if isinstance(m, ProgArrayObj) and not m.compatible(prog):
                raise oserror(errno.EINVAL)
        # nothing is written to the log buffer: there is no verifier
        return self._new_fd(prog)

    def new_instance(self, prog, packet, cpu=0, ctx=None, trace=None):
        """start `prog` on `cpu`; the caller steps the returned Instance

        When the program exits the instance's private memory is released by
        itself.  An instance that is abandoned (fault, simulated crash) must be
        handed to :meth:`discard`, otherwise retired hash values are kept
        addressable forever.

        :param packet: bytearray used in place, or None
        :param ctx: ``(ingress_ifindex, rx_queue_index, egress_ifindex)`` or a
           dict with these names
        """
        if not isinstance(prog, Prog):
            raise TypeError("prog must be a loaded program")
        if not 0 <= cpu < self.possible_cpus:
            raise ValueError(f"no such CPU #{cpu}")
        if prog.prog_type != PROG_TYPE_XDP:
            raise ValueError("only the context of XDP programs is modelled")
        if packet is not None and not isinstance(packet, bytearray):
            raise TypeError("packet must be a bytearray (it is used in place)")
        self._reap()
        if ctx is None:
            ctx = (0, 0, 0)
        elif isinstance(ctx, dict):
            ctx = (ctx.get("ingress_ifindex", 0), ctx.get("rx_queue_index", 0),
                   ctx.get("egress_ifindex", 0))
        inst = Instance(
            prog, self.space, self, cpu=cpu, packet=packet,
            ctx=tuple(ctx), trace=trace,
            strict_alignment=self.strict_alignment or prog.strict_alignment)
        inst.on_done = self.discard
        self._live[id(inst)] = inst
        return inst

    def discard(self, inst):
        """`inst` will not run any more (finished, faulted or killed)"""
        if self._live.pop(id(inst), None) is None:
            return
        inst.on_done = None
        self.stats["insns"] += inst.steps
        inst.release()
        self._grace_period()

    def run_xdp(self, prog, packet, cpu=0, max_steps=100000, ctx=None):
        """run `prog` on `packet` to completion -> (retval, instance)"""
        inst = self.new_instance(prog, packet, cpu, ctx)
        try:
            retval = inst.run(max_steps)
        finally:
            self.discard(inst)
        return retval, inst

    def _prog_test_run(self, cmd, attr):
        """bpf_prog_test_run_xdp, checked against the real kernel

        The program runs `repeat` times on the *same* buffer; the buffer,
        its size, the last return value and the duration are written back.
        """
        (fd, _, size_in, size_out, data_in, data_out, repeat, _, ctx_size_in,
         ctx_size_out, ctx_in, ctx_out) = unpack_from(ATTR_TEST_RUN, attr)
        prog = self._fd_object(fd, Prog)
        if prog.prog_type != PROG_TYPE_XDP:
            raise oserror(ENOTSUPP)
        if ctx_size_in or ctx_size_out or ctx_in or ctx_out:
            raise oserror(ENOTSUPP)   # not modelled
        # ETH_HLEN <= size <= one page minus head room and skb_shared_info
        if size_in < 14 or size_in > PAGE_SIZE - 256 - 320:
            raise oserror(errno.EINVAL)
        if data_in == 0:
            raise oserror(errno.EFAULT)
        packet = bytearray(ctypes.string_at(data_in, size_in))
        retval = 0
        for _ in range(max(1, repeat)):
            retval, _inst = self.run_xdp(prog, packet, cpu=0,
                                         ctx=self.test_run_ctx)
        # bpf_test_finish
        error = None
        copy = len(packet)
        if size_out and copy > size_out:
            copy = size_out
            error = errno.ENOSPC
        if data_out:
            ctypes.memmove(data_out, bytes(packet[:copy]), copy)
        pack_into("I", attr, calcsize("I"), retval)            # retval
        pack_into("I", attr, 3 * calcsize("I"), len(packet))   # data_size_out
        pack_into("I", attr, calcsize("IIIIQQI"), 0)           # duration
        if error is not None:
            raise oserror(error)
        return 0

    # ---- pinning -----------------------------------------------------------

    @staticmethod
    def _path(addr):
        if addr == 0:
            raise oserror(errno.EFAULT)
        return ctypes.string_at(addr).decode("utf8", "surrogateescape")

    def _obj_pin(self, cmd, attr):
        pathname, fd, file_flags = unpack_from(ATTR_OBJ, attr)
        if file_flags:
            raise oserror(errno.EINVAL)
        obj = self._fd_object(fd, (BpfMap, Prog))
        path = self._path(pathname)
        if self.fs is not None:
            self.fs.bpf_pin(path, obj)
        else:
            if path in self.pins:
                raise oserror(errno.EEXIST)
            self.pins[path] = obj
        self._get(obj)
        return 0

    def _obj_get(self, cmd, attr):
        pathname, fd, file_flags = unpack_from(ATTR_OBJ, attr)
        if fd:
            raise oserror(errno.EINVAL)
        path = self._path(pathname)
        if self.fs is not None:
            obj = self.fs.bpf_get(path)
        else:
            obj = self.pins.get(path)
            if obj is None:
                raise oserror(errno.ENOENT)
        return self._new_fd(obj)

    def unpin(self, path):
        """unlink a pin of the internal table (used when there is no `fs`)"""
        obj = self.pins.pop(path, None)
        if obj is None:
            raise oserror(errno.ENOENT)
        self.obj_unpinned(obj)

    def obj_unpinned(self, obj):
        """a bpf file system tells that a pin of `obj` was removed"""
        self._put(obj)

    # ---- XDP -----------------------------------------------------------

    def attach_xdp(self, ifindex, fd):
        """attach the XDP program behind `fd` to `ifindex`; -1 detaches"""
        if fd == -1:
            self.xdp[ifindex] = None
            return
        self._reap()
        prog = self._fd_object(fd, Prog)
        if prog.prog_type != PROG_TYPE_XDP:
            raise oserror(errno.EINVAL)
        self.xdp[ifindex] = prog

    # ---- shared memory ---------------------------------------------------

    def mmap(self, fd, size):
        """drop-in for ``mmap.mmap(fd, size)`` on an mmapable array map

        Returns a writable memoryview onto the map's backing store: program
        stores / atomic adds and Python slice assignments see each other.
        """
        self._reap()
        m = self._fd_object(fd, BpfMap)
        if m.kind != "array" or not m.flags & BPF_F_MMAPABLE:
            raise oserror(errno.EINVAL)
        if not 0 < size <= len(m.backing):
            raise oserror(errno.EINVAL)
        return memoryview(m.backing)[:size]
