"""In-memory POSIX subset for the lock files, lock directories and the bpf file
system, with fcntl byte-range locks, plus the proxies that stand in for the
`os`, `fcntl`, `tempfile`, `shutil` modules and the builtin `open` inside
ebpfcat.lock and ebpfcat.ebpfcat.

Rules implemented because the code under test depends on them: O_CREAT|O_EXCL,
rename of a directory onto an empty / non-empty directory, rmdir of a non-empty
directory, unlink of an open file (the inode lives on), POSIX record locks are
owned by the process, released when the process closes *any* descriptor of the
file and when it dies."""
import errno
import os as real_os
import stat


def oserr(code, path=None):
    cls = {errno.ENOENT: FileNotFoundError, errno.EEXIST: FileExistsError,
           errno.ENOTDIR: NotADirectoryError, errno.EISDIR: IsADirectoryError,
           errno.EAGAIN: BlockingIOError}.get(code, OSError)
    return cls(code, real_os.strerror(code), path) if path else cls(code, real_os.strerror(code))


class Inode:
    def __init__(self, kind):
        self.kind = kind          # "dir" | "file" | "bpf"
        self.data = bytearray()
        self.children = {} if kind == "dir" else None
        self.obj = None           # pinned bpf object
        self.locks = []           # (start, end_exclusive or None, pid)
        self.nlink = 1


class OpenFile:
    def __init__(self, inode, flags, pid):
        self.inode, self.flags, self.pid, self.pos = inode, flags, pid, 0


class SimFS:
    def __init__(self, world, yield_point=None, current_pid=None):
        self.world = world
        self.root = Inode("dir")
        self.fds = {}             # fd -> OpenFile
        self.next_fd = 1000
        self.tmp_counter = 0
        self.kernel = None
        self.yield_point = yield_point or (lambda label, hot=False: None)
        self.hot = set()          # pids that just created a file (in-flight state)
        self.mark_hot = lambda pid: None
        self.current_pid = current_pid or (lambda: 1)
        self.block = None         # callable(predicate, label) for blocking locks
        self.oplog = []           # (pid, op, args) in execution order
        for d in ("/run", "/run/lock", "/sys", "/sys/fs", "/sys/fs/bpf", "/proc", "/proc/self",
                  "/tmp"):
            self._mk(d)

    # -- path handling -----------------------------------------------------------------
    def _split(self, path):
        parts = [p for p in str(path).split("/") if p]
        return parts

    def _lookup(self, path):
        node = self.root
        for p in self._split(path):
            if node.kind != "dir":
                raise oserr(errno.ENOTDIR, path)
            node = node.children.get(p)
            if node is None:
                raise oserr(errno.ENOENT, path)
        return node

    def _parent(self, path):
        parts = self._split(path)
        if not parts:
            raise oserr(errno.EINVAL, path)
        node = self.root
        for p in parts[:-1]:
            node = node.children.get(p) if node.kind == "dir" else None
            if node is None:
                raise oserr(errno.ENOENT, path)
        if node.kind != "dir":
            raise oserr(errno.ENOTDIR, path)
        return node, parts[-1]

    def _mk(self, path):
        node = self.root
        for p in self._split(path):
            node = node.children.setdefault(p, Inode("dir"))
        return node

    def exists(self, path):
        try:
            self._lookup(path)
            return True
        except OSError:
            return False

    def listdir(self, path):
        node = self._lookup(path)
        if node.kind != "dir":
            raise oserr(errno.ENOTDIR, path)
        return sorted(node.children)

    def _log(self, op, *args):
        self.oplog.append((self.current_pid(), op) + args)
        self.world.log(f"fs/p{self.current_pid()}", op, *[a for a in args if isinstance(a, (str, int))])

    # -- directory operations --------------------------------------------------------------
    def makedirs(self, path, exist_ok=False):
        self.yield_point("fs/makedirs")
        if self.exists(path):
            if not exist_ok:
                raise oserr(errno.EEXIST, path)
            return
        self._mk(path)
        self._log("makedirs", path)

    def mkdir(self, path):
        self.yield_point("fs/mkdir")
        parent, name = self._parent(path)
        if name in parent.children:
            raise oserr(errno.EEXIST, path)
        parent.children[name] = Inode("dir")
        self._log("mkdir", path)

    def mkdtemp(self, dir="/tmp", prefix="tmp"):
        self.tmp_counter += 1
        path = f"{dir}/{prefix}{self.tmp_counter:06d}"
        self.mkdir(path)
        return path

    def rmdir(self, path):
        self.yield_point("fs/rmdir")
        parent, name = self._parent(path)
        node = parent.children.get(name)
        if node is None:
            raise oserr(errno.ENOENT, path)
        if node.kind != "dir":
            raise oserr(errno.ENOTDIR, path)
        if node.children:
            raise oserr(errno.ENOTEMPTY, path)
        del parent.children[name]
        self.mark_hot(self.current_pid())      # "I was the last one" is in-flight state
        self._log("rmdir", path)

    def rename(self, src, dst):
        self.yield_point("fs/rename")
        sp, sn = self._parent(src)
        node = sp.children.get(sn)
        if node is None:
            raise oserr(errno.ENOENT, src)
        dp, dn = self._parent(dst)
        target = dp.children.get(dn)
        if target is not None:
            if node.kind == "dir":
                if target.kind != "dir":
                    raise oserr(errno.ENOTDIR, dst)
                if target.children:
                    raise oserr(errno.ENOTEMPTY, dst)
            elif target.kind == "dir":
                raise oserr(errno.EISDIR, dst)
        del sp.children[sn]
        dp.children[dn] = node
        self.mark_hot(self.current_pid())
        if target is not None and node.kind == "dir":
            self._log("rename-over-empty-dir", dst)     # (POSIX allows it)
        self._log("rename", src, dst)

    def rmtree(self, path):
        self.yield_point("fs/rmtree")
        parent, name = self._parent(path)
        node = parent.children.get(name)
        if node is None:
            raise oserr(errno.ENOENT, path)
        self._drop(node)
        del parent.children[name]
        self._log("rmtree", path)

    def _drop(self, node):
        if node.kind == "dir":
            for c in list(node.children.values()):
                self._drop(c)
        elif node.kind == "bpf" and self.kernel is not None and node.obj is not None:
            self.kernel.obj_unpinned(node.obj)

    def remove(self, path):
        self.yield_point("fs/remove")
        parent, name = self._parent(path)
        node = parent.children.get(name)
        if node is None:
            raise oserr(errno.ENOENT, path)
        if node.kind == "dir":
            raise oserr(errno.EISDIR, path)
        del parent.children[name]
        node.nlink -= 1
        if node.kind == "bpf" and self.kernel is not None:
            self.kernel.obj_unpinned(node.obj)
        self._log("remove", path)

    # -- bpf file system --------------------------------------------------------------------------
    def bpf_pin(self, path, obj):
        self.yield_point("fs/bpf_pin")
        parent, name = self._parent(path)
        if name in parent.children:
            raise oserr(errno.EEXIST, path)
        node = Inode("bpf")
        node.obj = obj
        parent.children[name] = node
        self._log("bpf_pin", path)

    def bpf_get(self, path):
        self.yield_point("fs/bpf_get")
        node = self._lookup(path)
        if node.kind != "bpf":
            raise oserr(errno.EINVAL, path)
        return node.obj

    # -- files ------------------------------------------------------------------------------------
    def open(self, path, flags, mode=0o666):
        self.yield_point("fs/open")
        parent, name = self._parent(path)
        node = parent.children.get(name)
        if node is None:
            if not flags & real_os.O_CREAT:
                raise oserr(errno.ENOENT, path)
            node = Inode("file")
            parent.children[name] = node
            self.hot.add(self.current_pid())
            self.mark_hot(self.current_pid())
            self._log("create", path)
        else:
            if flags & real_os.O_CREAT and flags & real_os.O_EXCL:
                raise oserr(errno.EEXIST, path)
            if node.kind == "dir":
                raise oserr(errno.EISDIR, path)
            # an open file that others may unlink, truncate or fill meanwhile is
            # in-flight state too: the next operation of this process is a hot point
            self.mark_hot(self.current_pid())
            if flags & real_os.O_TRUNC:
                del node.data[:]
            self._log("open", path)
        fd = self.next_fd
        self.next_fd += 1
        self.fds[fd] = OpenFile(node, flags, self.current_pid())
        return fd

    def _of(self, fd):
        of = self.fds.get(fd)
        if of is None or of.pid != self.current_pid():
            raise oserr(errno.EBADF)
        return of

    def close(self, fd):
        self.yield_point("fs/close")
        of = self._of(fd)
        del self.fds[fd]
        # POSIX: closing any descriptor of a file drops all the process' locks on it
        of.inode.locks = [l for l in of.inode.locks if l[2] != of.pid]
        self._log("close", fd)

    def write(self, fd, data):
        pid = self.current_pid()
        hot = pid in self.hot
        self.hot.discard(pid)
        self.yield_point("fs/write", hot)
        of = self._of(fd)
        return self._pwrite(of, data, of.pos, advance=True)

    def _pwrite(self, of, data, offset, advance=False):
        d = of.inode.data
        if len(d) < offset:
            d.extend(bytes(offset - len(d)))
        d[offset:offset + len(data)] = data
        if advance:
            of.pos = offset + len(data)
        return len(data)

    def pwrite(self, fd, data, offset):
        self.yield_point("fs/pwrite")
        n = self._pwrite(self._of(fd), bytes(data), offset)
        self._log("pwrite", fd, offset, bytes(data)[:8])
        return n

    def read(self, fd, n):
        self.yield_point("fs/read")
        of = self._of(fd)
        out = bytes(of.inode.data[of.pos:of.pos + n])
        of.pos += len(out)
        return out

    def pread(self, fd, n, offset):
        self.yield_point("fs/pread")
        out = bytes(self._of(fd).inode.data[offset:offset + n])
        self._log("pread", fd, offset, out[:8])
        return out

    def ftruncate(self, fd, length):
        pid = self.current_pid()
        hot = pid in self.hot
        self.hot.discard(pid)
        self.yield_point("fs/ftruncate", hot)
        d = self._of(fd).inode.data
        if len(d) > length:
            del d[length:]
        else:
            d.extend(bytes(length - len(d)))

    # -- record locks -------------------------------------------------------------------------------
    @staticmethod
    def _overlap(a0, a1, b0, b1):
        return (a1 is None or b0 < a1) and (b1 is None or a0 < b1)

    def lockf(self, fd, cmd, length=0, start=0, whence=0):
        import fcntl as real_fcntl
        of = self._of(fd)
        end = None if length == 0 else start + length
        pid = of.pid
        if cmd & real_fcntl.LOCK_UN:
            self.yield_point("fs/unlock")
            of.inode.locks = [l for l in of.inode.locks
                              if not (l[2] == pid and self._overlap(l[0], l[1], start, end))]
            self._log("unlock", fd, start)
            return
        nb = bool(cmd & real_fcntl.LOCK_NB)

        def free():
            return not any(l[2] != pid and self._overlap(l[0], l[1], start, end)
                           for l in of.inode.locks)
        self.yield_point("fs/lock")
        if not free():
            if nb:
                self.world.count("fs/lock-contended")
                raise oserr(errno.EAGAIN)
            if self.block is None:
                raise RuntimeError("blocking lockf would deadlock a single simulated process")
            self.world.count("fs/lock-blocked")
            self.block(free, "fs/lock-wait")
        of.inode.locks.append((start, end, pid))
        self._log("lock", fd, start)

    def process_died(self, pid):
        for fd in [fd for fd, of in self.fds.items() if of.pid == pid]:
            of = self.fds.pop(fd)
            of.inode.locks = [l for l in of.inode.locks if l[2] != pid]

    def file_bytes(self, path):
        return bytes(self._lookup(path).data)


# ---------------------------------------------------------------------------
# module proxies
# ---------------------------------------------------------------------------

class StubGap(BaseException):
    """the code under test used something the simulated OS does not provide: a gap of the
    harness, never a verdict (BaseException, so that no `except Exception` swallows it)"""


class SimStat:
    def __init__(self, inode):
        import stat as st
        self.st_size = len(inode.data) if inode.kind == "file" else 0
        self.st_mode = {"dir": st.S_IFDIR | 0o755, "file": st.S_IFREG | 0o644}.get(
            inode.kind, st.S_IFREG | 0o600)
        self.st_ino = id(inode) & 0xffffffff
        self.st_nlink = 1


class SimPath:
    """os.path: the pure functions are the real ones, the ones that look at the file
    system look at the simulated one"""

    def __init__(self, fs):
        self._fs = fs

    def __getattr__(self, name):
        if name in ("join", "basename", "dirname", "split", "splitext", "normpath", "sep",
                    "isabs", "commonprefix", "commonpath", "relpath"):
            return getattr(real_os.path, name)
        raise StubGap(f"os.path.{name} is not simulated")

    def _node(self, path):
        try:
            return self._fs._lookup(path)
        except OSError:
            return None

    def exists(self, path):
        self._fs.yield_point("fs/stat")
        return self._node(path) is not None

    lexists = exists

    def isdir(self, path):
        self._fs.yield_point("fs/stat")
        n = self._node(path)
        return n is not None and n.kind == "dir"

    def isfile(self, path):
        self._fs.yield_point("fs/stat")
        n = self._node(path)
        return n is not None and n.kind == "file"

    def getsize(self, path):
        self._fs.yield_point("fs/stat")
        return len(self._fs._lookup(path).data)


class OsProxy:
    """stands in for the `os` module inside ebpfcat.lock / ebpfcat.ebpfcat"""

    def __init__(self, fs, sched=None):
        self._fs = fs
        self._sched = sched
        self.path = SimPath(fs)
        self.SCHED_RR = getattr(real_os, "SCHED_RR", 2)

    def __getattr__(self, name):      # constants and harmless helpers
        if name.startswith("O_") or name in ("strerror", "fspath", "sep", "environ", "cpu_count"):
            return getattr(real_os, name)
        raise StubGap(f"os.{name} is not simulated")

    def fstat(self, fd):
        self._fs.yield_point("fs/fstat")
        return SimStat(self._fs._of(fd).inode)

    def stat(self, path):
        self._fs.yield_point("fs/stat")
        return SimStat(self._fs._lookup(path))

    def fsync(self, fd):
        self._fs._of(fd)

    def lseek(self, fd, pos, how):
        of = self._fs._of(fd)
        of.pos = pos if how == 0 else of.pos + pos if how == 1 else len(of.inode.data) + pos
        return of.pos

    def open(self, path, flags, mode=0o666):
        return self._fs.open(path, flags, mode)

    def close(self, fd):
        return self._fs.close(fd)

    def read(self, fd, n):
        return self._fs.read(fd, n)

    def write(self, fd, data):
        return self._fs.write(fd, data)

    def pread(self, fd, n, off):
        return self._fs.pread(fd, n, off)

    def pwrite(self, fd, data, off):
        return self._fs.pwrite(fd, data, off)

    def ftruncate(self, fd, n):
        return self._fs.ftruncate(fd, n)

    def remove(self, path):
        return self._fs.remove(path)

    unlink = remove

    def rmdir(self, path):
        return self._fs.rmdir(path)

    def rename(self, a, b):
        return self._fs.rename(a, b)

    def makedirs(self, path, mode=0o777, exist_ok=False):
        return self._fs.makedirs(path, exist_ok=exist_ok)

    def mkdir(self, path, mode=0o777):
        return self._fs.mkdir(path)

    def listdir(self, path):
        return self._fs.listdir(path)

    def getpid(self):
        return self._fs.current_pid()

    def kill(self, pid, sig):
        """signal 0 only: does the simulated process exist?"""
        if sig != 0:
            raise StubGap(f"os.kill({pid}, {sig})")
        self._fs.yield_point("os/kill")
        sched = self._sched
        procs = [] if sched is None else sched.procs
        if not any(q.pid == pid and q.state not in ("exited", "crashed") for q in procs):
            raise ProcessLookupError(3, "No such process")

    # real-time scheduling of the subprocess: nothing to simulate
    def sched_param(self, prio):
        return prio

    def sched_get_priority_max(self, policy):
        return 99

    def sched_setscheduler(self, pid, policy, param):
        return None

    def pidfd_open(self, pid):
        return self._sched.pidfd_open(pid)


class FcntlProxy:
    def __init__(self, fs):
        import fcntl as real_fcntl
        self._fs = fs
        for name in ("LOCK_EX", "LOCK_NB", "LOCK_UN", "LOCK_SH"):
            setattr(self, name, getattr(real_fcntl, name))

    def lockf(self, fd, cmd, len=0, start=0, whence=0):
        return self._fs.lockf(fd, cmd, len, start, whence)


class TempfileProxy:
    def __init__(self, fs):
        self._fs = fs

    def mkdtemp(self, suffix=None, prefix=None, dir=None):
        return self._fs.mkdtemp(dir or "/tmp", prefix or "tmp")


class ShutilProxy:
    def __init__(self, fs):
        self._fs = fs

    def rmtree(self, path, ignore_errors=False):
        return self._fs.rmtree(path)


class SimTextFile:
    def __init__(self, fs, fd):
        self.fs, self.fd = fs, fd

    def write(self, s):
        return self.fs.write(self.fd, s.encode())

    def read(self):
        return self.fs.read(self.fd, 1 << 20).decode()

    def close(self):
        if self.fd is not None:
            self.fs.close(self.fd)
            self.fd = None

    def __enter__(self):
        return self

    def __exit__(self, *a):
        self.close()


def make_open(fs):
    def sim_open(path, mode="r", *a, **kw):
        flags = {"r": real_os.O_RDONLY, "w": real_os.O_WRONLY | real_os.O_CREAT | real_os.O_TRUNC,
                 "x": real_os.O_WRONLY | real_os.O_CREAT | real_os.O_EXCL,
                 "a": real_os.O_WRONLY | real_os.O_CREAT}[mode.replace("b", "").replace("t", "")[0]]
        return SimTextFile(fs, fs.open(path, flags))
    return sim_open
