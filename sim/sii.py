"""SII (slave information interface = EEPROM) images, built from ETG.1000.6 / ETG.2010:
words 0x00-0x3F fixed header (identity at words 8..15), categories from word 0x40:
u16 type, u16 size in words, data; terminated by type 0xFFFF."""
import struct

CAT_STRINGS, CAT_GENERAL, CAT_FMMU, CAT_SYNCM, CAT_TXPDO, CAT_RXPDO = 10, 30, 40, 41, 50, 51


def build(vendor=2, product=0x12345678, revision=1, serial=77, categories=()):
    """categories: iterable of (type, bytes) with even-length data"""
    hdr = bytearray(0x80)
    struct.pack_into("<IIII", hdr, 16, vendor, product, revision, serial)
    out = bytes(hdr)
    for typ, data in categories:
        assert len(data) % 2 == 0, "category data must be whole words"
        out += struct.pack("<HH", typ, len(data) // 2) + bytes(data)
    out += b"\xff\xff\xff\xff"
    return out


def syncm_entry(start, length, control, enable=1, sm_type=0, status=0):
    """one 8-byte sync manager entry of category 41"""
    return struct.pack("<HHBBBB", start, length, control, status, enable, sm_type)


def pdo_category(pdos):
    """pdos: list of (pdo_index, sm, [(index, subindex, bits), ...])"""
    out = b""
    for pdo_index, sm, entries in pdos:
        out += struct.pack("<HBbBBH", pdo_index, len(entries), sm, 0, 0, 0)
        for index, sub, bits in entries:
            out += struct.pack("<HBBBBH", index, sub, 0, 0, bits, 0)
    return out
