"""The choice tape: the one source of every random decision of a simulated run.

`Tape(seed)` draws from `random.Random(seed)`; `Tape(replay=[k, ...])` replays
recorded values (a draw past the end gives 0, a recorded k >= n is reduced
mod n).  Convention everywhere: 0 is the benign choice (no fault, FIFO,
minimum delay, smallest size), so that a shortened / zeroed tape is always a
simpler run.  Nothing else in the simulator may use `random`, a real clock or
hash order.
"""
import hashlib
import random


class Tape:
    def __init__(self, seed=None, replay=None):
        self.seed = seed
        self.replay = None if replay is None else list(replay)
        self.rng = random.Random(seed) if replay is None else None
        self.pos = 0
        self.tail = None         # random.Random for "rand/" draws past the end of a replay
        self.values = []         # recorded k of every draw
        self.labels = []         # label of every draw (same length)
        self.counts = {}         # label -> number of non-zero draws (= "fired")
        self.draws = {}          # label -> number of draws

    # -- the only primitive -------------------------------------------------
    def draw(self, label, n):
        """return 0 <= k < n"""
        if n <= 1:
            return 0
        if self.replay is None:
            k = self.rng.randrange(n)
        elif self.pos < len(self.replay):
            k = self.replay[self.pos] % n
        elif self.tail is not None and label.startswith("rand/"):
            # past the recorded values: the library's own PRNG goes on drawing (a constant
            # would make its "draw until unused" loops spin), everything else is benign
            k = self.tail.randrange(n)
        else:
            k = 0
        self.pos += 1
        self.values.append(k)
        self.labels.append(label)
        self.draws[label] = self.draws.get(label, 0) + 1
        if k:
            self.counts[label] = self.counts.get(label, 0) + 1
        return k

    # -- conveniences, all built on draw ------------------------------------
    def chance(self, label, num, den=100):
        """True with probability num/den; False is the benign outcome"""
        if num <= 0:
            return False
        return self.draw(label, den) >= den - num

    def pick(self, label, seq):
        return seq[self.draw(label, len(seq))]

    def rng_range(self, label, lo, hi):
        """lo <= x < hi, lo is benign"""
        return lo + self.draw(label, hi - lo)

    def biased(self, label, n, special=(), weight=50):
        """0 <= k < n, with `weight` percent of the mass on the `special` values"""
        special = [s for s in special if 0 <= s < n]
        if special and self.chance(label + "/special", weight):
            return self.pick(label + "/which", special)
        return self.draw(label, n)

    def bytes(self, label, n):
        return bytes(self.draw(label, 256) for _ in range(n))

    def shuffle(self, label, seq):
        seq = list(seq)
        out = []
        while seq:
            out.append(seq.pop(self.draw(label, len(seq))))
        return out

    def fork(self, label):
        """an independent sub-tape is *not* offered on purpose: one tape, one run"""
        raise NotImplementedError


class Digest:
    """Folds the event log of a run into one SHA-256.

    Never draws from the tape, never reads a clock."""
    def __init__(self, keep=0):
        self.h = hashlib.sha256()
        self.n = 0
        self.keep = keep
        self.events = []

    def add(self, *fields):
        self.n += 1
        rec = repr(fields).encode()
        self.h.update(rec)
        if self.keep and len(self.events) < self.keep:
            self.events.append(fields)

    def hexdigest(self):
        return self.h.hexdigest()


def derive_seed(master, prop, scenario, i):
    h = hashlib.sha256(f"{master}/{prop}/{scenario}/{i}".encode()).digest()
    return int.from_bytes(h[:8], "little")
