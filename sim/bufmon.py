"""C10 buffer monitor: records the length of every Python buffer whose address
is handed to the kernel stub, and lets the stub ask how many bytes it may touch.

Seams: ebpfcat.bpf.addrof and ebpfcat.bpf.addressof (module attributes)."""
import ctypes


class BufferMonitor:
    def __init__(self):
        self.lengths = {}        # address -> length of the live buffer behind it
        self.violations = []     # (cmd, role, needed, have, map description)
        self.judged = 0
        self.unjudged = 0
        self.keepalive = []

    def install(self, patches, bpf):
        real_addressof = ctypes.addressof
        real_addrof = bpf.addrof
        mon = self

        def addressof(obj):
            addr = real_addressof(obj)
            backing = getattr(obj, "_objects", None)
            if isinstance(backing, memoryview):
                mon.lengths[addr] = backing.nbytes
            elif isinstance(backing, dict):
                for v in backing.values():
                    if isinstance(v, memoryview):
                        mon.lengths[addr] = v.nbytes
            else:
                mon.lengths[addr] = ctypes.sizeof(obj)
            return addr

        def addrof(ptr):
            if isinstance(ptr, bytearray):
                addr = addressof(ctypes.c_char.from_buffer(ptr))
                mon.lengths[addr] = len(ptr)
                return addr
            addr = real_addrof(ptr)
            if isinstance(ptr, (bytes, memoryview)):
                mon.lengths[addr] = len(ptr)
            elif isinstance(ptr, ctypes.Array):
                mon.lengths[addr] = ctypes.sizeof(ptr)
            return addr
        patches.set(bpf, "addressof", addressof)
        patches.set(bpf, "addrof", addrof)

    def check(self, cmd, m, role, addr, needed):
        have = self.lengths.get(addr)
        if have is None:
            self.unjudged += 1
            return needed
        self.judged += 1
        if have < needed:
            self.violations.append(dict(cmd=cmd, role=role, needed=needed, have=have,
                                        map=repr(m)))
            return have
        return needed
