"""Simulated NIC, wire, EtherCAT ring and slave controllers (ESC).

Written from the EtherCAT frame format and ESC register description
(ETG.1000.4 / Beckhoff ESC datasheet section I+II); shares no code with
ebpfcat.  Everything random is drawn from the world's tape.
"""
import struct
from socket import AF_NETLINK, AF_PACKET

from .loop import SimDatagramTransport

ETH_P_ECAT = 0x88A4

# EtherCAT commands
NOP, APRD, APWR, APRW, FPRD, FPWR, FPRW, BRD, BWR, BRW, LRD, LWR, LRW, ARMW, \
    FRMW = range(15)
CMD_NAMES = ["NOP", "APRD", "APWR", "APRW", "FPRD", "FPWR", "FPRW", "BRD",
             "BWR", "BRW", "LRD", "LWR", "LRW", "ARMW", "FRMW"]

# AL states
INIT, PREOP, BOOT, SAFEOP, OP = 1, 2, 3, 4, 8


class FrameError(Exception):
    pass


class Datagram:
    __slots__ = ("cmd", "idx", "addr", "adp", "ado", "length", "more", "circ",
                 "irq", "data_pos", "wkc_pos", "hdr_pos")

    def __repr__(self):
        return (f"<{CMD_NAMES[self.cmd] if self.cmd < 15 else self.cmd} "
                f"idx={self.idx} addr={self.addr:#x} len={self.length}"
                f"{' M' if self.more else ''}>")


def parse_ecat(payload, strict=True):
    """independent EtherCAT frame parser.

    `payload` = bytes after the Ethernet header.  Returns (length_field, type,
    [Datagram...]) with positions relative to `payload`; raises FrameError on
    any malformation when `strict`."""
    if len(payload) < 2:
        raise FrameError("frame shorter than the EtherCAT header")
    hdr, = struct.unpack_from("<H", payload, 0)
    length = hdr & 0x7ff
    ftype = hdr >> 12
    if strict and ftype != 1:
        raise FrameError(f"EtherCAT frame type {ftype}, expected 1")
    if strict and hdr & 0x0800:
        raise FrameError("reserved bit set in EtherCAT header")
    pos = 2
    end = 2 + length
    if end > len(payload):
        raise FrameError(f"length field {length} exceeds payload {len(payload) - 2}")
    dgrams = []
    more = True
    while more:
        if pos + 12 > end:
            raise FrameError(f"datagram header at {pos} exceeds frame length {length}")
        d = Datagram()
        d.hdr_pos = pos
        d.cmd, d.idx, d.addr, lf, d.irq = struct.unpack_from("<BBIHH", payload, pos)
        d.adp = d.addr & 0xffff
        d.ado = d.addr >> 16
        d.length = lf & 0x7ff
        d.circ = bool(lf & 0x4000)
        d.more = more = bool(lf & 0x8000)
        if strict and lf & 0x3800:
            raise FrameError(f"reserved bits set in datagram length field {lf:#x}")
        d.data_pos = pos + 10
        d.wkc_pos = d.data_pos + d.length
        if d.wkc_pos + 2 > end:
            raise FrameError(f"datagram at {pos} (len {d.length}) exceeds frame length")
        pos = d.wkc_pos + 2
        dgrams.append(d)
        if len(dgrams) > 64:
            raise FrameError("too many datagrams")
    if strict and pos != end:
        raise FrameError(f"datagrams end at {pos}, length field says {end}")
    return length, ftype, dgrams


# ---------------------------------------------------------------------------
# slave controller
# ---------------------------------------------------------------------------

class MailboxApp:
    """interface of a mailbox application"""

    def receive(self, raw):
        """raw = full receive-mailbox contents; return list of messages"""
        return []


class SimTerminal:
    """one EtherCAT slave controller with AL state machine, EEPROM interface,
    FMMUs, sync managers (mailbox + buffered) and pluggable applications"""

    def __init__(self, bus, name="T", *, n_fmmu=4, n_sm=4, station=0,
                 eeprom=b"", eeprom_8byte=True, mailbox_app=None):
        self.bus = bus
        self.world = bus.world
        self.name = name
        self.mem = bytearray(0x10000)
        self.n_fmmu = n_fmmu
        self.n_sm = n_sm
        self.mem[4] = n_fmmu
        self.mem[5] = n_sm
        struct.pack_into("<H", self.mem, 0x10, station)
        # AL
        self.al_state = INIT
        self.al_error = False
        self.al_code = 0
        self.al_target = None      # pending transition target
        self.al_polls_left = 0
        self.al_delay = lambda frm, to: 0     # polls a transition takes
        self.al_fail = lambda frm, to: 0      # AL status code to fail with, or 0
        self.al_spontaneous_error = lambda: 0  # checked at every status poll
        self.al_log = []           # ("w", value) / ("r", value) in order
        # EEPROM
        self.eeprom = bytes(eeprom)
        self.eeprom_8byte = eeprom_8byte
        self.ee_busy = 0
        self.ee_delay = lambda: 0
        self.ee_data = bytes(8)
        self.ee_error = False
        self.ee_junk = None        # callable -> 4 junk bytes for 4-byte mode
        # mailbox
        self.mailbox_app = mailbox_app
        self.mbx_queue = []        # messages waiting for the send mailbox
        self.mbx_delay = lambda: 0  # polls before an answer becomes visible
        self.mbx_wait = 0
        self.mbx_log = []          # ("w", raw, False) master wrote / ("r", raw, busy) master read
        self.mbx_busy = lambda: False   # more answers of the same exchange to come?
        self.mbx_fetch_delay = lambda: 0   # status polls a request waits in the full mailbox
        self.mbx_unfetched = None
        self.sm_open = {}          # sm index -> True while a buffer access is open
        self.sm_full = {}          # sm index -> mailbox full flag
        # process data application: called once per frame that touches us
        self.pd_app = None
        self.skip_datagram = lambda d: False   # fault: do not process
        self.reg_write_log = []    # (ado, bytes) of every register write < 0x1000
        self.denied = 0

    # -- helpers ---------------------------------------------------------------
    @property
    def station(self):
        return struct.unpack_from("<H", self.mem, 0x10)[0]

    def sm_regs(self, i):
        start, length, ctrl, status, act, pdi = struct.unpack_from(
            "<HHBBBB", self.mem, 0x800 + 8 * i)
        return start, length, ctrl, act

    def _sm_at(self, ado, n):
        """sync manager (index, start, length, ctrl) whose active area overlaps"""
        for i in range(self.n_sm):
            start, length, ctrl, act = self.sm_regs(i)
            if act & 1 and length and ado < start + length and ado + n > start:
                return i, start, length, ctrl
        return None

    # -- AL state machine ----------------------------------------------------------
    al_status_extra = 0      # bits 5..7 of the AL status (e.g. 0x20: device identification loaded)

    def _al_status_word(self):
        return self.al_state | (0x10 if self.al_error else 0) | self.al_status_extra

    def _al_poll(self):
        code = self.al_spontaneous_error()      # < 0: error flag with status code 0
        if code and not self.al_error:
            self.al_error = True
            self.al_code = max(code, 0)
            self.al_target = None
            self.world.count("fault/al-spontaneous-error")
        if self.al_target is not None:
            if self.al_polls_left > 0:
                self.al_polls_left -= 1
            else:
                self._al_complete()

    def _al_complete(self):
        frm, to = self.al_state, self.al_target
        self.al_target = None
        code = self.al_fail(frm, to)
        if code:
            self.al_error = True
            self.al_code = max(code, 0)
            self.world.count("fault/al-transition-error")
            return
        self.al_state = to
        if to == INIT:
            self._reset_mailbox()

    def _reset_mailbox(self):
        self.mbx_queue.clear()
        self.sm_full.clear()
        self.sm_open.clear()

    def _al_control(self, value):
        self.al_log.append(("w", value))
        req = value & 0xf
        ack = bool(value & 0x10)
        if self.al_error:
            if not ack:
                return                  # error must be acknowledged first
            self.al_error = False
            self.al_code = 0
        if req not in (INIT, PREOP, BOOT, SAFEOP, OP):
            self.al_error, self.al_code = True, 0x12   # unknown requested state
            return
        cur = self.al_state
        order = {INIT: 0, PREOP: 1, SAFEOP: 2, OP: 3}
        if req == cur and self.al_target is None:
            return
        ok = False
        if req == BOOT:
            ok = cur == INIT
        elif cur == BOOT:
            ok = req == INIT
        elif order[req] <= order[cur]:
            ok = True                   # going down is always possible
        elif order[req] == order[cur] + 1:
            ok = True
        if not ok:
            self.al_error, self.al_code = True, 0x11   # invalid state change
            self.world.count("esc/invalid-state-change")
            return
        self.al_target = req
        self.al_polls_left = self.al_delay(cur, req)
        if self.al_polls_left == 0:
            self._al_complete()

    # -- EEPROM interface ----------------------------------------------------------
    def _ee_command(self, data):
        ctrl, = struct.unpack_from("<H", data, 0)
        if len(data) >= 6:
            self.mem[0x504:0x508] = data[2:6]
        if len(data) >= 8:
            self.mem[0x508:0x508 + len(data) - 6] = data[6:]
        if self.ee_busy:
            self.ee_error = True        # command while busy: acknowledged as error
            return
        cmd = (ctrl >> 8) & 7
        if cmd == 1:                    # read
            addr, = struct.unpack_from("<I", self.mem, 0x504)
            n = 8 if self.eeprom_8byte else 4
            chunk = self.eeprom[addr * 2: addr * 2 + n]
            chunk = chunk + b"\xff" * (n - len(chunk))
            if n == 4:
                junk = self.ee_junk() if self.ee_junk else bytes(4)
                chunk += junk
            self.ee_data = chunk
            self.ee_busy = self.ee_delay() + 1
            self.ee_error = False
            self.world.count("esc/eeprom-read")
        elif cmd == 0:
            self.ee_error = False
        else:
            self.ee_busy = self.ee_delay() + 1

    def _ee_refresh(self):
        status = 0
        if self.eeprom_8byte:
            status |= 0x40
        if self.ee_busy > 0:
            self.ee_busy -= 1
            if self.ee_busy:
                status |= 0x8000
                self.world.count("esc/eeprom-busy-poll")
        if self.ee_error:
            status |= 0x2000
        struct.pack_into("<H", self.mem, 0x502, status)
        if not status & 0x8000:
            self.mem[0x508:0x510] = self.ee_data
        else:
            self.mem[0x508:0x510] = b"\xee" * 8   # data not valid while busy

    # -- mailbox ---------------------------------------------------------------------
    def _mailbox_sms(self):
        """(write_sm, read_sm) as (index, start, length) or None each"""
        w = r = None
        for i in range(self.n_sm):
            start, length, ctrl, act = self.sm_regs(i)
            if not (act & 1) or not length or ctrl & 3 != 2:
                continue
            if (ctrl >> 2) & 3 == 1 and w is None:
                w = (i, start, length)
            elif (ctrl >> 2) & 3 == 0 and r is None:
                r = (i, start, length)
        return w, r

    def _mbx_pump(self):
        """move the next queued message into the send mailbox if it is empty"""
        w, r = self._mailbox_sms()
        if r is None or not self.mbx_queue or self.sm_full.get(r[0]):
            return
        if self.mbx_wait > 0:
            self.mbx_wait -= 1
            self.world.count("esc/mailbox-answer-delayed")
            return
        i, start, length = r
        msg = self.mbx_queue.pop(0)
        if len(msg) > length:
            self.world.count("esc/mailbox-answer-too-long")
            msg = msg[:length]
        self.mem[start:start + length] = msg + bytes(length - len(msg))
        self.sm_full[i] = True
        if self.mbx_queue:
            self.mbx_wait = self.mbx_delay()

    def queue_mail(self, msg, front=False):
        if front:
            self.mbx_queue.insert(0, bytes(msg))
        else:
            self.mbx_queue.append(bytes(msg))

    def _sm_status_refresh(self):
        if self.mbx_unfetched is not None:
            self.mbx_unfetched[2] -= 1
            if self.mbx_unfetched[2] <= 0:
                i, raw, _ = self.mbx_unfetched
                self.mbx_unfetched = None
                self.sm_full[i] = False
                self._mailbox_received(i, raw)
        self._mbx_pump()
        for i in range(self.n_sm):
            start, length, ctrl, act = self.sm_regs(i)
            st = 0
            if ctrl & 3 == 2 and self.sm_full.get(i):
                st |= 0x08
            self.mem[0x805 + 8 * i] = st

    # -- memory access as seen from the bus ----------------------------------------------
    def read(self, ado, n):
        """return bytes or None if the access is denied"""
        if ado + n > 0x10000:
            return None
        if ado < 0x136 and ado + n > 0x130:
            self._al_poll()
            w = self._al_status_word()
            struct.pack_into("<HHH", self.mem, 0x130, w, 0, self.al_code)
            self.al_log.append(("r", w))
        if ado < 0x510 and ado + n > 0x502:
            self._ee_refresh()
        if ado < 0x800 + 8 * self.n_sm and ado + n > 0x800:
            self._sm_status_refresh()
        sm = self._sm_at(ado, n) if ado >= 0x1000 else None
        if sm is not None and sm[3] & 3 == 2:
            i, start, length, ctrl = sm
            if (ctrl >> 2) & 3 != 0:
                self.denied += 1
                return None             # master cannot read its write mailbox
            self._mbx_pump()
            if not self.sm_full.get(i):
                self.denied += 1
                return None             # empty mailbox: not processed
            if ado != start and not self.sm_open.get(i):
                self.denied += 1
                return None             # access must begin at the first byte
            if ado + n > start + length:
                self.denied += 1
                return None
            self.sm_open[i] = True
            data = bytes(self.mem[ado:ado + n])
            if ado + n == start + length:   # last byte read: mailbox empty again
                self.sm_open[i] = False
                self.sm_full[i] = False
                self.mbx_log.append(("r", bytes(self.mem[start:start + length]),
                                     bool(self.mbx_queue) or bool(self.mbx_busy())))
                self.world.log(self.name, "mbx-read", bytes(self.mem[start:start + 16]))
            return data
        return bytes(self.mem[ado:ado + n])

    def write(self, ado, data):
        """return True if accepted"""
        n = len(data)
        if ado + n > 0x10000:
            return False
        if ado < 0x1000:
            self.reg_write_log.append((ado, bytes(data)))
        if ado == 0x120 and n >= 1:
            value = data[0] | (data[1] << 8 if n > 1 else 0)
            self.mem[ado:ado + n] = data
            self._al_control(value)
            return True
        if ado < 0x510 and ado + n > 0x502:
            if ado == 0x502:
                self._ee_command(bytes(data))
                return True
            self.mem[ado:ado + n] = data
            return True
        if ado < 0x130 + 6 and ado + n > 0x130:
            return False                # AL status is read-only
        sm = self._sm_at(ado, n) if ado >= 0x1000 else None
        if sm is not None and sm[3] & 3 == 2:
            i, start, length, ctrl = sm
            if (ctrl >> 2) & 3 != 1:
                self.denied += 1
                return False            # master cannot write its read mailbox
            if self.sm_full.get(i):
                self.denied += 1
                self.world.count("esc/mailbox-write-while-full")
                return False
            if ado != start and not self.sm_open.get(i):
                self.denied += 1
                return False
            if ado < start or ado + n > start + length:
                self.denied += 1
                self.world.count("esc/mailbox-write-outside")
                return False
            if ado == start:
                self.sm_open[i] = True
            self.mem[ado:ado + n] = data
            if ado + n == start + length:   # last byte written: mailbox full
                self.sm_open[i] = False
                raw = bytes(self.mem[start:start + length])
                self.mbx_log.append(("w", raw, False))
                self.world.log(self.name, "mbx-write", raw[:24])
                d = self.mbx_fetch_delay()
                if d > 0:
                    # a slow application: the request stays in the (full) mailbox for
                    # d more status polls before it is taken out
                    self.sm_full[i] = True
                    self.mbx_unfetched = [i, raw, d]
                    self.world.count("esc/mailbox-request-fetched-late")
                else:
                    self._mailbox_received(i, raw)
            return True
        self.mem[ado:ado + n] = data
        return True

    def _mailbox_received(self, sm_index, raw):
        # the application consumes the message at once (mailbox empty again)
        if self.mailbox_app is not None:
            was_empty = not self.mbx_queue
            for msg in self.mailbox_app.receive(raw):
                self.mbx_queue.append(bytes(msg))
            if was_empty and self.mbx_queue:
                self.mbx_wait = self.mbx_delay()

    # -- datagram processing ---------------------------------------------------------------
    def fmmus(self):
        for i in range(self.n_fmmu):
            base = 0x600 + 16 * i
            lstart, length, lsb, lstop, pstart, psb, typ, act = struct.unpack_from(
                "<IHBBHBBB", self.mem, base)
            if act & 1 and length:
                yield i, lstart, length, lsb, lstop, pstart, psb, typ

    def process(self, d, data):
        """process datagram `d` (header fields, mutable adp) with its `data`
        bytearray in place; return the working counter increment"""
        cmd = d.cmd
        if cmd == NOP or cmd > FRMW:
            return 0
        n = len(data)
        inc = 0
        if cmd in (APRD, APWR, APRW, ARMW):
            addressed = d.adp == 0
            d.adp = (d.adp + 1) & 0xffff
        elif cmd in (FPRD, FPWR, FPRW, FRMW):
            addressed = d.adp == self.station and True
        elif cmd in (BRD, BWR, BRW):
            addressed = True
            d.adp = (d.adp + 1) & 0xffff
        else:
            addressed = False
        if cmd in (LRD, LWR, LRW):
            return self._process_logical(d, data)
        if cmd in (ARMW, FRMW):
            if addressed:
                got = self.read(d.ado, n)
                if got is not None:
                    data[:] = got
                    inc += 1
            else:
                if self.write(d.ado, bytes(data)):
                    inc += 1
            return inc
        if not addressed:
            return 0
        if self.skip_datagram(d):
            self.world.count("fault/datagram-skipped")
            return 0
        do_read = cmd in (APRD, FPRD, BRD, APRW, FPRW, BRW)
        do_write = cmd in (APWR, FPWR, BWR, APRW, FPRW, BRW)
        old = bytes(data)
        if do_read:
            got = self.read(d.ado, n)
            if got is not None:
                if cmd in (BRD, BRW):
                    data[:] = bytes(a | b for a, b in zip(old, got))
                else:
                    data[:] = got
                inc += 1
        if do_write:
            if self.write(d.ado, old):
                inc += 2 if do_read else 1
        return inc

    def _process_logical(self, d, data):
        lo = d.addr
        n = len(data)
        did_r = did_w = False
        old = bytes(data)
        for i, lstart, length, lsb, lstop, pstart, psb, typ in self.fmmus():
            if lsb != 0 or lstop != 7 or psb != 0:
                self.world.count("esc/bitwise-fmmu-unsupported")
                continue
            a = max(lo, lstart)
            b = min(lo + n, lstart + length)
            if a >= b:
                continue
            if self.skip_datagram(d):
                self.world.count("fault/datagram-skipped")
                return 0
            phys = pstart + (a - lstart)
            if d.cmd in (LRD, LRW) and typ & 1:
                data[a - lo:b - lo] = self.mem[phys:phys + (b - a)]
                did_r = True
            if d.cmd in (LWR, LRW) and typ & 2:
                self.mem[phys:phys + (b - a)] = old[a - lo:b - lo]
                self.pd_written(phys, b - a)
                did_w = True
        inc = 0
        if did_r:
            inc += 1
        if did_w:
            inc += 2 if d.cmd == LRW else 1
        return inc

    def pd_written(self, phys, n):
        pass


# ---------------------------------------------------------------------------
# ring, wire, NIC
# ---------------------------------------------------------------------------

class WireFaults:
    """per-run fault configuration of the wire (rates in percent)"""

    def __init__(self, loss=0, dup=0, reorder=0, delay_buckets=(50e-6,), late=0, truncate=0):
        self.late = late          # percent of frames that come back 25-45 ms late
        self.truncate = truncate  # percent of frames that come back cut short
        self.loss = loss
        self.dup = dup
        self.reorder = reorder
        self.delay_buckets = tuple(delay_buckets)
        self.enabled = True


class SimBus:
    """NIC + wire + ring of terminals.  One per network interface."""

    def __init__(self, world, ifname="sim0", ifindex=7, faults=None, kernel=None):
        self.world = world
        self.tape = world.tape
        self.ifname = ifname
        self.ifindex = ifindex
        self.terminals = []
        self.faults = faults or WireFaults()
        self.kernel = kernel          # SimKernel, for the XDP hook
        self.sockets = []             # SimPacketTransports
        self.last_arrival = 0.0
        self.monitors = []            # callables(frame_bytes, transport) at transmit
        self.rx_monitors = []         # callables(stage, frame) on the receive path
        self.frames_sent = 0
        self.frames_lost = 0
        self.in_flight = 0
        self.history = None           # optional list of (tx frame, rx frame)
        self.datagram_hook = None     # callable(frame_no, dgram, data) -> None/fault
        self.wkc_fault = None         # callable(frame_no, dgram, wkc) -> wkc
        self._ring_results = {}
        self.route_by_data0 = False   # stand-in for the dispatcher's ethertype rewrite
        self.send_fault = None        # callable -> True: sendto() fails with ENOBUFS
        self.delay_for = None         # callable(no, frame) -> seconds to hold this frame back
        self.socket_drop = None       # callable(no, frame) -> True: lost between XDP and sockets
        self.mtu = 1500               # what the interface reports (jumbo frames: 9000)

    def add_terminal(self, term):
        self.terminals.append(term)
        return term

    # -- transmit path ---------------------------------------------------------------
    def transmit(self, transport, payload, addr):
        """a packet socket sends `payload` (bytes after the Ethernet header)"""
        ifname, proto = addr[0], addr[1]
        dst = addr[4] if len(addr) > 4 else b"\xff" * 6
        frame = bytes(dst) + b"\x02\x00\x00\x00\x00\x01" + struct.pack("!H", proto) \
            + bytes(payload)
        self.frames_sent += 1
        no = self.frames_sent
        self.world.log(self.ifname, "tx", no, frame)
        for m in self.monitors:
            m(no, frame, transport)
        self.send_to_wire(no, frame)

    def send_to_wire(self, no, frame, origin="user"):
        f = self.faults
        tape = self.tape
        if f.enabled and f.loss and tape.chance("wire/loss", f.loss):
            self.frames_lost += 1
            self.world.count("fault/frame-lost")
            self.world.log(self.ifname, "lost", no)
            return
        if self.delay_for is not None:
            d = self.delay_for(no, frame)
            if d is not None:
                # this frame is held back for long (and overtaken by the ones behind it)
                self.world.count("fault/frame-held-back")
                self.in_flight += 1
                self.world.at(self.world.now + d, self._arrive, no, frame, True)
                return
        delay = f.delay_buckets[tape.draw("wire/delay", len(f.delay_buckets))]
        if f.enabled and f.late and tape.chance("wire/late", f.late):
            # later than the 20 ms after which a sync group sends its frame again
            delay = 0.025 + 0.005 * tape.draw("wire/late-by", 5)
            self.world.count("fault/frame-late-beyond-resend-timeout")
        if delay != f.delay_buckets[0]:
            self.world.count("fault/frame-delayed")
        t = self.world.now + delay
        if f.enabled and f.reorder and tape.chance("wire/reorder", f.reorder):
            self.world.count("fault/frame-reorder-allowed")
        else:
            t = max(t, self.last_arrival)   # a ring is FIFO
        self.last_arrival = max(self.last_arrival, t)
        self.in_flight += 1
        self.world.at(t, self._arrive, no, frame, True)
        if f.enabled and f.dup and tape.chance("wire/dup", f.dup):
            self.world.count("fault/frame-duplicated")
            extra = f.delay_buckets[tape.draw("wire/dup-delay", len(f.delay_buckets))]
            self.in_flight += 1
            self.world.at(t + extra, self._arrive, no, None, False)

    # -- ring ------------------------------------------------------------------------
    def ring(self, no, frame):
        """all terminals process the frame; returns the frame as it comes back"""
        if len(frame) < 16 or frame[12:14] != b"\x88\xa4":
            return frame
        buf = bytearray(frame)
        try:
            _, _, dgrams = parse_ecat(bytes(buf[14:]), strict=False)
        except FrameError:
            self.world.count("ring/unparseable-frame")
            return frame
        for d in dgrams:
            dp = 14 + d.data_pos
            data = bytearray(buf[dp:dp + d.length])
            wkc, = struct.unpack_from("<H", buf, 14 + d.wkc_pos)
            for term in self.terminals:
                wkc = (wkc + term.process(d, data)) & 0xffff
            if self.wkc_fault is not None:
                wkc = self.wkc_fault(no, d, wkc) & 0xffff
            buf[dp:dp + d.length] = data
            struct.pack_into("<H", buf, 14 + d.wkc_pos, wkc)
            if d.cmd in (APRD, APWR, APRW, ARMW, BRD, BWR, BRW):
                struct.pack_into("<H", buf, 14 + d.hdr_pos + 2, d.adp)
        for term in self.terminals:
            if term.pd_app is not None:
                term.pd_app(term, no)
        return bytes(buf)

    # -- receive path --------------------------------------------------------------------
    def _arrive(self, no, frame, through_ring):
        self.in_flight -= 1
        if through_ring:
            tx = frame
            frame = self.ring(no, frame)
            self._ring_results[no] = frame
            if len(self._ring_results) > 32:
                del self._ring_results[min(self._ring_results)]
            if self.history is not None:
                self.history.append((no, tx, frame))
        else:
            frame = self._ring_results.get(no)
            if frame is None:
                return
        f = self.faults
        if f is not None and f.enabled and f.truncate and len(frame) > 32 \
                and self.tape.chance("wire/truncate", f.truncate):
            # the frame comes back cut short (a switch or a capture tap in the ring)
            frame = frame[:20 + self.tape.draw("wire/truncate-at", len(frame) - 20)]
            self.world.count("fault/frame-truncated")
        self.world.log(self.ifname, "rx", no, frame)
        self.nic_receive(no, frame)

    def nic_receive(self, no, frame):
        """a frame arrives at the NIC from the wire: XDP hook, then sockets"""
        prog = self.kernel.xdp.get(self.ifindex) if self.kernel is not None else None
        if prog is not None:
            pkt = bytearray(frame)
            before = bytes(pkt)
            for m in self.rx_monitors:
                m("pre-xdp", no, before)
            action, inst = self.kernel.run_xdp(prog, pkt)
            for m in self.rx_monitors:
                m("xdp", no, before, bytes(pkt), action, inst)
            self.world.log(self.ifname, "xdp", no, action, bytes(pkt))
            self.world.count(f"xdp/action-{action}")
            if action == 3:          # XDP_TX
                self.send_to_wire(no, bytes(pkt), origin="xdp")
                return
            if action != 2:          # DROP / ABORTED / anything else
                return
            frame = bytes(pkt)
        elif self.route_by_data0 and len(frame) >= 28 and frame[12:14] == b"\x88\xa4" \
                and frame[16] == 0:
            # what EtherXDP does for frames it hands to user space
            frame = frame[:12] + frame[27:28] + frame[26:27] + frame[14:]
        self.deliver_to_sockets(no, frame)

    def deliver_to_sockets(self, no, frame):
        proto, = struct.unpack_from("!H", frame, 12)
        n = 0
        if self.socket_drop is not None and self.socket_drop(no, frame):
            # the receive queue of the packet sockets is full (user space does not get
            # to read it): the frame is dropped after the XDP hook has seen it
            self.world.count("fault/frame-dropped-at-the-socket")
            return
        for s in list(self.sockets):
            if s.accepts(self.ifname, proto):
                s.deliver(frame[14:], (self.ifname, proto, 0, 1, frame[6:12]))
                n += 1
        if n == 0:
            self.world.count("nic/frame-without-listener")
        for m in self.rx_monitors:
            m("deliver", no, frame, n)


class SimPacketTransport(SimDatagramTransport):
    """AF_PACKET/SOCK_DGRAM socket on a SimBus"""

    def __init__(self, loop, protocol, family, proto, buses):
        super().__init__(loop, protocol, family, proto)
        self.buses = buses          # ifname -> SimBus
        self.ifname = None
        self.ethertype = ((proto & 0xff) << 8) | (proto >> 8)   # ntohs
        for b in buses.values():
            b.sockets.append(self)

    def _bound(self, addr):
        self.ifname, self.ethertype = addr[0], addr[1]

    def accepts(self, ifname, proto):
        if self.closed:
            return False
        if self.ifname is not None and self.ifname != ifname:
            return False
        return proto == self.ethertype or self.ethertype == 3   # ETH_P_ALL

    def sendto(self, data, addr=None):
        if self.closed:
            return
        bus = self.buses.get(addr[0])
        if bus is None:
            raise OSError(19, "No such device")
        if bus.send_fault is not None and bus.send_fault():
            # the system call fails: the socket's send queue is full
            raise OSError(105, "No buffer space available")
        bus.transmit(self, bytes(data), addr)

    def close(self):
        for b in self.buses.values():
            if self in b.sockets:
                b.sockets.remove(self)
        super().close()


class SimNetlinkTransport(SimDatagramTransport):
    """just enough rtnetlink for XDRFD: RTM_SETLINK with IFLA_XDP"""

    def __init__(self, loop, protocol, family, proto, kernel, world):
        super().__init__(loop, protocol, family, proto)
        self.kernel = kernel
        self.world = world

    def sendto(self, data, addr=None):
        ln, typ, flags, seq, pid = struct.unpack_from("IHHII", data, 0)
        err = 0
        try:
            if typ != 19:
                raise OSError(95, "not supported")
            ifindex, = struct.unpack_from("i", data, 16 + 4)
            pos = 16 + 16
            fd = None
            while pos + 4 <= ln:
                alen, atype = struct.unpack_from("HH", data, pos)
                if atype & 0x7fff == 43:      # IFLA_XDP (nested)
                    p2 = pos + 4
                    while p2 + 4 <= pos + alen:
                        l2, t2 = struct.unpack_from("HH", data, p2)
                        if t2 == 1:
                            fd, = struct.unpack_from("i", data, p2 + 4)
                        p2 += (l2 + 3) & ~3
                pos += (alen + 3) & ~3
            if fd is None:
                raise OSError(22, "Invalid argument")
            self.kernel.attach_xdp(ifindex, fd)
            self.world.log("netlink", "xdp", ifindex, fd >= 0)
        except OSError as e:
            err = -e.errno
        # NLMSG_ERROR with error code (0 = ACK), echoing the request header
        reply = struct.pack("IHHII", 36, 2, 0, seq, 0) + struct.pack("i", err) \
            + data[:16]
        self.deliver(reply, (0, 0))


def endpoint_factory(buses, kernel, world):
    """returns the factory SimLoop.create_datagram_endpoint uses"""
    def factory(loop, protocol, family, proto):
        if family == AF_PACKET:
            return SimPacketTransport(loop, protocol, family, proto, buses)
        if family == AF_NETLINK:
            return SimNetlinkTransport(loop, protocol, family, proto, kernel, world)
        raise OSError(97, f"address family {family} not simulated")
    return factory
