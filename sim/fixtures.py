"""Builders shared by the checks: simulated terminals with mailbox / process
data and the matching ebpfcat Terminal objects, either brought up the long way
(Terminal.initialize) or pre-initialised from the same model."""
import struct

from . import sii
from .bus import SimTerminal
from .coe import CoEServer, ObjectDictionary


class MailboxAdapter:
    """glues a CoEServer to SimTerminal's mailbox application interface and lets
    a check interleave unrelated mail ahead of an answer"""

    def __init__(self, server):
        self.server = server
        self.before_answer = None     # callable() -> list of messages to queue first
        self.received = []            # raw messages, in order

    def receive(self, raw):
        self.received.append(bytes(raw))
        out = []
        if self.before_answer is not None:
            out.extend(self.before_answer())
        out.extend(self.server.receive(raw))
        return out


def sm_layout(mbx_out=None, mbx_in=None, pdo_out=None, pdo_in=None):
    """-> list of (start, length, control) for SM0..SM3 in the usual order;
    control: 0x26 mailbox write, 0x22 mailbox read, 0x24/0x64 buffered out,
    0x20 buffered in (mode bits as ebpfcat's parse_sync_managers reads them)"""
    sms = []
    if mbx_out is not None:
        sms.append((mbx_out[0], mbx_out[1], 0x26))
        sms.append((mbx_in[0], mbx_in[1], 0x22))
    if pdo_out is not None:
        sms.append((pdo_out[0], pdo_out[1], 0x24))
    if pdo_in is not None:
        sms.append((pdo_in[0], pdo_in[1], 0x20))
    return sms


def make_terminal(bus, name, station, *, mbx_out=None, mbx_in=None, pdo_out=None,
                  pdo_in=None, od=None, n_fmmu=4, eeprom_extra=(), program_sms=True,
                  identity=(2, 0x12345678, 1, 1), eeprom_8byte=True):
    """a SimTerminal with SII image, optional CoE server; returns
    (simterm, server or None).  With program_sms the SM registers are set as
    Terminal.apply_eeprom would have written them."""
    sms = sm_layout(mbx_out, mbx_in, pdo_out, pdo_in)
    cats = []
    if sms:
        cats.append((sii.CAT_SYNCM, b"".join(sii.syncm_entry(s, l, c) for s, l, c in sms)))
    cats.extend(eeprom_extra)
    image = sii.build(*identity, categories=cats)
    server = adapter = None
    if mbx_out is not None:
        server = CoEServer(od if od is not None else ObjectDictionary(),
                           mbx_out[1], mbx_in[1], station=station)
        adapter = MailboxAdapter(server)
    term = SimTerminal(bus, name, n_fmmu=n_fmmu, n_sm=max(4, len(sms)), station=station,
                       eeprom=image, eeprom_8byte=eeprom_8byte, mailbox_app=adapter)
    term.adapter = adapter
    term.server = server
    term.sms = sms
    if program_sms:
        for i, (s, l, c) in enumerate(sms):
            struct.pack_into("<HHBBBB", term.mem, 0x800 + 8 * i, s, l, c, 0, 1, 0)
    bus.add_terminal(term)
    return term, server


def preinit(ec, simterm, cls=None, name=None):
    """an ebpfcat Terminal object with the attributes Terminal.initialize would
    have left (position, mailbox/pdo areas from the SM layout, fmmu table)"""
    from ebpfcat.ethercat import Terminal
    t = (cls or Terminal)(ec)
    t.name = name or simterm.name
    t.position = simterm.station
    t.mbx_lock = ec.get_mbx_lock(t.position)
    t.fmmu_used = [None] * simterm.n_fmmu
    data = b"".join(sii.syncm_entry(s, l, c) for s, l, c in simterm.sms)
    t.parse_sync_managers(data)
    t.eeprom = {}
    t.pdos = {}
    return t
