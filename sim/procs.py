"""Several simulated OS processes in one Python process: baton-passing threads.

Each SimProcess is a real thread with its own SimLoop; exactly one thread holds
the baton.  The running thread asks the scheduler what to do at *yield points*
(every loop iteration and every intercepted fs / lock / bpf call); the decision
(go on, pre-empt, crash) is drawn from the tape, so a seed is one exactly
repeatable interleaving.  A crashed process is never resumed (no `finally` of
its code runs - that is what SIGKILL means); when the run is over, parked
threads are released in zombie mode and unwind with SimKilled."""
import gc
import sys
import threading

from .loop import SimLoop, SimStall


class SimKilled(BaseException):
    """the simulated process does not exist any more"""


def _quiet_unraisable(unraisable, _orig=sys.unraisablehook):
    """parked threads of dead simulated processes unwind with SimKilled while
    their coroutines are being finalised: that is expected, not worth a message"""
    if isinstance(unraisable.exc_value, SimKilled) or \
            "coroutine ignored GeneratorExit" in str(unraisable.exc_value):
        return
    _orig(unraisable)


sys.unraisablehook = _quiet_unraisable


class SimProcess:
    def __init__(self, sched, pid, name, main):
        self.sched, self.pid, self.name, self.main = sched, pid, name, main
        self.state = "new"        # new running runnable idle blocked exited crashed
        self.wake_at = None
        self.pred = None
        self.resume = threading.Event()
        self.loop = None
        self.result = None
        self.exc = None
        self.thread = None
        self.globals = dict(sched.global_defaults)
        self.exit_watchers = []
        self.crashable = False
        self.steps = 0
        self.quantum_used = 0

    def __repr__(self):
        return f"<p{self.pid} {self.name} {self.state}>"


class Scheduler:
    def __init__(self, env, *, preempt_bound=3, preempt_den=6, max_steps=400_000):
        self.env = env
        self.world = env.world
        self.tape = env.tape
        self.procs = []
        self.current = None
        self.dead = False
        self.done = threading.Event()
        self.preempt_left = preempt_bound
        self.preempt_den = preempt_den
        self.max_steps = max_steps
        self.steps = 0
        self.trace = []           # (pid, label) of every switch: the schedule
        self.aborted = None
        self.crash_rate = 0       # percent per yield point, for crashable processes
        self.crashes_left = 0
        self.crash_when = None    # callable(process, label) -> True: crash it here
        self.global_defaults = {}
        self.global_slots = []    # (object, attribute)
        self.next_pid = 100
        self.pidfds = {}          # fd -> (pid, owner loop)
        self.next_pidfd = 5000
        self.on_crash = []        # callbacks(pid)
        self.quantum = 40         # yield points a process may run while others wait
        self.observer = None      # callable(process, label) at every yield point
        self.hot_pids = set()
        self.stall_rate = 0       # percent, at hot points
        self.stall_anywhere = 0   # per mille, at any yield point (a slow node is slow anywhere)
        self.stall_times = (1e-3, 5e-3, 30e-3)

    # -- per-process copies of process-global Python state ------------------------------
    def track_global(self, obj, attr):
        self.global_slots.append((obj, attr))
        self.global_defaults[(id(obj), attr)] = getattr(obj, attr)

    def _save_globals(self, p):
        for obj, attr in self.global_slots:
            p.globals[(id(obj), attr)] = getattr(obj, attr)

    def _load_globals(self, p):
        for obj, attr in self.global_slots:
            setattr(obj, attr, p.globals[(id(obj), attr)])

    # -- process creation -------------------------------------------------------------------
    def spawn(self, name, main, crashable=False, plain=False):
        """main(loop) is a coroutine function run on the process' own SimLoop; with
        `plain` it is an ordinary callable (it may run the loop itself)"""
        pid = self.next_pid
        self.next_pid += 1
        p = SimProcess(self, pid, name, main)
        p.plain = plain
        p.crashable = crashable
        p.loop = self.env.new_loop(f"p{pid}")
        p.loop.yield_hook = lambda kind, t=None, p=p: self._loop_hook(p, kind, t)
        p.state = "runnable"
        p.thread = threading.Thread(target=self._thread_main, args=(p,), daemon=True,
                                    name=f"sim-p{pid}")
        self.procs.append(p)
        p.thread.start()
        return p

    def current_pid(self):
        return self.current.pid if self.current is not None else 1

    def _thread_main(self, p):
        p.resume.wait()
        p.resume.clear()
        try:
            if self.dead:
                raise SimKilled()
            if getattr(p, "plain", False):
                p.result = p.main()
            else:
                p.result = p.loop.run_coro(p.main(p.loop))
        except SimKilled:
            p.exc = p.exc or SimKilled()
            return
        except BaseException as e:          # what the process died of
            p.exc = e
        if self.dead:
            return
        self._exit(p)

    def _exit(self, p):
        p.state = "exited"
        self.world.log(f"p{p.pid}", "exit", type(p.exc).__name__ if p.exc else None)
        self._process_gone(p)
        nxt = self._decide(None, "exit")
        self._hand_over(p, nxt, park=False)

    def _process_gone(self, p):
        if self.env.kernel is not None:
            self.env.kernel.close_all(p.pid)
        fs = getattr(self.env, "fs", None)
        if fs is not None:
            fs.process_died(p.pid)
        for t in list(p.loop._transports):
            t.closed = True
            for b in self.env.buses.values():
                if t in b.sockets:
                    b.sockets.remove(t)
        for cb in p.exit_watchers:
            cb()

    # -- runnable set and time ----------------------------------------------------------------
    def _is_runnable(self, p):
        if p.state in ("runnable", "running"):
            return True
        if p.state == "idle":
            return (p.wake_at is not None and p.wake_at <= self.world.now) \
                or p.loop._io_pending() or bool(p.loop._ready)
        if p.state == "blocked":
            return bool(p.pred())
        if p.state == "stalled":
            return p.wake_at <= self.world.now
        return False

    def _decide(self, cur, label, hot=False):
        """who runs next; `cur` is the running process or None if it cannot go on.
        `hot`: a point where in-flight state was just created (e.g. right after an
        O_EXCL create): pre-emption is tried with probability 1/2, outside the bound"""
        self.steps += 1
        if self.steps > self.max_steps and self.aborted is None:
            self.aborted = f"more than {self.max_steps} scheduling steps"
            return None
        while True:
            cands = [p for p in self.procs if self._is_runnable(p)]
            if cands:
                break
            waiting = [p for p in self.procs if p.state in ("idle", "blocked", "stalled")]
            if not waiting:
                return None
            times = [p.wake_at for p in waiting if p.state in ("idle", "stalled")
                     and p.wake_at is not None]
            tw = self.world.next_event_time()
            tt = min(times) if times else None
            if tw is None and tt is None:
                self.aborted = self.aborted or "deadlock: " + ", ".join(map(repr, waiting))
                return None
            if tw is not None and (tt is None or tw <= tt):
                self.world.run_next_event()
            elif tt > self.world.now:
                self.world.now = tt
        if cur is not None and cur in cands:
            if len(cands) == 1:
                return cur
            # fairness: a real OS does not let one process spin forever while others
            # are runnable; a forced switch after `quantum` yield points is no pre-emption
            # in the PCT sense (it is not counted against the bound)
            cur.quantum_used += 1
            if cur.quantum_used > self.quantum:
                cur.quantum_used = 0
                others = [p for p in cands if p is not cur]
                self.world.count("sched/quantum-expired")
                return others[self.tape.draw("sched/pick", len(others))]
            if hot and self.tape.draw("sched/preempt-hot", 2):
                others = [p for p in cands if p is not cur]
                self.world.count("sched/hot-preemptions")
                return others[self.tape.draw("sched/pick", len(others))]
            if self.preempt_left > 0 and \
                    self.tape.draw("sched/preempt", self.preempt_den) == self.preempt_den - 1:
                self.preempt_left -= 1
                others = [p for p in cands if p is not cur]
                self.world.count("sched/preemptions")
                return others[self.tape.draw("sched/pick", len(others))]
            return cur
        if len(cands) == 1:
            return cands[0]
        return cands[self.tape.draw("sched/pick", len(cands))]

    def _hand_over(self, cur, nxt, park=True):
        """give the baton to `nxt`; the calling thread parks (or ends)"""
        if cur is not None:
            self._save_globals(cur)
        if nxt is None:
            self.current = None
            self.done.set()
        else:
            self.trace.append((nxt.pid, nxt.state))
            self.current = nxt
            self._load_globals(nxt)
            if self.env.kernel is not None:
                self.env.kernel.current_pid = nxt.pid
            nxt.state = "running"
            nxt.quantum_used = 0
            nxt.resume.set()
        if park and cur is not None:
            cur.resume.wait()
            cur.resume.clear()
            if self.dead or cur.state == "crashed":
                raise SimKilled()

    # -- yield points (called by the running process' thread) ----------------------------------------
    def yield_point(self, label, hot=False):
        p = self.current
        if self.dead or p is None:
            raise SimKilled()
        if threading.current_thread() is not p.thread:
            return              # the harness itself, outside any simulated process
        p.steps += 1
        if p.pid in self.hot_pids:        # this process just created in-flight state
            self.hot_pids.discard(p.pid)
            hot = True
        if self.observer is not None:
            self.observer(p, label)
        if p.crashable and self.crashes_left > 0 and self.crash_rate and \
                self.tape.chance("fault/crash", self.crash_rate):
            self.crash(p, label)
        if p.crashable and self.crashes_left > 0 and self.crash_when is not None \
                and self.crash_when(p, label):
            # a crash placed by the check right where in-flight state exists
            self.world.count("fault/process-crashed-at-a-chosen-site")
            self.crash(p, label)
        if len(self.procs) > 1 and (
                (hot and self.stall_rate and self.tape.chance("fault/stall", self.stall_rate))
                or (self.stall_anywhere
                    and self.tape.chance("fault/stall-anywhere", self.stall_anywhere, 1000))):
            # a slow or stalled node: descheduled for a while right where in-flight
            # state exists (page fault, CPU contention, SIGSTOP)
            p.state = "stalled"
            p.wake_at = self.world.now + self.stall_times[
                self.tape.draw("fault/stall-time", len(self.stall_times))]
            self.world.count("fault/process-stalled")
            self.trace.append((p.pid, "stall:" + label))
            nxt = self._decide(None, label)
            if nxt is not p:
                self._hand_over(p, nxt)
            p.state = "running"
            return
        nxt = self._decide(p, label, hot)
        if nxt is p:
            return
        p.state = "runnable"
        self.trace.append((p.pid, "yield:" + label))
        self._hand_over(p, nxt)
        p.state = "running"

    def crash(self, p, label):
        self.crashes_left -= 1
        p.state = "crashed"
        self.world.count("fault/process-crashed")
        self.world.log(f"p{p.pid}", "crash", label)
        self._process_gone(p)
        for cb in self.on_crash:
            cb(p.pid)
        nxt = self._decide(None, "crash")
        self._hand_over(p, nxt)          # parks forever, ends with SimKilled

    def block_until(self, pred, label):
        p = self.current
        p.state = "blocked"
        p.pred = pred
        nxt = self._decide(None, label)
        if nxt is p:
            p.state = "running"
            return
        self._hand_over(p, nxt)
        p.state = "running"

    def _loop_hook(self, p, kind, t_timer):
        if kind == "loop":
            self.yield_point("loop")
            return False
        # idle: nothing ready in this process' loop
        p.state = "idle"
        p.wake_at = t_timer
        nxt = self._decide(None, "idle")
        if nxt is p:
            p.state = "running"
            return True
        self._hand_over(p, nxt)
        p.state = "running"
        return True

    # -- pidfd ---------------------------------------------------------------------------------------
    def pidfd_open(self, pid):
        target = next((q for q in self.procs if q.pid == pid), None)
        if target is None:
            raise ProcessLookupError(3, "No such process")
        fd = self.next_pidfd
        self.next_pidfd += 1
        owner = self.current

        def fire():
            if owner is not None and owner.state not in ("exited", "crashed"):
                owner.loop.fd_ready(fd)
        if target.state in ("exited", "crashed"):
            owner.loop._ready_fds = (owner.loop._ready_fds or []) + [fd]
        else:
            target.exit_watchers.append(fire)
        return fd

    # -- driving the whole thing (main thread) ----------------------------------------------------------
    def run(self, wall_timeout=120):
        was = gc.isenabled()
        gc.disable()
        try:
            first = self._decide(None, "start")
            self._hand_over(None, first, park=False)
            if not self.done.wait(wall_timeout):
                self.aborted = self.aborted or "wall timeout in the scheduler"
        finally:
            self.dead = True
            self.world.dead = True
            for p in self.procs:
                p.resume.set()
            for p in self.procs:
                p.thread.join(5)
            gc.collect()
            if was:
                gc.enable()
        return self.aborted
