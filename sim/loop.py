"""World clock/event queue and the virtual-time asyncio loop (SimLoop).

SimLoop is an `asyncio.BaseEventLoop`: tasks, futures, queues, locks, wait_for,
TaskGroup, gather are the real CPython implementations.  What is replaced is
what a real loop gets from the OS: the clock, the selector and the sockets.

Deliberately NOT done: re-ordering of call_soon callbacks (asyncio guarantees
FIFO and ebpfcat relies on it, see DESIGN.md section 3).
"""
import asyncio
import collections
import heapq
import socket
import sys
from asyncio import base_events, events, futures, tasks

from .tape import Digest


class SimDeadlock(Exception):
    """nothing is runnable, no timer, no world event: the run cannot progress"""


class SimStall(BaseException):
    """a synchronous loop of the code under test did not yield for too long"""


class World:
    """virtual clock + global event queue + event log of one simulated run"""

    def __init__(self, tape, keep_events=0):
        self.tape = tape
        self.now = 0.0
        self.seq = 0             # global event sequence number (total order)
        self._events = []        # heap of (time, seq, fn, args)
        self.digest = Digest(keep_events)
        self.counters = collections.Counter()   # probes / fault counters
        self.dead = False

    def log(self, actor, kind, *payload):
        self.seq += 1
        self.digest.add(self.seq, round(self.now * 1e9), actor, kind, payload)
        return self.seq

    def count(self, name, n=1):
        self.counters[name] += n

    def at(self, t, fn, *args):
        self.seq += 1
        heapq.heappush(self._events, (max(t, self.now), self.seq, fn, args))

    def after(self, dt, fn, *args):
        self.at(self.now + dt, fn, *args)

    def next_event_time(self):
        return self._events[0][0] if self._events else None

    def run_next_event(self):
        t, _, fn, args = heapq.heappop(self._events)
        if t > self.now:
            self.now = t
        fn(*args)

    def run_due_events(self):
        n = 0
        while self._events and self._events[0][0] <= self.now:
            self.run_next_event()
            n += 1
        return n


class FakeSock:
    """what the library touches of `transport._sock` / get_extra_info('socket')"""

    def __init__(self, transport, family, proto):
        self.transport = transport
        self.family = family
        self.proto = proto
        self.bound = None
        self.opts = []

    def bind(self, addr):
        self.bound = addr
        self.transport._bound(addr)

    def setsockopt(self, *args):
        self.opts.append(args)

    def fileno(self):
        return -1

    def close(self):
        pass


class SimDatagramTransport(asyncio.DatagramTransport):
    """base of the simulated datagram transports; the loop delivers at most one
    datagram per transport per iteration, in arrival order (as
    _SelectorDatagramTransport._read_ready does)"""

    def __init__(self, loop, protocol, family, proto):
        super().__init__()
        self._loop = loop
        self._protocol = protocol
        self._sock = FakeSock(self, family, proto)
        self._extra = {"socket": self._sock}
        self.inbox = collections.deque()
        self.closed = False
        loop._transports.append(self)

    def get_extra_info(self, name, default=None):
        return self._extra.get(name, default)

    def _bound(self, addr):
        pass

    def deliver(self, data, addr):
        """called by the world (NIC / kernel) when a datagram arrives"""
        if not self.closed:
            self.inbox.append((data, addr))

    def _read_ready(self):
        if self.closed or not self.inbox:
            return
        data, addr = self.inbox.popleft()
        self._protocol.datagram_received(data, addr)

    def is_closing(self):
        return self.closed

    def close(self):
        if self.closed:
            return
        self.closed = True
        self.inbox.clear()
        if self in self._loop._transports:
            self._loop._transports.remove(self)
        self._loop.call_soon(self._protocol.connection_lost, None)

    def abort(self):
        self.close()


class SimLoop(base_events.BaseEventLoop):
    """virtual-time event loop of one simulated OS process"""

    ITER_COST = 20e-6     # virtual seconds one loop iteration takes
    max_iterations = 40_000   # per run; a run that needs more is reported, not awaited

    def __init__(self, world, name="p0", endpoint_factory=None):
        super().__init__()
        self.world = world
        self.name = name
        self._transports = []
        self._readers = {}       # fd -> (callback, args, ready predicate)
        self.endpoint_factory = endpoint_factory
        self.exceptions = []     # what the loop exception handler saw
        self.iterations = 0
        self.yield_hook = None   # multi-process scheduler hook
        self._task_counter = 0
        self.set_exception_handler(self._on_exception)
        self.set_task_factory(self._task_factory)
        self.step_hook = None    # called before every step of every task
        self._clock_resolution = 1e-9

    # -- clock ---------------------------------------------------------------
    def time(self):
        return self.world.now

    # -- tasks: pure-Python tasks with deterministic names and a step hook ----
    def _task_factory(self, loop, coro, **kwargs):
        self._task_counter += 1
        if kwargs.get("name") is None:
            kwargs["name"] = f"{self.name}-t{self._task_counter}"
        return SimTask(coro, loop=loop, **kwargs)

    def create_task(self, coro, *, name=None, context=None):
        self._check_closed()
        self._task_counter += 1
        if name is None:
            name = f"{self.name}-t{self._task_counter}"
        return SimTask(coro, loop=self, name=name, context=context)

    def _on_exception(self, loop, context):
        exc = context.get("exception")
        # NOT logged into the digest: "exception was never retrieved" reports
        # fire when the garbage collector gets to the task, which is not a
        # simulated event.  Oracles read this list after Env has run gc.collect().
        self.exceptions.append((context.get("message"), exc))

    # -- the OS interface of BaseEventLoop -------------------------------------
    def _process_events(self, event_list):
        pass

    def _write_to_self(self):
        pass

    async def create_datagram_endpoint(self, protocol_factory, local_addr=None,
                                       remote_addr=None, *, family=0, proto=0,
                                       flags=0, **kwargs):
        protocol = protocol_factory()
        transport = self.endpoint_factory(self, protocol, family, proto)
        waiter = self.create_future()
        # same order as _SelectorDatagramTransport.__init__
        self.call_soon(protocol.connection_made, transport)
        self.call_soon(futures._set_result_unless_cancelled, waiter, None)
        try:
            await waiter
        except BaseException:
            transport.close()
            raise
        return transport, protocol

    def add_reader(self, fd, callback, *args):
        self._readers[fd] = (callback, args)

    def remove_reader(self, fd):
        return self._readers.pop(fd, None) is not None

    def fd_ready(self, fd):
        """called by the world when `fd` becomes readable"""
        if self._ready_fds is None:
            self._ready_fds = []
        self._ready_fds.append(fd)

    _ready_fds = None

    # -- the heart ---------------------------------------------------------------
    def _io_pending(self):
        if self._ready_fds:
            return True
        for t in self._transports:
            if t.inbox:
                return True
        return False

    def _run_once(self):
        world = self.world
        tape = world.tape
        self.iterations += 1
        if self.iterations > self.max_iterations:
            raise SimStall(f"{self.name}: more than {self.max_iterations} loop iterations "
                           f"in one run (virtual time {world.now:.3f}s)")
        if self._ready_fds is None:
            self._ready_fds = []
        if self.yield_hook is not None:
            self.yield_hook("loop")

        # (1) drop cancelled timers at the head (as BaseEventLoop does)
        while self._scheduled and self._scheduled[0]._cancelled:
            self._timer_cancelled_count -= 1
            handle = heapq.heappop(self._scheduled)
            handle._scheduled = False

        # (2) world events that are due; then wait (jump the clock) if idle
        world.run_due_events()
        if not self._ready and not self._stopping:
            while not self._ready and not self._io_pending():
                while self._scheduled and self._scheduled[0]._cancelled:
                    self._timer_cancelled_count -= 1
                    handle = heapq.heappop(self._scheduled)
                    handle._scheduled = False
                t_timer = self._scheduled[0]._when if self._scheduled else None
                if t_timer is not None and t_timer <= world.now:
                    break
                if self.yield_hook is not None:
                    # several simulated processes: the scheduler lets others run
                    # and advances the clock when everybody is idle
                    self.yield_hook("idle", t_timer)
                    continue
                t_world = world.next_event_time()
                if t_timer is None and t_world is None:
                    raise SimDeadlock(f"{self.name}: nothing can happen any more")
                if t_world is not None and (t_timer is None or t_world <= t_timer):
                    world.run_next_event()
                else:
                    world.now = t_timer
                    break

        # (3) I/O callbacks: one datagram per transport, arrival order inside a
        # transport; the order between different ready sources is selector
        # order, i.e. unspecified: a tape draw
        sources = [t for t in self._transports if t.inbox]
        fds = self._ready_fds
        self._ready_fds = []
        items = [("t", t) for t in sources] + [("fd", fd) for fd in fds]
        if len(items) > 1:
            items = tape.shuffle("loop/io-order", items)
        for kind, item in items:
            if kind == "t":
                self._ready.append(events.Handle(item._read_ready, (), self))
            else:
                reader = self._readers.get(item)
                if reader is not None:
                    self._ready.append(events.Handle(reader[0], reader[1], self))

        # (4) due timers; ties between equal deadlines are a tape draw
        end_time = world.now + self._clock_resolution
        due = []
        while self._scheduled:
            handle = self._scheduled[0]
            if handle._when >= end_time:
                break
            handle = heapq.heappop(self._scheduled)
            handle._scheduled = False
            due.append(handle)
        i = 0
        while i < len(due):
            j = i + 1
            while j < len(due) and due[j]._when == due[i]._when:
                j += 1
            group = due[i:j]
            group = [h for h in group if not h._cancelled]
            if len(group) > 1:
                group = tape.shuffle("loop/timer-tie", group)
            self._ready.extend(group)
            i = j

        # (5) run exactly what was ready at this point
        ntodo = len(self._ready)
        for _ in range(ntodo):
            handle = self._ready.popleft()
            if handle._cancelled:
                continue
            handle._run()
        handle = None
        world.now += self.ITER_COST

    # -- running -------------------------------------------------------------------
    def run_coro(self, coro, max_iterations=None):
        """run `coro` to completion on this loop (single-process simulations)"""
        if max_iterations:
            self.max_iterations = max_iterations
        asyncio.set_event_loop(self)
        try:
            return self.run_until_complete(coro)
        finally:
            asyncio.set_event_loop(None)

    def shutdown(self):
        """cancel everything that is left and close; never raises"""
        try:
            asyncio.set_event_loop(self)
            pending = [t for t in tasks.all_tasks(self) if not t.done()]
            for t in pending:
                t.cancel()
            if pending:
                try:
                    self.run_until_complete(
                        asyncio.gather(*pending, return_exceptions=True))
                except BaseException:
                    pass
        finally:
            asyncio.set_event_loop(None)
            for t in list(self._transports):
                t.closed = True
            self._transports.clear()
            self._ready.clear()
            self._scheduled.clear()
            try:
                self.close()
            except BaseException:
                pass

    def close(self):
        if self.is_running():
            return
        self._closed_sim = True
        # BaseEventLoop.close shuts the default executor; nothing else to do
        super().close()


class SimTask(tasks._PyTask):
    """a pure-Python task: counts its steps and lets a hook act before a step
    (cancellation injected before the n-th step of a chosen task)"""

    def __init__(self, coro, *, loop, **kwargs):
        self.sim_steps = 0
        self.sim_tag = None
        super().__init__(coro, loop=loop, **kwargs)

    def _Task__step(self, exc=None):
        self.sim_steps += 1
        hook = self._loop.step_hook
        if hook is not None and not self.done():
            hook(self)
        return super()._Task__step(exc)


def run_sim(world, main, *, endpoint_factory=None, loop_name="p0",
            max_virtual_time=3600.0):
    """single-process helper: run coroutine function `main(loop)` on a fresh SimLoop.

    Returns (result, loop).  The loop is shut down (pending tasks cancelled)."""
    loop = SimLoop(world, loop_name, endpoint_factory)
    try:
        result = loop.run_coro(main(loop))
    finally:
        loop.shutdown()
    return result, loop
